/-
Proofs/EvalOps.lean — operator-level facts used by Proofs/EvalOrder.lean: how `Operator.eval`,
`Operator.evalMut`, `callFunction` and `setValue` treat the state.
-/
import EvalexprVerif.Spec.BigStep
import EvalexprVerif.Spec.WellFormed

namespace Evalexpr.Spec
open Evalexpr

/-- the state with `l` put in front of its call log -/
def prependLog (l : List (Str × Value)) (s : St) : St := ⟨s.ctx, l ++ s.log⟩

theorem St.ext' {s t : St} (h₁ : s.ctx = t.ctx) (h₂ : s.log = t.log) : s = t := by
  cases s; cases t; simp_all

/-! ### `callFunction` -/

/-- `callFunction` either leaves the state alone or appends exactly one call to the log -/
theorem callFunction_state (id : Str) (arg : Value) (s : St) :
    (callFunction id arg s).2 = s ∨
      (callFunction id arg s).2 = { s with log := s.log ++ [(id, arg)] } := by
  unfold callFunction
  cases s.ctx.userFn id with
  | none =>
    left
    simp only
    split <;> first | rfl | (split <;> rfl)
  | some f =>
    right
    simp only
    cases f arg with
    | ok v => rfl
    | error e =>
      cases e <;> first | rfl | (simp only; split <;> first | rfl | (split <;> rfl))

theorem callFunction_prepend (l : List (Str × Value)) (id : Str) (arg : Value) (s : St) :
    callFunction id arg (prependLog l s) =
      ((callFunction id arg s).1, prependLog l (callFunction id arg s).2) := by
  unfold callFunction
  have hc : (prependLog l s).ctx = s.ctx := rfl
  rw [hc]
  cases s.ctx.userFn id with
  | none =>
    simp only [hc]
    split <;> first | rfl | (split <;> rfl)
  | some f =>
    simp only [prependLog, List.append_assoc]
    cases f arg with
    | ok v => rfl
    | error e =>
      cases e <;> first | rfl | (simp only; split <;> first | rfl | (split <;> rfl))

/-! ### `Operator.eval` -/

theorem eval_state (op : Operator) (args : List Value) (s : St) :
    (op.eval args s).2 = s ∨
      ∃ id arg, (op.eval args s).2 = { s with log := s.log ++ [(id, arg)] } := by
  cases op with
  | varRead id =>
    left; simp only [Operator.eval]
    split
    · split <;> rfl
    · rfl
  | fn id =>
    simp only [Operator.eval]
    split
    · rename_i arg
      rcases callFunction_state id arg s with h | h
      · exact Or.inl h
      · exact Or.inr ⟨id, arg, h⟩
    · exact Or.inl rfl
  | _ => exact Or.inl rfl

theorem eval_ctx (op : Operator) (args : List Value) (s : St) : (op.eval args s).2.ctx = s.ctx := by
  rcases eval_state op args s with h | ⟨id, arg, h⟩ <;> rw [h]

theorem eval_log (op : Operator) (args : List Value) (s : St) :
    ∃ l, (op.eval args s).2.log = s.log ++ l := by
  rcases eval_state op args s with h | ⟨id, arg, h⟩
  · exact ⟨[], by rw [h]; simp⟩
  · exact ⟨[(id, arg)], by rw [h]⟩

theorem eval_prepend (l : List (Str × Value)) (op : Operator) (args : List Value) (s : St) :
    op.eval args (prependLog l s) = ((op.eval args s).1, prependLog l (op.eval args s).2) := by
  cases op with
  | varRead id =>
    simp only [Operator.eval]
    split
    · have hc : (prependLog l s).ctx = s.ctx := rfl
      rw [hc]; split <;> rfl
    · rfl
  | fn id =>
    simp only [Operator.eval]
    split
    · exact callFunction_prepend l id _ s
    · rfl
  | _ => rfl

/-- outside the two context-dependent arms the state is returned as it is -/
theorem eval_pure (op : Operator) (args : List Value) (s : St)
    (h₁ : ∀ id, op ≠ .varRead id) (h₂ : ∀ id, op ≠ .fn id) :
    op.eval args s = (op.evalPure args, s) := by
  cases op with
  | varRead id => exact absurd rfl (h₁ id)
  | fn id => exact absurd rfl (h₂ id)
  | _ => rfl

/-! ### assignment operators -/

theorem evalMut_of_not_assign (op : Operator) (args : List Value) (s : St)
    (h : Operator.isAssignKind op = false) : op.evalMut args s = op.eval args s := by
  cases op <;> first | rfl | (simp [Operator.isAssignKind] at h)

theorem eval_of_assign (op : Operator) (args : List Value) (s : St)
    (h : Operator.isAssignKind op = true) : op.eval args s = (.error .contextNotMutable, s) := by
  cases op <;> first | rfl | (simp [Operator.isAssignKind] at h)

theorem setValue_shape (s : St) (id : Str) (v : Value) :
    (∃ e, s.ctx.setValue id v = .error e ∧ setValue s id v = (.error e, s)) ∨
      (∃ c, s.ctx.setValue id v = .ok c ∧ setValue s id v = (.ok (), { s with ctx := c })) := by
  unfold setValue
  cases h : s.ctx.setValue id v with
  | error e => exact Or.inl ⟨e, rfl, rfl⟩
  | ok c => exact Or.inr ⟨c, rfl, rfl⟩

/-- the tail shared by every assignment arm: store the value, answer `Empty` -/
theorem store_shape (s : St) (id : Str) (v : Value) :
    (∃ e, (match setValue s id v with
        | (.ok _, s) => ((.ok .empty : Res Value), s)
        | (.error e, s) => (.error e, s)) = (.error e, s)) ∨
      (∃ c, s.ctx.setValue id v = .ok c ∧
        (match setValue s id v with
        | (.ok _, s) => ((.ok .empty : Res Value), s)
        | (.error e, s) => (.error e, s)) = (.ok .empty, { s with ctx := c })) := by
  rcases setValue_shape s id v with ⟨e, _, h⟩ | ⟨c, hc, h⟩
  · exact Or.inl ⟨e, by rw [h]⟩
  · exact Or.inr ⟨c, hc, by rw [h]⟩

/-- the shape of every outcome of an assignment operator: an error with the state untouched, or
`Empty` with exactly one successful `set_value` applied to the context -/
def AssignShape (p : Res Value × St) (s : St) : Prop :=
  (∃ e, p = (.error e, s)) ∨
    (∃ id v c, s.ctx.setValue id v = .ok c ∧ p = (.ok .empty, { s with ctx := c }))

theorem AssignShape.of_store {s : St} {id : Str} {v : Value} :
    AssignShape (match setValue s id v with
        | (.ok _, s) => ((.ok .empty : Res Value), s)
        | (.error e, s) => (.error e, s)) s := by
  rcases store_shape s id v with ⟨e, h⟩ | ⟨c, hc, h⟩
  · exact Or.inl ⟨e, h⟩
  · exact Or.inr ⟨id, v, c, hc, h⟩

theorem opAssign_shape (base : Operator) (args : List Value) (s : St)
    (hb₁ : ∀ id, base ≠ .varRead id) (hb₂ : ∀ id, base ≠ .fn id) :
    AssignShape
      (match args with
      | [t, v] =>
        match t.asString with
        | .error e => (.error e, s)
        | .ok target =>
          match Operator.eval (.varRead target) [] s with
          | (.error e, s) => (.error e, s)
          | (.ok left, s) =>
            match (some base : Option Operator) with
            | none => (.error (.panic cl!"eval_mut: unreachable!()"), s)
            | some base =>
              match Operator.eval base [left, v] s with
              | (.error e, s) => (.error e, s)
              | (.ok result, s) =>
                match setValue s target result with
                | (.ok _, s) => (.ok .empty, s)
                | (.error e, s) => (.error e, s)
      | _ => (.error (wrongArgs 2 args.length), s)) s := by
  split
  · rename_i t v
    cases t.asString with
    | error e => exact Or.inl ⟨e, rfl⟩
    | ok target =>
      simp only [Operator.eval]
      cases s.ctx.getValue target with
      | none => exact Or.inl ⟨_, rfl⟩
      | some left =>
        simp only
        cases base.evalPure [left, v] with
        | error e => exact Or.inl ⟨e, rfl⟩
        | ok result => exact AssignShape.of_store
  · exact Or.inl ⟨_, rfl⟩

theorem evalMut_assign_shape (op : Operator) (args : List Value) (s : St)
    (h : Operator.isAssignKind op = true) : AssignShape (op.evalMut args s) s := by
  cases op with
  | assign =>
    simp only [Operator.evalMut]
    split
    · rename_i t v
      cases t.asString with
      | error e => exact Or.inl ⟨e, rfl⟩
      | ok target => exact AssignShape.of_store
    · exact Or.inl ⟨_, rfl⟩
  | addAssign => exact opAssign_shape .add args s (by intro _ h; cases h) (by intro _ h; cases h)
  | subAssign => exact opAssign_shape .sub args s (by intro _ h; cases h) (by intro _ h; cases h)
  | mulAssign => exact opAssign_shape .mul args s (by intro _ h; cases h) (by intro _ h; cases h)
  | divAssign => exact opAssign_shape .div args s (by intro _ h; cases h) (by intro _ h; cases h)
  | modAssign => exact opAssign_shape .mod args s (by intro _ h; cases h) (by intro _ h; cases h)
  | expAssign => exact opAssign_shape .exp args s (by intro _ h; cases h) (by intro _ h; cases h)
  | andAssign => exact opAssign_shape .and args s (by intro _ h; cases h) (by intro _ h; cases h)
  | orAssign => exact opAssign_shape .or args s (by intro _ h; cases h) (by intro _ h; cases h)
  | _ => simp [Operator.isAssignKind] at h

/-! ### arity checks -/

/-- every operator with a fixed arity (other than the parenthesis node) rejects an argument list
of another length, in both evaluators -/
theorem arity_error (op : Operator) (args : List Value) (s : St) (n : Nat)
    (hn : op.maxArgumentAmount = some n) (hr : op.isRoot = false) (hl : args.length ≠ n) :
    (∃ e, (op.evalMut args s).1 = .error e) ∧ (∃ e, (op.eval args s).1 = .error e) := by
  cases op <;>
    simp [Operator.maxArgumentAmount, Operator.kind, OpKind.maxArgumentAmount,
      Operator.isRoot] at hn hr <;>
    subst hn <;>
    rcases args with _ | ⟨a, _ | ⟨b, _ | ⟨c, rest⟩⟩⟩ <;>
    first | (simp at hl; done) | exact ⟨⟨_, rfl⟩, ⟨_, rfl⟩⟩

end Evalexpr.Spec
