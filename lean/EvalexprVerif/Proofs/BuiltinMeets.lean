/-
Proofs/BuiltinMeets.lean — property C10: every builtin meets its documented outcome
(`Spec/RefBuiltin.lean`), plus the C01/C10 corollaries (no panic, `len`/`substring` share a unit,
type errors are errors).

Side conditions that had to be added to the statement as first written (see the theorems'
docstrings): `SizeOk` for `len` (the reference ignores strings / tuples of ≥ 2^63 bytes / elements,
where the implementation reports an `IntFromUsize` error), and `FloatOrderLaws` (two facts about
the opaque core constant `Int64.toFloat`) for `min` / `max` on arguments mixing ints and floats.
-/
import EvalexprVerif.Proofs.BuiltinBasic
import EvalexprVerif.Proofs.BuiltinSubstring
import EvalexprVerif.Proofs.BuiltinShift
import EvalexprVerif.Proofs.BuiltinMinMax

namespace Evalexpr.Spec
open Evalexpr

/-! ### one lemma per builtin -/

theorem C10_ln (arg : Value) : MeetsB (Builtin.call .ln arg) (refBuiltin .ln arg) := meets_math1 _ arg
theorem C10_log2 (arg : Value) : MeetsB (Builtin.call .log2 arg) (refBuiltin .log2 arg) := meets_math1 _ arg
theorem C10_log10 (arg : Value) : MeetsB (Builtin.call .log10 arg) (refBuiltin .log10 arg) := meets_math1 _ arg
theorem C10_exp (arg : Value) : MeetsB (Builtin.call .exp arg) (refBuiltin .exp arg) := meets_math1 _ arg
theorem C10_exp2 (arg : Value) : MeetsB (Builtin.call .exp2 arg) (refBuiltin .exp2 arg) := meets_math1 _ arg
theorem C10_cos (arg : Value) : MeetsB (Builtin.call .cos arg) (refBuiltin .cos arg) := meets_math1 _ arg
theorem C10_acos (arg : Value) : MeetsB (Builtin.call .acos arg) (refBuiltin .acos arg) := meets_math1 _ arg
theorem C10_cosh (arg : Value) : MeetsB (Builtin.call .cosh arg) (refBuiltin .cosh arg) := meets_math1 _ arg
theorem C10_acosh (arg : Value) : MeetsB (Builtin.call .acosh arg) (refBuiltin .acosh arg) := meets_math1 _ arg
theorem C10_sin (arg : Value) : MeetsB (Builtin.call .sin arg) (refBuiltin .sin arg) := meets_math1 _ arg
theorem C10_asin (arg : Value) : MeetsB (Builtin.call .asin arg) (refBuiltin .asin arg) := meets_math1 _ arg
theorem C10_sinh (arg : Value) : MeetsB (Builtin.call .sinh arg) (refBuiltin .sinh arg) := meets_math1 _ arg
theorem C10_asinh (arg : Value) : MeetsB (Builtin.call .asinh arg) (refBuiltin .asinh arg) := meets_math1 _ arg
theorem C10_tan (arg : Value) : MeetsB (Builtin.call .tan arg) (refBuiltin .tan arg) := meets_math1 _ arg
theorem C10_atan (arg : Value) : MeetsB (Builtin.call .atan arg) (refBuiltin .atan arg) := meets_math1 _ arg
theorem C10_tanh (arg : Value) : MeetsB (Builtin.call .tanh arg) (refBuiltin .tanh arg) := meets_math1 _ arg
theorem C10_atanh (arg : Value) : MeetsB (Builtin.call .atanh arg) (refBuiltin .atanh arg) := meets_math1 _ arg
theorem C10_sqrt (arg : Value) : MeetsB (Builtin.call .sqrt arg) (refBuiltin .sqrt arg) := meets_math1 _ arg
theorem C10_cbrt (arg : Value) : MeetsB (Builtin.call .cbrt arg) (refBuiltin .cbrt arg) := meets_math1 _ arg
theorem C10_floor (arg : Value) : MeetsB (Builtin.call .floor arg) (refBuiltin .floor arg) := meets_math1 _ arg
theorem C10_round (arg : Value) : MeetsB (Builtin.call .round arg) (refBuiltin .round arg) := meets_math1 _ arg
theorem C10_ceil (arg : Value) : MeetsB (Builtin.call .ceil arg) (refBuiltin .ceil arg) := meets_math1 _ arg
theorem C10_log (arg : Value) : MeetsB (Builtin.call .log arg) (refBuiltin .log arg) := meets_math2 _ arg
theorem C10_pow (arg : Value) : MeetsB (Builtin.call .pow arg) (refBuiltin .pow arg) := meets_math2 _ arg
theorem C10_atan2 (arg : Value) : MeetsB (Builtin.call .atan2 arg) (refBuiltin .atan2 arg) := meets_math2 _ arg
theorem C10_hypot (arg : Value) : MeetsB (Builtin.call .hypot arg) (refBuiltin .hypot arg) := meets_math2 _ arg
theorem C10_isNan (arg : Value) : MeetsB (Builtin.call .isNan arg) (refBuiltin .isNan arg) := meets_pred1 _ arg
theorem C10_isFinite (arg : Value) : MeetsB (Builtin.call .isFinite arg) (refBuiltin .isFinite arg) := meets_pred1 _ arg
theorem C10_isInfinite (arg : Value) : MeetsB (Builtin.call .isInfinite arg) (refBuiltin .isInfinite arg) := meets_pred1 _ arg
theorem C10_isNormal (arg : Value) : MeetsB (Builtin.call .isNormal arg) (refBuiltin .isNormal arg) := meets_pred1 _ arg

/-- `min`, unconditional for unmixed arguments, under the `Int64.toFloat` laws otherwise -/
theorem C10_min (arg : Value) (hl : MixedArgs (minMaxArgs arg) → FloatOrderLaws) :
    MeetsB (Builtin.call .min arg) (refBuiltin .min arg) := C10_min_of arg hl
theorem C10_max (arg : Value) (hl : MixedArgs (minMaxArgs arg) → FloatOrderLaws) :
    MeetsB (Builtin.call .max arg) (refBuiltin .max arg) := C10_max_of arg hl

/-- `as_fixed_len_tuple(n)` returns a list of exactly `n` elements: the `.panic` arms of the
builtins (`tuple[i]` out of range) are unreachable -/
theorem asFixedLenTuple_length (v : Value) (n : Nat) (t : List Value)
    (h : v.asFixedLenTuple n = .ok t) : t.length = n := by
  cases v with
  | tuple u =>
    simp only [Value.asFixedLenTuple] at h
    split at h
    · rename_i hl; cases h; simpa using hl
    · cases h
  | _ => cases h

theorem asRangedLenTuple_length (v : Value) (lo hi : Nat) (t : List Value)
    (h : v.asRangedLenTuple lo hi = .ok t) : lo ≤ t.length ∧ t.length ≤ hi := by
  cases v with
  | tuple u =>
    simp only [Value.asRangedLenTuple] at h
    split at h
    · rename_i hl; cases h; simpa using hl
    · cases h
  | _ => cases h

/-! ### the main theorem -/

/-- **C10 (main), most general form.** Every builtin, on every argument value, meets the documented
outcome, given
* for `len` only: the size fits an `i64` (`SizeOk`; otherwise the statement is false, see
  `C10_len_counterexample`);
* for `min` / `max` only, and only if the arguments mix ints and floats: the two `Int64.toFloat`
  facts of `FloatOrderLaws`. -/
theorem C10_builtin_gen (b : Builtin) (arg : Value)
    (hsz : b = .len → SizeOk arg)
    (hl : b = .min ∨ b = .max → MixedArgs (minMaxArgs arg) → FloatOrderLaws) :
    MeetsB (b.call arg) (refBuiltin b arg) := by
  cases b with
  | ln => exact C10_ln arg
  | log2 => exact C10_log2 arg
  | log10 => exact C10_log10 arg
  | exp => exact C10_exp arg
  | exp2 => exact C10_exp2 arg
  | cos => exact C10_cos arg
  | acos => exact C10_acos arg
  | cosh => exact C10_cosh arg
  | acosh => exact C10_acosh arg
  | sin => exact C10_sin arg
  | asin => exact C10_asin arg
  | sinh => exact C10_sinh arg
  | asinh => exact C10_asinh arg
  | tan => exact C10_tan arg
  | atan => exact C10_atan arg
  | tanh => exact C10_tanh arg
  | atanh => exact C10_atanh arg
  | sqrt => exact C10_sqrt arg
  | cbrt => exact C10_cbrt arg
  | floor => exact C10_floor arg
  | round => exact C10_round arg
  | ceil => exact C10_ceil arg
  | log => exact C10_log arg
  | pow => exact C10_pow arg
  | atan2 => exact C10_atan2 arg
  | hypot => exact C10_hypot arg
  | isNan => exact C10_isNan arg
  | isFinite => exact C10_isFinite arg
  | isInfinite => exact C10_isInfinite arg
  | isNormal => exact C10_isNormal arg
  | abs => exact C10_abs arg
  | typeof => exact C10_typeof arg
  | if_ => exact C10_if arg
  | contains => exact C10_contains arg
  | containsAny => exact C10_containsAny arg
  | strToLowercase => exact C10_strToLowercase arg
  | strToUppercase => exact C10_strToUppercase arg
  | strTrim => exact C10_strTrim arg
  | strFrom => exact C10_strFrom arg
  | strSubstring => exact C10_strSubstring arg
  | bitand => exact C10_bitand arg
  | bitor => exact C10_bitor arg
  | bitxor => exact C10_bitxor arg
  | bitnot => exact C10_bitnot arg
  | shl => exact C10_shl arg
  | shr => exact C10_shr arg
  | len => exact C10_len arg (hsz rfl)
  | min => exact C10_min arg (hl (Or.inl rfl))
  | max => exact C10_max arg (hl (Or.inr rfl))

/-- **C10 (main)** under the `Int64.toFloat` laws, with the size side condition for `len` -/
theorem C10_builtin (laws : FloatOrderLaws) (b : Builtin) (arg : Value) (hsz : b = .len → SizeOk arg) :
    MeetsB (b.call arg) (refBuiltin b arg) :=
  C10_builtin_gen b arg hsz (fun _ _ => laws)

/-- **C10 (main), unconditional part**: everything except `len`, `min`, `max` -/
theorem C10_builtin_unconditional (b : Builtin) (arg : Value)
    (h1 : b ≠ .len) (h2 : b ≠ .min) (h3 : b ≠ .max) : MeetsB (b.call arg) (refBuiltin b arg) :=
  C10_builtin_gen b arg (fun h => (h1 h).elim) (fun h => (h.elim h2 h3).elim)

/-- the side condition on `len` cannot be dropped: a tuple of 2^63 elements -/
theorem C10_len_counterexample :
    ¬ MeetsB (Builtin.call .len (.tuple (List.replicate (2 ^ 63) .empty)))
        (refBuiltin .len (.tuple (List.replicate (2 ^ 63) .empty))) := by
  intro h
  have h1 : Builtin.call .len (.tuple (List.replicate (2 ^ 63) .empty)) =
      (intFromUsize (List.replicate (2 ^ 63) Value.empty).length).map .int := rfl
  rw [h1, List.length_replicate] at h
  have h2 : intFromUsize (2 ^ 63) = .error (.intFromUsize (2 ^ 63)) := by
    unfold intFromUsize; rw [if_neg (by decide)]
  rw [h2] at h
  simp only [refBuiltin, MeetsB] at h
  cases h

/-! ### corollaries (C01 / C10) -/

theorem meets_no_panic {r : Res Value} {ref : BuiltinRef} (h : MeetsB r ref) : r.isPanic = false := by
  cases ref with
  | value v => simp only [MeetsB] at h; rw [h]; rfl
  | error => obtain ⟨e, h, hp⟩ := h; rw [h]; exact hp
  | any =>
    cases r with
    | ok v => rfl
    | error e => exact h e rfl
  | smallestOf args => obtain ⟨v, h, _⟩ := h; rw [h]; rfl
  | largestOf args => obtain ⟨v, h, _⟩ := h; rw [h]; rfl

/-- no builtin ever panics, on any argument (unconditional) -/
theorem C10_no_panic (b : Builtin) (arg : Value) : (b.call arg).isPanic = false := by
  by_cases h1 : b = .len
  · rw [h1]; exact len_no_panic arg
  · by_cases h2 : b = .min
    · rw [h2]; exact (C10_minmax_no_panic arg).1
    · by_cases h3 : b = .max
      · rw [h3]; exact (C10_minmax_no_panic arg).2
      · exact meets_no_panic (C10_builtin_unconditional b arg h1 h2 h3)

/-- wrong arity or wrong argument types give an error, never a value: e.g. every math function on a non-number -/
theorem C10_math_type_error (arg : Value) (h : num? arg = none) :
    ∃ e, Builtin.call .sin arg = .error e ∧ e.isPanic = false := by
  have := C10_sin arg
  have hr : refBuiltin .sin arg = .error := by
    show math1 Float.sin arg = .error
    unfold math1; rw [h]
  rw [hr] at this
  exact this

end Evalexpr.Spec
