/-
Proofs/EvalOnce.lean — the counting form of property C08: every user-function application site of
a tree is executed exactly once, in post-order, on a successful evaluation; on a failing one the
calls made are a prefix of that list; evaluation never changes the set of user functions; every
node's operator is applied exactly once on success.

The two evaluators (`Node.evalMut`, `Node.evalRO`) differ only in the function applied at a node,
so the tree-level induction is done once, for the evaluator `evalG ap` parameterised by that
function, and instantiated twice.
-/
import EvalexprVerif.Spec.Once
import EvalexprVerif.Proofs.EvalOrder

namespace Evalexpr.Spec
open Evalexpr

/-! ### the evaluator, parameterised by the operator application -/

mutual
def evalG (ap : Operator → List Value → St → Res Value × St) : Node → St → Res Value × St
  | ⟨op, cs⟩, s =>
    match evalGList ap cs s with
    | (.error e, s) => (.error e, s)
    | (.ok args, s) => ap op args s
def evalGList (ap : Operator → List Value → St → Res Value × St) :
    List Node → St → Res (List Value) × St
  | [], s => (.ok [], s)
  | c :: cs, s =>
    match evalG ap c s with
    | (.error e, s) => (.error e, s)
    | (.ok v, s) =>
      match evalGList ap cs s with
      | (.error e, s) => (.error e, s)
      | (.ok vs, s) => (.ok (v :: vs), s)
end

section
variable (ap : Operator → List Value → St → Res Value × St)

theorem evalG_mk (op : Operator) (cs : List Node) (s : St) :
    evalG ap (Node.mk op cs) s =
      match evalGList ap cs s with
      | (.error e, s) => (.error e, s)
      | (.ok args, s) => ap op args s := by
  rw [evalG]

theorem evalGList_nil (s : St) : evalGList ap [] s = (.ok [], s) := by
  rw [evalGList]

theorem evalGList_cons (c : Node) (cs : List Node) (s : St) :
    evalGList ap (c :: cs) s =
      match evalG ap c s with
      | (.error e, s) => (.error e, s)
      | (.ok v, s) =>
        match evalGList ap cs s with
        | (.error e, s) => (.error e, s)
        | (.ok vs, s) => (.ok (v :: vs), s) := by
  rw [evalGList]
end

mutual
theorem evalMut_eq_evalG (n : Node) (s : St) : n.evalMut s = evalG Operator.evalMut n s :=
  match n with
  | ⟨op, cs⟩ => by rw [evalMut_mk, evalG_mk, evalMutList_eq_evalGList cs s]; rfl
theorem evalMutList_eq_evalGList (cs : List Node) (s : St) :
    evalMutList cs s = evalGList Operator.evalMut cs s :=
  match cs with
  | [] => by rw [evalMutList_nil, evalGList_nil]
  | c :: cs => by
    rw [evalMutList_cons, evalGList_cons, evalMut_eq_evalG c s]
    rcases evalG Operator.evalMut c s with ⟨r, s₁⟩
    cases r with
    | error e => rfl
    | ok v => simp only; rw [evalMutList_eq_evalGList cs s₁]; rfl
end

mutual
theorem evalRO_eq_evalG (n : Node) (s : St) : n.evalRO s = evalG Operator.eval n s :=
  match n with
  | ⟨op, cs⟩ => by rw [evalRO_mk, evalG_mk, evalROList_eq_evalGList cs s]; rfl
theorem evalROList_eq_evalGList (cs : List Node) (s : St) :
    evalROList cs s = evalGList Operator.eval cs s :=
  match cs with
  | [] => by rw [evalROList_nil, evalGList_nil]
  | c :: cs => by
    rw [evalROList_cons, evalGList_cons, evalRO_eq_evalG c s]
    rcases evalG Operator.eval c s with ⟨r, s₁⟩
    cases r with
    | error e => rfl
    | ok v => simp only; rw [evalROList_eq_evalGList cs s₁]; rfl
end

/-! ### unfolding lemmas for the definitions of Spec/Once -/

theorem callSites_mk (c : Ctx) (op : Operator) (cs : List Node) :
    callSites c ⟨op, cs⟩ = callSitesList c cs ++ opSite c op := by
  rw [callSites]
theorem callSitesList_nil (c : Ctx) : callSitesList c [] = [] := by
  rw [callSitesList]
theorem callSitesList_cons (c : Ctx) (n : Node) (ns : List Node) :
    callSitesList c (n :: ns) = callSites c n ++ callSitesList c ns := by
  rw [callSitesList]

theorem fnCalls_mk (c : Ctx) (op : Operator) (cs : List Node) :
    fnCalls c ⟨op, cs⟩ = fnCallsList c cs + (opSite c op).length := by
  rw [fnCalls]
theorem fnCallsList_nil (c : Ctx) : fnCallsList c [] = 0 := by
  rw [fnCallsList]
theorem fnCallsList_cons (c : Ctx) (n : Node) (ns : List Node) :
    fnCallsList c (n :: ns) = fnCalls c n + fnCallsList c ns := by
  rw [fnCallsList]

theorem nodeSize_mk (op : Operator) (cs : List Node) : nodeSize ⟨op, cs⟩ = nodeSizeList cs + 1 := by
  rw [nodeSize]
theorem nodeSizeList_nil : nodeSizeList [] = 0 := by
  rw [nodeSizeList]
theorem nodeSizeList_cons (n : Node) (ns : List Node) :
    nodeSizeList (n :: ns) = nodeSize n + nodeSizeList ns := by
  rw [nodeSizeList]

mutual
/-- `fnCalls` is the length of `callSites` -/
theorem fnCalls_eq_length (c : Ctx) (n : Node) : fnCalls c n = (callSites c n).length :=
  match n with
  | ⟨op, cs⟩ => by
    rw [fnCalls_mk, callSites_mk, List.length_append, fnCallsList_eq_length c cs]
theorem fnCallsList_eq_length (c : Ctx) (cs : List Node) :
    fnCallsList c cs = (callSitesList c cs).length :=
  match cs with
  | [] => by rw [fnCallsList_nil, callSitesList_nil]; rfl
  | n :: ns => by
    rw [fnCallsList_cons, callSitesList_cons, List.length_append, fnCalls_eq_length c n,
      fnCallsList_eq_length c ns]
end

/-! ### 1. evaluation never changes the set of user functions -/

/-- `s'` has the same user functions and the same builtin switch as `s` -/
def SameFns (s s' : St) : Prop :=
  (∀ id, s'.ctx.userFn id = s.ctx.userFn id) ∧ s'.ctx.builtinsDisabled = s.ctx.builtinsDisabled

theorem SameFns.refl (s : St) : SameFns s s := ⟨fun _ => rfl, rfl⟩

theorem SameFns.trans {a b c : St} (h₁ : SameFns a b) (h₂ : SameFns b c) : SameFns a c :=
  ⟨fun id => (h₂.1 id).trans (h₁.1 id), h₂.2.trans h₁.2⟩

theorem SameFns.of_ctx_eq {s s' : St} (h : s'.ctx = s.ctx) : SameFns s s' := by
  unfold SameFns; rw [h]; exact ⟨fun _ => rfl, rfl⟩

/-- `set_value` binds a variable; it cannot define or remove a function, nor flip the switch -/
theorem setValue_fns (c c' : Ctx) (id : Str) (v : Value) (h : c.setValue id v = .ok c') :
    (∀ i, c'.userFn i = c.userFn i) ∧ c'.builtinsDisabled = c.builtinsDisabled := by
  cases c with
  | hashMap hm =>
    simp only [Ctx.setValue] at h
    unfold HashMapCtx.setValue at h
    split at h
    · split at h
      · simp only [Except.map, Except.ok.injEq] at h
        subst h
        exact ⟨fun _ => rfl, rfl⟩
      · simp [Except.map] at h
    · simp only [Except.map, Except.ok.injEq] at h
      subst h
      exact ⟨fun _ => rfl, rfl⟩
  | empty => simp [Ctx.setValue] at h
  | emptyWithBuiltins => simp [Ctx.setValue] at h
  | noStorage hm => simp [Ctx.setValue] at h

theorem eval_op_sameFns (op : Operator) (args : List Value) (s : St) :
    SameFns s (op.eval args s).2 :=
  SameFns.of_ctx_eq (eval_ctx op args s)

theorem evalMut_op_sameFns (op : Operator) (args : List Value) (s : St) :
    SameFns s (op.evalMut args s).2 := by
  cases hk : Operator.isAssignKind op with
  | false => rw [evalMut_of_not_assign op args s hk]; exact eval_op_sameFns op args s
  | true =>
    rcases evalMut_assign_shape op args s hk with ⟨e, h⟩ | ⟨id, v, c, hc, h⟩
    · rw [h]; exact SameFns.refl s
    · rw [h]; exact setValue_fns _ _ _ _ hc

theorem evalMut_sameFns (n : Node) (s : St) : SameFns s (n.evalMut s).2 :=
  evalMut_rel SameFns SameFns.refl (fun _ _ _ h₁ h₂ => h₁.trans h₂) evalMut_op_sameFns n s

theorem evalRO_sameFns (n : Node) (s : St) : SameFns s (n.evalRO s).2 :=
  evalRO_rel SameFns SameFns.refl (fun _ _ _ h₁ h₂ => h₁.trans h₂) eval_op_sameFns n s

/-- mutable evaluation never changes which user functions the context has -/
theorem userFns_preserved (n : Node) (s : St) :
    ∀ id, (n.evalMut s).2.ctx.userFn id = s.ctx.userFn id := (evalMut_sameFns n s).1
theorem userFns_preserved_RO (n : Node) (s : St) :
    ∀ id, (n.evalRO s).2.ctx.userFn id = s.ctx.userFn id := (evalRO_sameFns n s).1
theorem builtinsDisabled_preserved (n : Node) (s : St) :
    (n.evalMut s).2.ctx.builtinsDisabled = s.ctx.builtinsDisabled := (evalMut_sameFns n s).2
theorem builtinsDisabled_preserved_RO (n : Node) (s : St) :
    (n.evalRO s).2.ctx.builtinsDisabled = s.ctx.builtinsDisabled := (evalRO_sameFns n s).2

/-! ### the application sites depend on the context only through its user functions -/

theorem opSite_congr (c c' : Ctx) (h : ∀ id, c'.userFn id = c.userFn id) (op : Operator) :
    opSite c' op = opSite c op := by
  cases op with
  | fn id => simp only [opSite, h id]
  | _ => rfl

mutual
theorem callSites_congr (c c' : Ctx) (h : ∀ id, c'.userFn id = c.userFn id) (n : Node) :
    callSites c' n = callSites c n :=
  match n with
  | ⟨op, cs⟩ => by
    rw [callSites_mk, callSites_mk, callSitesList_congr c c' h cs, opSite_congr c c' h op]
theorem callSitesList_congr (c c' : Ctx) (h : ∀ id, c'.userFn id = c.userFn id)
    (cs : List Node) : callSitesList c' cs = callSitesList c cs :=
  match cs with
  | [] => by rw [callSitesList_nil, callSitesList_nil]
  | n :: ns => by
    rw [callSitesList_cons, callSitesList_cons, callSites_congr c c' h n,
      callSitesList_congr c c' h ns]
end

/-! ### the invariant: which calls a piece of evaluation makes -/

def resOk {α : Type} : Res α → Bool
  | .ok _ => true
  | .error _ => false

/-- Going from `s` to `s'` kept the user functions and appended to the log calls whose names `p`
are a prefix of `sites`, all of `sites` if the step succeeded. -/
def Once (sites : List Str) (s : St) (ok : Bool) (s' : St) : Prop :=
  SameFns s s' ∧
    ∃ p, logNames s'.log = logNames s.log ++ p ∧ p <+: sites ∧ (ok = true → p = sites)

/-- no call made, none due -/
theorem Once.stay (s : St) (ok : Bool) : Once [] s ok s :=
  ⟨SameFns.refl s, [], by simp, List.prefix_refl _, fun _ => rfl⟩

/-- no call made, failure -/
theorem Once.fail (sites : List Str) (s : St) : Once sites s false s :=
  ⟨SameFns.refl s, [], by simp, List.nil_prefix, fun h => by cases h⟩

/-- a failing first part is a failing whole -/
theorem Once.fail_left {a : List Str} (b : List Str) {s s₁ : St} (h : Once a s false s₁) :
    Once (a ++ b) s false s₁ := by
  rcases h with ⟨hf, p, hp, hpre, _⟩
  exact ⟨hf, p, hp, hpre.trans (List.prefix_append a b), fun h => by cases h⟩

/-- a successful first part followed by a second part -/
theorem Once.seq {a b : List Str} {s s₁ s₂ : St} {ok : Bool} (h₁ : Once a s true s₁)
    (h₂ : Once b s₁ ok s₂) : Once (a ++ b) s ok s₂ := by
  rcases h₁ with ⟨hf₁, p₁, hp₁, _, hall₁⟩
  rcases h₂ with ⟨hf₂, p₂, hp₂, hpre₂, hall₂⟩
  have e₁ : p₁ = a := hall₁ rfl
  subst e₁
  refine ⟨hf₁.trans hf₂, p₁ ++ p₂, ?_, ?_, ?_⟩
  · rw [hp₂, hp₁, List.append_assoc]
  · exact (List.prefix_append_right_inj p₁).mpr hpre₂
  · intro h; rw [hall₂ h]

/-! ### operator level -/

/-- `callFunction` appends exactly one entry to the log if the context defines the function —
whatever the function answers, including the `FunctionIdentifierNotFound` that sends the
evaluator on to the builtin (finding K2) — and leaves the state alone otherwise -/
theorem callFunction_snd (id : Str) (arg : Value) (s : St) :
    (callFunction id arg s).2 =
      match s.ctx.userFn id with
      | some _ => { s with log := s.log ++ [(id, arg)] }
      | none => s := by
  unfold callFunction
  cases s.ctx.userFn id with
  | none =>
    simp only
    split <;> first | rfl | (split <;> rfl)
  | some f =>
    simp only
    cases f arg with
    | ok v => rfl
    | error e =>
      cases e <;> first | rfl | (simp only; split <;> first | rfl | (split <;> rfl))

theorem callFunction_once (id : Str) (arg : Value) (s : St) :
    Once (opSite s.ctx (.fn id)) s (resOk (callFunction id arg s).1) (callFunction id arg s).2 := by
  rw [callFunction_snd]
  cases h : s.ctx.userFn id with
  | none =>
    simp only [opSite, h, Option.isSome_none, Bool.false_eq_true, if_false]
    exact Once.stay s _
  | some f =>
    simp only [opSite, h, Option.isSome_some, if_true]
    exact ⟨SameFns.refl s, [id], by simp [logNames], List.prefix_refl _, fun _ => rfl⟩

theorem eval_snd_of_not_fn (op : Operator) (args : List Value) (s : St)
    (h : ∀ id, op ≠ .fn id) : (op.eval args s).2 = s := by
  cases op with
  | fn id => exact absurd rfl (h id)
  | varRead id =>
    simp only [Operator.eval]
    split
    · split <;> rfl
    · rfl
  | _ => rfl

theorem opSite_of_not_fn (c : Ctx) (op : Operator) (h : ∀ id, op ≠ .fn id) : opSite c op = [] := by
  cases op with
  | fn id => exact absurd rfl (h id)
  | _ => rfl

/-- one application of `Operator.eval` makes exactly the call its operator is a site of -/
theorem eval_op_once (op : Operator) (args : List Value) (s : St) :
    Once (opSite s.ctx op) s (resOk (op.eval args s).1) (op.eval args s).2 := by
  by_cases hfn : ∃ id, op = .fn id
  · rcases hfn with ⟨id, rfl⟩
    simp only [Operator.eval]
    split
    · exact callFunction_once id _ s
    · exact Once.fail _ s
  · have h : ∀ id, op ≠ .fn id := fun id he => hfn ⟨id, he⟩
    rw [eval_snd_of_not_fn op args s h, opSite_of_not_fn s.ctx op h]
    exact Once.stay s _

theorem opSite_of_assign (c : Ctx) (op : Operator) (h : Operator.isAssignKind op = true) :
    opSite c op = [] := by
  cases op <;> first | rfl | (simp [Operator.isAssignKind] at h)

/-- the same for `Operator.evalMut`: an assignment calls nothing (the operator an op-assign applies
is never a function) -/
theorem evalMut_op_once (op : Operator) (args : List Value) (s : St) :
    Once (opSite s.ctx op) s (resOk (op.evalMut args s).1) (op.evalMut args s).2 := by
  cases hk : Operator.isAssignKind op with
  | false => rw [evalMut_of_not_assign op args s hk]; exact eval_op_once op args s
  | true =>
    rw [opSite_of_assign s.ctx op hk]
    rcases evalMut_assign_shape op args s hk with ⟨e, h⟩ | ⟨id, v, c, hc, h⟩
    · rw [h]; exact Once.stay s _
    · rw [h]
      exact ⟨setValue_fns _ _ _ _ hc, [], by simp, List.prefix_refl _, fun _ => rfl⟩

/-! ### tree level -/

mutual
theorem evalG_once (ap : Operator → List Value → St → Res Value × St)
    (hap : ∀ op args s, Once (opSite s.ctx op) s (resOk (ap op args s).1) (ap op args s).2)
    (n : Node) (s : St) :
    Once (callSites s.ctx n) s (resOk (evalG ap n s).1) (evalG ap n s).2 :=
  match n with
  | ⟨op, cs⟩ => by
    have ih := evalGList_once ap hap cs s
    rw [evalG_mk, callSites_mk]
    rcases h : evalGList ap cs s with ⟨r, s'⟩
    rw [h] at ih
    cases r with
    | error e => exact Once.fail_left _ ih
    | ok args =>
      have hop := hap op args s'
      rw [opSite_congr s.ctx s'.ctx ih.1.1 op] at hop
      exact Once.seq ih hop
theorem evalGList_once (ap : Operator → List Value → St → Res Value × St)
    (hap : ∀ op args s, Once (opSite s.ctx op) s (resOk (ap op args s).1) (ap op args s).2)
    (cs : List Node) (s : St) :
    Once (callSitesList s.ctx cs) s (resOk (evalGList ap cs s).1) (evalGList ap cs s).2 :=
  match cs with
  | [] => by rw [evalGList_nil, callSitesList_nil]; exact Once.stay s _
  | c :: cs => by
    have ih := evalG_once ap hap c s
    rw [evalGList_cons, callSitesList_cons]
    rcases h : evalG ap c s with ⟨r, s₁⟩
    rw [h] at ih
    cases r with
    | error e => exact Once.fail_left _ ih
    | ok v =>
      have ih2 := evalGList_once ap hap cs s₁
      rw [callSitesList_congr s.ctx s₁.ctx ih.1.1 cs] at ih2
      rcases h2 : evalGList ap cs s₁ with ⟨r2, s₂⟩
      rw [h2] at ih2
      simp only [h2]
      cases r2 with
      | error e => exact Once.seq ih ih2
      | ok vs => exact Once.seq ih ih2
end

theorem evalMut_once (n : Node) (s : St) :
    Once (callSites s.ctx n) s (resOk (n.evalMut s).1) (n.evalMut s).2 := by
  rw [evalMut_eq_evalG]; exact evalG_once _ evalMut_op_once n s

theorem evalRO_once (n : Node) (s : St) :
    Once (callSites s.ctx n) s (resOk (n.evalRO s).1) (n.evalRO s).2 := by
  rw [evalRO_eq_evalG]; exact evalG_once _ eval_op_once n s

/-! ### 3. order: on success the calls are exactly the application sites, in post-order -/

theorem C08_once_order (n : Node) (s s' : St) (v : Value) (h : n.evalMut s = (.ok v, s')) :
    s'.log.map (·.1) = s.log.map (·.1) ++ callSites s.ctx n := by
  have := evalMut_once n s
  rw [h] at this
  rcases this with ⟨_, p, hp, _, hall⟩
  rw [hall rfl] at hp
  exact hp

theorem C08_once_order_RO (n : Node) (s s' : St) (v : Value) (h : n.evalRO s = (.ok v, s')) :
    s'.log.map (·.1) = s.log.map (·.1) ++ callSites s.ctx n := by
  have := evalRO_once n s
  rw [h] at this
  rcases this with ⟨_, p, hp, _, hall⟩
  rw [hall rfl] at hp
  exact hp

/-! ### 2. count: every application site is executed exactly once -/

theorem C08_once_count (n : Node) (s s' : St) (v : Value) (h : n.evalMut s = (.ok v, s')) :
    s'.log.length = s.log.length + fnCalls s.ctx n := by
  have := congrArg List.length (C08_once_order n s s' v h)
  rw [List.length_append, List.length_map, List.length_map] at this
  rw [this, fnCalls_eq_length]

theorem C08_once_count_RO (n : Node) (s s' : St) (v : Value) (h : n.evalRO s = (.ok v, s')) :
    s'.log.length = s.log.length + fnCalls s.ctx n := by
  have := congrArg List.length (C08_once_order_RO n s s' v h)
  rw [List.length_append, List.length_map, List.length_map] at this
  rw [this, fnCalls_eq_length]

/-! ### 4. failure: the calls made are a prefix of the application sites -/

/-- whatever the result -/
theorem C08_once_prefix_any (n : Node) (s : St) :
    ∃ p, p <+: callSites s.ctx n ∧
      (n.evalMut s).2.log.map (·.1) = s.log.map (·.1) ++ p := by
  rcases evalMut_once n s with ⟨_, p, hp, hpre, _⟩
  exact ⟨p, hpre, hp⟩

theorem C08_once_prefix (n : Node) (s s' : St) (e : Err) (h : n.evalMut s = (.error e, s')) :
    ∃ p, p <+: callSites s.ctx n ∧ s'.log.map (·.1) = s.log.map (·.1) ++ p := by
  have := C08_once_prefix_any n s
  rw [h] at this
  exact this

theorem C08_once_prefix_RO (n : Node) (s s' : St) (e : Err) (h : n.evalRO s = (.error e, s')) :
    ∃ p, p <+: callSites s.ctx n ∧ s'.log.map (·.1) = s.log.map (·.1) ++ p := by
  rcases evalRO_once n s with ⟨_, p, hp, hpre, _⟩
  rw [h] at hp
  exact ⟨p, hpre, hp⟩

/-- at most once, always: the number of calls never exceeds the number of application sites -/
theorem C08_at_most_once (n : Node) (s : St) :
    (n.evalMut s).2.log.length ≤ s.log.length + fnCalls s.ctx n := by
  rcases C08_once_prefix_any n s with ⟨p, hpre, hp⟩
  have := congrArg List.length hp
  rw [List.length_append, List.length_map, List.length_map] at this
  rw [this, fnCalls_eq_length]
  exact Nat.add_le_add_left hpre.length_le _

/-! ### 5. operator applications: each node's operator is applied exactly once -/

theorem evalMutCount_mk (op : Operator) (cs : List Node) (s : St) :
    evalMutCount ⟨op, cs⟩ s =
      match evalMutCountList cs s with
      | (.error e, s, k) => (.error e, s, k)
      | (.ok args, s, k) => ((op.evalMut args s).1, (op.evalMut args s).2, k + 1) := by
  rw [evalMutCount]; rfl

theorem evalMutCountList_nil (s : St) : evalMutCountList [] s = (.ok [], s, 0) := by
  rw [evalMutCountList]

theorem evalMutCountList_cons (c : Node) (cs : List Node) (s : St) :
    evalMutCountList (c :: cs) s =
      match evalMutCount c s with
      | (.error e, s, k) => (.error e, s, k)
      | (.ok v, s, k) =>
        match evalMutCountList cs s with
        | (.error e, s, k') => (.error e, s, k + k')
        | (.ok vs, s, k') => (.ok (v :: vs), s, k + k') := by
  rw [evalMutCountList]; rfl

/-- what the instrumented evaluator guarantees: result and state are those of the evaluator, the
counter is at most `size`, and equal to it on success -/
def Counted {α : Type} (size : Nat) (p : Res α × St × Nat) (q : Res α × St) : Prop :=
  (p.1, p.2.1) = q ∧ p.2.2 ≤ size ∧ (resOk q.1 = true → p.2.2 = size)

mutual
theorem evalMutCount_counted (n : Node) (s : St) :
    Counted (nodeSize n) (evalMutCount n s) (n.evalMut s) :=
  match n with
  | ⟨op, cs⟩ => by
    have ih := evalMutCountList_counted cs s
    rw [evalMutCount_mk, evalMut_mk, nodeSize_mk]
    rcases hc : evalMutCountList cs s with ⟨r, s', k⟩
    rw [hc] at ih
    rcases ih with ⟨h₁, h₂, h₃⟩
    simp only at h₁ h₂ h₃
    rw [← h₁] at h₃ ⊢
    cases r with
    | error e => exact ⟨rfl, Nat.le_succ_of_le h₂, fun h => by cases h⟩
    | ok args =>
      have hk : k = nodeSizeList cs := h₃ rfl
      exact ⟨rfl, by simp only [hk]; exact Nat.le_refl _, fun _ => by simp only [hk]⟩
theorem evalMutCountList_counted (cs : List Node) (s : St) :
    Counted (nodeSizeList cs) (evalMutCountList cs s) (evalMutList cs s) :=
  match cs with
  | [] => by
    rw [evalMutCountList_nil, evalMutList_nil, nodeSizeList_nil]
    exact ⟨rfl, Nat.le_refl _, fun _ => rfl⟩
  | c :: cs => by
    have ih := evalMutCount_counted c s
    rw [evalMutCountList_cons, evalMutList_cons, nodeSizeList_cons]
    rcases hc : evalMutCount c s with ⟨r, s₁, k⟩
    rw [hc] at ih
    rcases ih with ⟨h₁, h₂, h₃⟩
    simp only at h₁ h₂ h₃
    rw [← h₁] at h₃ ⊢
    cases r with
    | error e => exact ⟨rfl, Nat.le_trans h₂ (Nat.le_add_right _ _), fun h => by cases h⟩
    | ok v =>
      have hk : k = nodeSize c := h₃ rfl
      have ih2 := evalMutCountList_counted cs s₁
      rcases hc2 : evalMutCountList cs s₁ with ⟨r2, s₂, k'⟩
      rw [hc2] at ih2
      rcases ih2 with ⟨g₁, g₂, g₃⟩
      simp only at g₁ g₂ g₃
      simp only [hc2]
      rw [← g₁] at g₃ ⊢
      cases r2 with
      | error e =>
        exact ⟨rfl, by simp only [hk]; exact Nat.add_le_add_left g₂ _, fun h => by cases h⟩
      | ok vs =>
        have hk' : k' = nodeSizeList cs := g₃ rfl
        exact ⟨rfl, by simp only [hk, hk']; exact Nat.le_refl _, fun _ => by simp only [hk, hk']⟩
end

/-- the instrumentation does not change the evaluator -/
theorem evalMutCount_result (n : Node) (s : St) :
    ((evalMutCount n s).1, (evalMutCount n s).2.1) = n.evalMut s :=
  (evalMutCount_counted n s).1

/-- on success `Operator.evalMut` was invoked once per node -/
theorem C08_ops_once (n : Node) (s s' : St) (v : Value) (h : n.evalMut s = (.ok v, s')) :
    (evalMutCount n s).2.2 = nodeSize n := by
  have := (evalMutCount_counted n s).2.2
  rw [h] at this
  exact this rfl

/-- and never more often than that -/
theorem C08_ops_at_most_once (n : Node) (s : St) : (evalMutCount n s).2.2 ≤ nodeSize n :=
  (evalMutCount_counted n s).2.1

end Evalexpr.Spec
