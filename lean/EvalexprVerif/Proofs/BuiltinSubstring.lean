/-
Proofs/BuiltinSubstring.lean — property C10, part 2: `str::substring`. The model slices by byte
offsets (`sliceBytes`), the reference selects the characters whose byte offset lies in
`[start, end)` when both are character boundaries (`substringRef`).
-/
import EvalexprVerif.Proofs.BuiltinBasic
namespace Evalexpr.Spec
open Evalexpr

/-- the characters of `s` (laid out from byte offset `n`) whose offset lies in `[a, b)` -/
def sliceRef (s : Str) (n a b : Nat) : Str :=
  ((s.zip (byteOffsets s n)).filter (fun p => decide (a ≤ p.2) && decide (p.2 < b))).map (·.1)

theorem sliceRef_nil (n a b : Nat) : sliceRef [] n a b = [] := rfl

theorem sliceRef_cons (c : Char) (cs : Str) (n a b : Nat) :
    sliceRef (c :: cs) n a b =
      if a ≤ n ∧ n < b then c :: sliceRef cs (n + c.utf8Size) a b else sliceRef cs (n + c.utf8Size) a b := by
  by_cases h : a ≤ n ∧ n < b
  · simp [sliceRef, byteOffsets, h]
  · simp only [sliceRef, byteOffsets, List.zip_cons_cons, List.filter_cons, if_neg h]
    have : (decide (a ≤ n) && decide (n < b)) = false := by
      simp only [Bool.and_eq_false_iff, decide_eq_false_iff_not]; omega
    simp [this]

theorem mem_byteOffsets_bounds : ∀ (s : Str) (n o : Nat), o ∈ byteOffsets s n → n ≤ o ∧ o ≤ n + utf8Len s
  | [], n, o, h => by simp [byteOffsets] at h; simp [h, utf8Len]
  | c :: cs, n, o, h => by
    simp only [byteOffsets, List.mem_cons] at h
    rw [utf8Len_cons]
    rcases h with h | h
    · omega
    · have := mem_byteOffsets_bounds cs _ _ h; omega

theorem head_mem_byteOffsets (s : Str) (n : Nat) : n ∈ byteOffsets s n := by
  cases s <;> simp [byteOffsets]

theorem sliceRef_below (s : Str) (n a b : Nat) (h : b ≤ n) : sliceRef s n a b = [] := by
  induction s generalizing n with
  | nil => rfl
  | cons c cs ih =>
    rw [sliceRef_cons, if_neg (by omega), ih _ (by omega)]

theorem mem_byteOffsets_cons (c : Char) (cs : Str) (n o : Nat) (h : n < o) :
    o ∈ byteOffsets (c :: cs) n ↔ o ∈ byteOffsets cs (n + c.utf8Size) := by
  simp only [byteOffsets, List.mem_cons]; constructor
  · rintro (h | h); omega; exact h
  · exact Or.inr

theorem takeBytes_spec : ∀ (s : Str) (n a e : Nat), a ≤ n →
    sliceBytes.takeBytes s e =
      if n + e ∈ byteOffsets s n then some (sliceRef s n a (n + e)) else none
  | s, n, a, 0, _ => by
    have := head_mem_byteOffsets s n
    cases s <;> simp [sliceBytes.takeBytes, this, sliceRef_below]
  | [], n, a, e + 1, _ => by
    simp [sliceBytes.takeBytes, byteOffsets]
  | c :: cs, n, a, e + 1, ha => by
    have hpos := Char.utf8Size_pos c
    simp only [sliceBytes.takeBytes]
    by_cases hc : c.utf8Size ≤ e + 1
    · rw [if_pos hc, takeBytes_spec cs (n + c.utf8Size) a (e + 1 - c.utf8Size) (by omega)]
      have e1 : n + c.utf8Size + (e + 1 - c.utf8Size) = n + (e + 1) := by omega
      rw [e1]
      have hm := mem_byteOffsets_cons c cs n (n + (e + 1)) (by omega)
      by_cases hmem : n + (e + 1) ∈ byteOffsets cs (n + c.utf8Size)
      · rw [if_pos hmem, if_pos (hm.2 hmem), sliceRef_cons, if_pos (by omega)]
        rfl
      · rw [if_neg hmem, if_neg (fun h => hmem (hm.1 h))]; rfl
    · rw [if_neg hc, if_neg]
      simp only [byteOffsets, List.mem_cons]
      rintro (h | h)
      · omega
      · have := mem_byteOffsets_bounds _ _ _ h; omega

theorem sliceBytes_spec : ∀ (s : Str) (n st e : Nat), st ≤ e →
    sliceBytes s st e =
      if n + st ∈ byteOffsets s n ∧ n + e ∈ byteOffsets s n then some (sliceRef s n (n + st) (n + e)) else none
  | s, n, 0, e, _ => by
    have := head_mem_byteOffsets s n
    have h2 := takeBytes_spec s n n e (Nat.le_refl _)
    cases s <;> simpa [sliceBytes, this] using h2
  | [], n, st + 1, e, _ => by
    simp [sliceBytes, byteOffsets]
  | c :: cs, n, st + 1, e, hle => by
    have hpos := Char.utf8Size_pos c
    simp only [sliceBytes]
    by_cases hc : c.utf8Size ≤ st + 1
    · rw [if_pos ⟨hc, by omega⟩, sliceBytes_spec cs (n + c.utf8Size) (st + 1 - c.utf8Size) (e - c.utf8Size) (by omega)]
      have e1 : n + c.utf8Size + (st + 1 - c.utf8Size) = n + (st + 1) := by omega
      have e2 : n + c.utf8Size + (e - c.utf8Size) = n + e := by omega
      rw [e1, e2, sliceRef_cons, if_neg (show ¬ (n + (st + 1) ≤ n ∧ n < n + e) by omega)]
      simp only [mem_byteOffsets_cons c cs n (n + (st + 1)) (by omega),
        mem_byteOffsets_cons c cs n (n + e) (by omega)]
    · rw [if_neg (by omega), if_neg]
      rintro ⟨h, -⟩
      simp only [byteOffsets, List.mem_cons] at h
      rcases h with h | h
      · omega
      · have := mem_byteOffsets_bounds _ _ _ h; omega


theorem substringRef_eq (s : Str) (st e : Nat) :
    substringRef s st e =
      if st ≤ e ∧ st ∈ byteOffsets s 0 ∧ e ∈ byteOffsets s 0 then .value (.string (sliceRef s 0 st e))
      else .error := by
  simp only [substringRef, sliceRef, Bool.and_eq_true, decide_eq_true_eq, List.contains_iff_mem, and_assoc]

/-- the part of `substring` after argument decoding -/
def substringCore (s : Str) (st e : Nat) : Res Value :=
  if st > e || e > utf8Len s then .error .outOfBoundsAccess
  else match sliceBytes s st e with
    | some r => .ok (.string r)
    | none => .error .outOfBoundsAccess

theorem substringCore_meets (s : Str) (st e : Nat) : MeetsB (substringCore s st e) (substringRef s st e) := by
  rw [substringRef_eq, substringCore]
  by_cases hle : st ≤ e
  · by_cases hlen : e ≤ utf8Len s
    · have h1 : (decide (st > e) || decide (e > utf8Len s)) = false := by
        simp only [Bool.or_eq_false_iff, decide_eq_false_iff_not]; omega
      rw [h1, sliceBytes_spec s 0 st e hle]
      simp only [Nat.zero_add, Bool.false_eq_true, if_false]
      by_cases hm : st ∈ byteOffsets s 0 ∧ e ∈ byteOffsets s 0
      · rw [if_pos hm, if_pos ⟨hle, hm⟩]; rfl
      · rw [if_neg hm, if_neg (fun h => hm h.2)]; exact ⟨_, rfl, rfl⟩
    · have h1 : (decide (st > e) || decide (e > utf8Len s)) = true := by
        simp only [Bool.or_eq_true, decide_eq_true_eq]; omega
      rw [h1, if_pos rfl, if_neg]
      · exact ⟨_, rfl, rfl⟩
      · rintro ⟨-, -, h⟩
        have := mem_byteOffsets_bounds _ _ _ h; omega
  · have h1 : (decide (st > e) || decide (e > utf8Len s)) = true := by
      simp only [Bool.or_eq_true, decide_eq_true_eq]; omega
    rw [h1, if_pos rfl, if_neg (fun h => hle h.1)]
    exact ⟨_, rfl, rfl⟩


theorem intIntoUsize_neg (a : Int64) (h : a.toInt < 0) : intIntoUsize a = .error (.intIntoUsize a) := by
  simp [intIntoUsize]; omega
theorem intIntoUsize_nonneg (a : Int64) (h : ¬ a.toInt < 0) : intIntoUsize a = .ok a.toInt.toNat := by
  simp [intIntoUsize]; omega

theorem substring_two (s : Str) (a : Int64) :
    substring (.tuple [.string s, .int a]) =
      if a.toInt < 0 then .error .outOfBoundsAccess else substringCore s a.toInt.toNat (utf8Len s) := by
  by_cases h : a.toInt < 0
  · simp [substring, Value.asRangedLenTuple, Value.asString, Value.asInt, intIntoUsize_neg a h, h]
  · simp [substring, Value.asRangedLenTuple, Value.asString, Value.asInt, intIntoUsize_nonneg a h, h, substringCore]
    split <;> rfl

theorem substring_three (s : Str) (a b : Int64) :
    substring (.tuple [.string s, .int a, .int b]) =
      if a.toInt < 0 || b.toInt < 0 then .error .outOfBoundsAccess
      else substringCore s a.toInt.toNat b.toInt.toNat := by
  by_cases h : a.toInt < 0
  · simp [substring, Value.asRangedLenTuple, Value.asString, Value.asInt, intIntoUsize_neg a h, h]
  · by_cases h' : b.toInt < 0
    · simp [substring, Value.asRangedLenTuple, Value.asString, Value.asInt, intIntoUsize_nonneg a h,
        intIntoUsize_neg b h', h, h']
    · simp [substring, Value.asRangedLenTuple, Value.asString, Value.asInt, intIntoUsize_nonneg a h,
        intIntoUsize_nonneg b h', h, h', substringCore]
      split <;> rfl

theorem C10_strSubstring (arg : Value) :
    MeetsB (Builtin.call .strSubstring arg) (refBuiltin .strSubstring arg) := by
  have hc : Builtin.call .strSubstring arg = substring arg := rfl
  rw [hc]
  cases arg with
  | tuple t =>
    match t with
    | [] => simp [substring, refBuiltin, Value.asRangedLenTuple, MeetsB, Err.isPanic]
    | [x] => simp [substring, refBuiltin, Value.asRangedLenTuple, MeetsB, Err.isPanic]
    | [x, y] =>
      cases x with
      | string s =>
        cases y with
        | int a =>
          rw [substring_two]
          simp only [refBuiltin, len_ref_eq]
          by_cases h : a.toInt < 0
          · rw [if_pos h, if_pos h]; exact ⟨_, rfl, rfl⟩
          · rw [if_neg h, if_neg h]; exact substringCore_meets _ _ _
        | _ => simp [substring, refBuiltin, Value.asRangedLenTuple, Value.asString, Value.asInt, MeetsB, Err.isPanic]
      | _ => simp [substring, refBuiltin, Value.asRangedLenTuple, Value.asString, MeetsB, Err.isPanic]
    | [x, y, z] =>
      cases x with
      | string s =>
        cases y with
        | int a =>
          cases z with
          | int b =>
            rw [substring_three]
            simp only [refBuiltin]
            by_cases h : (decide (a.toInt < 0) || decide (b.toInt < 0)) = true
            · rw [if_pos h, if_pos h]; exact ⟨_, rfl, rfl⟩
            · rw [if_neg h, if_neg h]; exact substringCore_meets _ _ _
          | _ =>
            by_cases h : a.toInt < 0
            · simp [substring, refBuiltin, Value.asRangedLenTuple, Value.asString, Value.asInt,
                intIntoUsize_neg a h, MeetsB, Err.isPanic]
            · simp [substring, refBuiltin, Value.asRangedLenTuple, Value.asString, Value.asInt,
                intIntoUsize_nonneg a h, MeetsB, Err.isPanic]
        | _ => simp [substring, refBuiltin, Value.asRangedLenTuple, Value.asString, Value.asInt, MeetsB, Err.isPanic]
      | _ => simp [substring, refBuiltin, Value.asRangedLenTuple, Value.asString, MeetsB, Err.isPanic]
    | a :: b :: c :: d :: r =>
      simp [substring, refBuiltin, Value.asRangedLenTuple, MeetsB, Err.isPanic]
  | _ => simp [substring, refBuiltin, Value.asRangedLenTuple, MeetsB, Err.isPanic]


theorem takeBytes_len : ∀ (s : Str) (e : Nat) (t : Str), sliceBytes.takeBytes s e = some t → utf8Len t = e
  | s, 0, t, h => by
    have h' : sliceBytes.takeBytes s 0 = some [] := by cases s <;> rfl
    rw [h'] at h; injection h with h; rw [← h]; rfl
  | [], e + 1, t, h => by simp [sliceBytes.takeBytes] at h
  | c :: cs, e + 1, t, h => by
    simp only [sliceBytes.takeBytes] at h
    by_cases hc : c.utf8Size ≤ e + 1
    · rw [if_pos hc] at h
      cases h' : sliceBytes.takeBytes cs (e + 1 - c.utf8Size) with
      | none => simp [h'] at h
      | some t' =>
        have := takeBytes_len cs _ t' h'
        simp [h'] at h
        rw [← h, utf8Len_cons]; omega
    · simp [if_neg hc] at h

theorem sliceBytes_len : ∀ (s : Str) (st e : Nat) (t : Str), sliceBytes s st e = some t → st ≤ e →
    utf8Len t + st = e
  | s, 0, e, t, h, _ => by
    have : sliceBytes.takeBytes s e = some t := by cases s <;> simpa [sliceBytes] using h
    simpa using takeBytes_len s e t this
  | [], st + 1, e, t, h, _ => by simp [sliceBytes] at h
  | c :: cs, st + 1, e, t, h, hle => by
    simp only [sliceBytes] at h
    by_cases hc : c.utf8Size ≤ st + 1 ∧ c.utf8Size ≤ e
    · rw [if_pos hc] at h
      have := sliceBytes_len cs _ _ t h (by omega)
      omega
    · simp [if_neg hc] at h

theorem takeBytes_full : ∀ (s : Str), sliceBytes.takeBytes s (utf8Len s) = some s
  | [] => rfl
  | c :: cs => by
    have hpos := Char.utf8Size_pos c
    rw [utf8Len_cons]
    obtain ⟨k, hk⟩ : ∃ k, c.utf8Size + utf8Len cs = k + 1 := ⟨c.utf8Size + utf8Len cs - 1, by omega⟩
    rw [hk]
    simp only [sliceBytes.takeBytes]
    rw [if_pos (by omega)]
    have : k + 1 - c.utf8Size = utf8Len cs := by omega
    rw [this, takeBytes_full cs]; rfl

theorem C10_len_substring (s t : Str) (a b : Int64)
    (h : Builtin.call .strSubstring (.tuple [.string s, .int a, .int b]) = .ok (.string t)) :
    (utf8Len t : Int) = b.toInt - a.toInt := by
  have hc : Builtin.call .strSubstring (.tuple [.string s, .int a, .int b]) = substring (.tuple [.string s, .int a, .int b]) := rfl
  rw [hc, substring_three] at h
  by_cases hn : (decide (a.toInt < 0) || decide (b.toInt < 0)) = true
  · rw [if_pos hn] at h; cases h
  · rw [if_neg hn] at h
    simp only [Bool.or_eq_true, decide_eq_true_eq, not_or] at hn
    unfold substringCore at h
    split at h
    · cases h
    · rename_i hb
      simp only [Bool.or_eq_true, decide_eq_true_eq, not_or] at hb
      split at h
      · rename_i r hr
        have ht : r = t := by injection h with h; injection h
        have := sliceBytes_len s _ _ r hr (by omega)
        rw [← ht]; omega
      · cases h

theorem C10_substring_full (s : Str) (hs : utf8Len s < 2 ^ 63) :
    Builtin.call .strSubstring (.tuple [.string s, .int 0, .int (Int64.ofNat (utf8Len s))]) = .ok (.string s) := by
  have hc : Builtin.call .strSubstring (.tuple [.string s, .int 0, .int (Int64.ofNat (utf8Len s))]) = substring (.tuple [.string s, .int 0, .int (Int64.ofNat (utf8Len s))]) := rfl
  rw [hc, substring_three, Int64.toInt_zero, Int64.toInt_ofNat_of_lt hs]
  have hn : ¬ (decide ((0 : Int) < 0) || decide ((utf8Len s : Int) < 0)) = true := by
    simp only [Bool.or_eq_true, decide_eq_true_eq, not_or]; omega
  rw [if_neg hn]
  have h1 : (decide ((0:Int).toNat > (utf8Len s : Int).toNat) || decide ((utf8Len s : Int).toNat > utf8Len s)) = false := by
    simp only [Bool.or_eq_false_iff, decide_eq_false_iff_not]; omega
  have h2 : sliceBytes s (0:Int).toNat (utf8Len s : Int).toNat = some s := by
    have : (utf8Len s : Int).toNat = utf8Len s := by omega
    rw [this]
    have : (0:Int).toNat = 0 := rfl
    rw [this]
    have := takeBytes_full s
    cases s <;> simpa [sliceBytes] using this
  unfold substringCore
  rw [h1, h2]; rfl

end Evalexpr.Spec
