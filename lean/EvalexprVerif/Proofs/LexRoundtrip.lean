/-
Proofs/LexRoundtrip.lean — C06 / C07: printable tokens with an admissible gap assignment lex back
to themselves; the token sequence is independent of the gaps; a string literal denotes its text;
an unterminated block comment is an error.

Phase 1 (characters → partial tokens) is in `LexChars` / `LexPhase1`, the float look-ahead lemma in
`LexFloat`, the unfolding of `partialTokensToTokens` in `LexPhase2`.
-/
import EvalexprVerif.Proofs.LexPhase2

namespace Evalexpr.Spec
open Evalexpr

/-! ### what `partials rest g` starts with -/

theorem gapPartials_ne_nil (g : Gap) (h : g ≠ []) (l : List PartialToken) :
    ∃ m, gapPartials g ++ l = .whitespace :: m := by
  cases g with
  | nil => exact absurd rfl h
  | cons s g => exact ⟨gapPartials g ++ l, by simp [gapPartials, List.replicate_succ]⟩

theorem partials_cases (rest : List (Gap × PTok)) (g : Gap) :
    partials rest g = [] ∨ (∃ m, partials rest g = .whitespace :: m) ∨
    ∃ q rest', rest = ([], q) :: rest' ∧ partials rest g = ptokPartials q ++ partials rest' g := by
  cases rest with
  | nil =>
    by_cases hg : g = []
    · left; simp [partials, gapPartials, hg]
    · right; left
      obtain ⟨m, hm⟩ := gapPartials_ne_nil g hg []
      exact ⟨m, by simpa [partials] using hm⟩
  | cons r rest' =>
    obtain ⟨g1, q⟩ := r
    by_cases hg : g1 = []
    · right; right
      subst hg
      exact ⟨q, rest', rfl, by simp [partials, gapPartials]⟩
    · right; left
      obtain ⟨m, hm⟩ := gapPartials_ne_nil g1 hg (ptokPartials q ++ partials rest' g)
      exact ⟨m, by simpa [partials] using hm⟩

theorem head?_ptokPartials_eq (q : PTok) (l : List PartialToken)
    (h : (ptokPartials q ++ l).head? = some .eq) : startsWithEq q.tok = true := by
  obtain ⟨tok, text⟩ := q
  cases tok <;> simp [ptokPartials] at h <;> rfl

theorem ptokPartials_sign_literal (q : PTok) (m : List PartialToken) (a : PartialToken) (w' : Str)
    (h1 : (ptokPartials q ++ m).head? = some a)
    (h2 : (ptokPartials q ++ m).tail.head? = some (.literal w'))
    (hpm : isPlusOrMinus a = true) : isSign q.tok = true ∧ m.head? = some (.literal w') := by
  obtain ⟨tok, text⟩ := q
  cases tok <;> simp [ptokPartials] at h1 h2 <;> subst h1 <;> simp [isPlusOrMinus] at hpm <;>
    exact ⟨rfl, h2⟩

theorem display_of_isPlusOrMinus (a : PartialToken) (h : isPlusOrMinus a = true) :
    ∃ s, a.display = [s] ∧ isSignChar s = true := by
  cases a <;> simp [isPlusOrMinus] at h
  · exact ⟨'+', rfl, by decide⟩
  · exact ⟨'-', rfl, by decide⟩

theorem literal_of_display_digits (b : PartialToken) (h1 : b.display ≠ [])
    (h2 : b.display.all F64.isDigit = true) : ∃ w', b = .literal w' := by
  cases b with
  | literal w => exact ⟨w, rfl⟩
  | token t =>
    exfalso
    cases t <;>
      simp only [PartialToken.display, Token.displayInPartial, List.all_cons, List.all_nil,
        Bool.and_true, ne_eq, not_true_eq_false] at h1 h2
    case string s =>
      rw [List.cons_append, List.all_cons, Bool.and_eq_true] at h2
      exact absurd h2.1 (by decide)
    all_goals exact absurd h2 (by decide)
  | _ =>
    exfalso
    simp only [PartialToken.display, List.all_cons, List.all_nil, Bool.and_true] at h2
    exact absurd h2 (by decide)

/-! ### the side conditions of `pttt_ptok` follow from admissibility -/

theorem hEq_of_admissible (g0 : Gap) (p : PTok) (rest : List (Gap × PTok)) (g : Gap)
    (ha : Admissible ((g0, p) :: rest) g) (habs : absorbsEq p.tok = true) :
    (partials rest g).head? ≠ some .eq := by
  rcases partials_cases rest g with h | ⟨m, h⟩ | ⟨q, rest', rfl, h⟩
  · simp [h]
  · simp [h]
  · rw [h]
    intro hh
    have hs := head?_ptokPartials_eq q _ hh
    exact ha.2.1.1 (by simp [fuses, habs, hs]) rfl

theorem hId_of_admissible (g0 : Gap) (p : PTok) (rest : List (Gap × PTok)) (g : Gap)
    (hp : p.Printable) (ha : Admissible ((g0, p) :: rest) g) (w : Str)
    (hw : p.tok = .identifier w) (a b : PartialToken)
    (h1 : (partials rest g).head? = some a) (h2 : (partials rest g).tail.head? = some b)
    (hpm : isPlusOrMinus a = true) : F64.parse (w ++ a.display ++ b.display) = none := by
  apply Classical.byContradiction
  intro hne
  obtain ⟨tok, text⟩ := p
  simp only at hw
  subst hw
  simp only [PTok.Printable] at hp
  obtain ⟨rfl, hword, -⟩ := hp
  obtain ⟨s, hs, hsign⟩ := display_of_isPlusOrMinus a hpm
  rw [hs, List.append_assoc, List.singleton_append] at hne
  obtain ⟨hlm, hd1, hd2⟩ := parse_join text b.display s hsign hword hne
  obtain ⟨w', rfl⟩ := literal_of_display_digits b hd1 hd2
  rcases partials_cases rest g with h | ⟨m, h⟩ | ⟨q, rest', rfl, h⟩
  · simp [h] at h1
  · rw [h] at h1; simp at h1; subst h1; simp [isPlusOrMinus] at hpm
  · rw [h] at h1 h2
    obtain ⟨hq, hm⟩ := ptokPartials_sign_literal q _ a w' h1 h2 hpm
    rcases partials_cases rest' g with h' | ⟨m', h'⟩ | ⟨r, rest'', rfl, h'⟩
    · simp [h'] at hm
    · simp [h'] at hm
    · have := ha.2.1.2 hlm rfl hq (by simp)
      simp [nextGap] at this

/-! ### phase 2 -/

theorem pttt_partials (ps : List (Gap × PTok)) (g : Gap) (hp : ∀ p ∈ ps, p.2.Printable)
    (ha : Admissible ps g) :
    partialTokensToTokens (partials ps g) = .ok (ps.map (·.2.tok)) := by
  induction ps with
  | nil =>
    have := pttt_gapPartials g []
    simpa [partials, partialTokensToTokens] using this
  | cons r rest ih =>
    obtain ⟨g0, p⟩ := r
    have hpp : p.Printable := hp (g0, p) (by simp)
    have hprest : ∀ q ∈ rest, q.2.Printable := fun q hq => hp q (by simp [hq])
    simp only [partials, List.append_assoc]
    rw [pttt_gapPartials, pttt_ptok p hpp _ (hEq_of_admissible g0 p rest g ha)
      (hId_of_admissible g0 p rest g hpp ha), ih hprest ha.2.2.2]
    rfl

/-! ### the theorems -/

/-- main theorem: printable tokens with an admissible gap assignment lex back to themselves -/
theorem C07_roundtrip (ps : List (Gap × PTok)) (g : Gap)
    (hp : ∀ p ∈ ps, p.2.Printable) (ha : Admissible ps g) :
    tokenize (renderFrom ps g) = .ok (ps.map (·.2.tok)) := by
  simp only [tokenize, strToPartialTokens_render ps g hp ha]
  exact pttt_partials ps g hp ha

/-- corollary: the token sequence (hence the tree) does not depend on the gaps -/
theorem C07_invariance (toks : List PTok) (gs₁ gs₂ : List Gap) (g₁ g₂ : Gap)
    (h₁ : gs₁.length = toks.length) (h₂ : gs₂.length = toks.length)
    (hp : ∀ p ∈ toks, p.Printable)
    (ha₁ : Admissible (gs₁.zip toks) g₁) (ha₂ : Admissible (gs₂.zip toks) g₂) :
    tokenize (renderFrom (gs₁.zip toks) g₁) = tokenize (renderFrom (gs₂.zip toks) g₂) := by
  have hz : ∀ gs : List Gap, ∀ p ∈ gs.zip toks, p.2.Printable :=
    fun gs p hm => hp p.2 (List.of_mem_zip (a := p.1) (b := p.2) hm).2
  have hm : ∀ gs : List Gap, gs.length = toks.length →
      (gs.zip toks).map (·.2.tok) = toks.map (·.tok) := by
    intro gs hl
    have : (gs.zip toks).map (·.2.tok) = ((gs.zip toks).map Prod.snd).map (·.tok) := by simp
    rw [this, List.map_snd_zip (by omega)]
  rw [C07_roundtrip _ _ (hz gs₁) ha₁, C07_roundtrip _ _ (hz gs₂) ha₂, hm gs₁ h₁, hm gs₂ h₂]

/-- a string literal denotes exactly its text -/
theorem C06_string (t : Str) : tokenize (quote t) = .ok [.string t] := by
  have := C07_roundtrip [([], ⟨.string t, quote t⟩)] []
    (by intro p hp; simp at hp; subst hp; simp [PTok.Printable])
    (by simp [Admissible, isSlash])
  simpa [renderFrom, Gap.text] using this

/-- an unterminated block comment is an error -/
theorem C07_unterminated (a : List (Gap × PTok)) (g : Gap) (b : Str)
    (hp : ∀ p ∈ a, p.2.Printable) (ha : Admissible a g) (hb : hasSubstr ['*', '/'] b = false)
    (hlast : ∀ p, a.getLast? = some p → isSlash p.2.tok = false ∨ g ≠ []) :
    tokenize (renderFrom a g ++ '/' :: '*' :: b) = .error unmatchedInlineComment := by
  have h1 := lexNormal_render a g ('/' :: '*' :: b) hp ha
    (by
      intro p hpl hs hg
      rcases hlast p hpl with h | h
      · rw [hs] at h; cases h
      · exact absurd hg h) []
    (by cases a with
        | nil => trivial
        | cons r _ => obtain ⟨g0, p⟩ := r; intro h; simp [headLit] at h)
  have h2 : ∀ acc, lexNormal ('/' :: '*' :: b) acc = lexBlock b acc := by
    intro acc
    rw [lexNormal.eq_3]
    have e1 : ('/' == '"') = false := by decide
    have e2 : ('*' == '/') = false := by decide
    simp only [e1, e2, beq_self_eq_true, ↓reduceIte, Bool.false_eq_true]
  simp only [tokenize, strToPartialTokens, h1, h2, lexBlock_unterminated b _ hb]

end Evalexpr.Spec
