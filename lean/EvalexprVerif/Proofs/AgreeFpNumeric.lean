/- Proofs/AgreeFpNumeric.lean — the `Numeric` functions of /repo/src are textually the ones the model was validated against. -/
import EvalexprVerif.Generated.FpNumeric
import EvalexprVerif.Spec.Fingerprints

namespace Evalexpr.Agree

theorem fpNumeric_agree : Generated.fpNumeric = Spec.Fingerprints.fpNumeric := by decide

end Evalexpr.Agree
