/-
Proofs/LexChars.lean — phase 1 of C06 / C07: from the characters of a rendered token sequence to
the partial tokens produced by `lexNormal`.
-/
import EvalexprVerif.Spec.Lex

namespace Evalexpr.Spec
open Evalexpr

/-! ### partial tokens of a rendered sequence -/

/-- every separator leaves exactly one `.whitespace` -/
def gapPartials (g : Gap) : List PartialToken := List.replicate g.length .whitespace

/-- the partial tokens of one printable token -/
def ptokPartials (p : PTok) : List PartialToken :=
  match p.tok with
  | .identifier _ | .int _ | .float _ | .boolean _ => [.literal p.text]
  | .string s => [.token (.string s)]
  | .plus => [.plus] | .minus => [.minus] | .star => [.star] | .slash => [.slash]
  | .percent => [.percent] | .hat => [.hat]
  | .eq => [.eq, .eq] | .neq => [.exclamationMark, .eq] | .gt => [.gt] | .lt => [.lt]
  | .geq => [.gt, .eq] | .leq => [.lt, .eq]
  | .and => [.ampersand, .ampersand] | .or => [.verticalBar, .verticalBar]
  | .not => [.exclamationMark]
  | .lBrace => [.token .lBrace] | .rBrace => [.token .rBrace]
  | .assign => [.eq] | .plusAssign => [.plus, .eq] | .minusAssign => [.minus, .eq]
  | .starAssign => [.star, .eq] | .slashAssign => [.slash, .eq] | .percentAssign => [.percent, .eq]
  | .hatAssign => [.hat, .eq] | .andAssign => [.ampersand, .ampersand, .eq]
  | .orAssign => [.verticalBar, .verticalBar, .eq]
  | .comma => [.token .comma] | .semicolon => [.token .semicolon]

def partials : List (Gap × PTok) → Gap → List PartialToken
  | [], g => gapPartials g
  | (g', p) :: rest, g => gapPartials g' ++ ptokPartials p ++ partials rest g

/-- the accumulator (reversed) ends with a literal -/
def headLit : List PartialToken → Bool
  | .literal _ :: _ => true
  | _ => false

/-! ### `pushPartial` -/

theorem pushPartial_of_not_headLit (acc : List PartialToken) (p : PartialToken)
    (h : headLit acc = false) : pushPartial acc p = p :: acc := by
  unfold pushPartial
  split
  · simp [headLit] at h
  · rfl

theorem pushPartial_of_nonlit (acc : List PartialToken) (p : PartialToken)
    (h : ∀ l, p ≠ .literal l) : pushPartial acc p = p :: acc := by
  unfold pushPartial
  split
  · exact absurd rfl (h _)
  · rfl

theorem pushPartial_lit (l w : Str) (rest : List PartialToken) :
    pushPartial (.literal l :: rest) (.literal w) = .literal (l ++ w) :: rest := rfl

/-! ### single characters -/

theorem lexNormal_nil (acc : List PartialToken) : lexNormal [] acc = .ok acc.reverse :=
  lexNormal.eq_1 acc

theorem lexNormal_cons_other (c : Char) (rest : Str) (acc : List PartialToken)
    (h1 : c ≠ '"') (h2 : c ≠ '/') :
    lexNormal (c :: rest) acc = lexNormal rest (pushPartial acc (charToPartialToken c)) := by
  cases rest with
  | nil => rw [lexNormal.eq_2]; simp only [beq_iff_eq, h1, ↓reduceIte]
  | cons n cs => rw [lexNormal.eq_3]; simp only [beq_iff_eq, h1, h2, ↓reduceIte]

theorem lexNormal_slash (rest : Str) (acc : List PartialToken)
    (h1 : rest.head? ≠ some '/') (h2 : rest.head? ≠ some '*') :
    lexNormal ('/' :: rest) acc = lexNormal rest (.slash :: acc) := by
  have hp : pushPartial acc .slash = .slash :: acc := pushPartial_of_nonlit _ _ (by intro l h; cases h)
  cases rest with
  | nil =>
    rw [lexNormal.eq_2]
    have : charToPartialToken '/' = .slash := by simp [charToPartialToken]
    simp [this, hp]
  | cons n cs =>
    rw [lexNormal.eq_3]
    simp only [List.head?_cons, ne_eq, Option.some.injEq] at h1 h2
    simp [h1, h2, hp]

theorem lexNormal_quote (rest : Str) (acc : List PartialToken) :
    lexNormal ('"' :: rest) acc = lexString rest [] acc := by
  cases rest with
  | nil => rw [lexNormal.eq_2]; simp
  | cons n cs => rw [lexNormal.eq_3]; simp

theorem isWordChar_iff (c : Char) : isWordChar c = true ↔
    (c ≠ '+' ∧ c ≠ '-' ∧ c ≠ '*' ∧ c ≠ '/' ∧ c ≠ '%' ∧ c ≠ '^' ∧ c ≠ '(' ∧ c ≠ ')' ∧ c ≠ ',' ∧
     c ≠ ';' ∧ c ≠ '=' ∧ c ≠ '!' ∧ c ≠ '>' ∧ c ≠ '<' ∧ c ≠ '&' ∧ c ≠ '|') ∧
    isWhitespace c = false ∧ c ≠ '"' := by
  simp [isWordChar, specialChars, and_assoc]

theorem charToPartialToken_word (c : Char) (h : isWordChar c = true) :
    charToPartialToken c = .literal [c] := by
  rw [isWordChar_iff] at h
  obtain ⟨⟨h1, h2, h3, h4, h5, h6, h7, h8, h9, h10, h11, h12, h13, h14, h15, h16⟩, hw, _⟩ := h
  simp [charToPartialToken, *]

theorem ne_of_isWhitespace (c d : Char) (h : isWhitespace c = true) (hd : isWhitespace d = false) :
    c ≠ d := by
  intro e; subst e; simp [hd] at h

theorem charToPartialToken_ws (c : Char) (h : isWhitespace c = true) :
    charToPartialToken c = .whitespace := by
  have n := fun d hd => ne_of_isWhitespace c d h hd
  simp [charToPartialToken, h, n '+' (by decide), n '-' (by decide), n '*' (by decide),
    n '/' (by decide), n '%' (by decide), n '^' (by decide), n '(' (by decide), n ')' (by decide),
    n ',' (by decide), n ';' (by decide), n '=' (by decide), n '!' (by decide), n '>' (by decide),
    n '<' (by decide), n '&' (by decide), n '|' (by decide)]

theorem lexNormal_ws (c : Char) (h : isWhitespace c = true) (rest : Str) (acc : List PartialToken) :
    lexNormal (c :: rest) acc = lexNormal rest (.whitespace :: acc) := by
  rw [lexNormal_cons_other c rest acc (ne_of_isWhitespace c _ h (by decide))
    (ne_of_isWhitespace c _ h (by decide)), charToPartialToken_ws c h,
    pushPartial_of_nonlit _ _ (by intro l h; cases h)]

/-! ### comments -/

theorem lexBlock_closed (body : Str) (h : hasSubstr ['*', '/'] body = false) (rest : Str)
    (acc : List PartialToken) :
    lexBlock (body ++ '*' :: '/' :: rest) acc = lexNormal rest (.whitespace :: acc) := by
  induction body with
  | nil => simp [lexBlock]
  | cons c body ih =>
    have h' : hasSubstr ['*', '/'] body = false := by
      simp [hasSubstr] at h; exact h.2
    cases body with
    | nil =>
      simp only [List.cons_append, List.nil_append]
      rw [lexBlock.eq_3]
      simp [lexBlock]
    | cons n body =>
      simp only [List.cons_append] at ih ⊢
      rw [lexBlock.eq_3]
      have : (c == '*' && n == '/') = false := by
        simp [hasSubstr, List.isPrefixOf] at h
        have h1 := h.1
        cases hc : c == '*' <;> cases hn : n == '/' <;> simp_all
      rw [this]
      exact ih h'

theorem lexBlock_unterminated : ∀ (b : Str) (acc : List PartialToken),
    hasSubstr ['*', '/'] b = false → lexBlock b acc = .error unmatchedInlineComment
  | [], _, _ => by simp [lexBlock]
  | [_], _, _ => by simp [lexBlock]
  | c :: n :: cs, acc, h => by
    rw [lexBlock.eq_3]
    have h' : hasSubstr ['*', '/'] (n :: cs) = false := by
      rw [hasSubstr] at h; simp at h; exact h.2
    have : (c == '*' && n == '/') = false := by
      simp [hasSubstr, List.isPrefixOf] at h
      have h1 := h.1
      cases hc : c == '*' <;> cases hn : n == '/' <;> simp_all
    rw [this]
    exact lexBlock_unterminated (n :: cs) acc h'

theorem lexLine_closed (body : Str) (h : body.contains '\n' = false) (rest : Str)
    (acc : List PartialToken) :
    lexLine (body ++ '\n' :: rest) acc = lexNormal rest (.whitespace :: acc) := by
  induction body with
  | nil => simp [lexLine]
  | cons c body ih =>
    simp at h
    simp only [List.cons_append]
    rw [lexLine.eq_2]
    have : (c == '\n') = false := by
      cases hc : c == '\n'
      · rfl
      · simp at hc; simp [hc] at h
    rw [this]
    simp only [Bool.false_eq_true, ↓reduceIte]
    apply ih
    simp; exact h.2

theorem lexNormal_sep (s : Sep) (hs : s.valid = true) (rest : Str) (acc : List PartialToken) :
    lexNormal (s.text ++ rest) acc = lexNormal rest (.whitespace :: acc) := by
  cases s with
  | ws c => exact lexNormal_ws c hs rest acc
  | block b =>
    simp only [Sep.valid, Bool.not_eq_true'] at hs
    simp only [Sep.text, List.cons_append, List.append_assoc]
    rw [lexNormal.eq_3]
    simp only [List.nil_append]
    have : ('/' == '"') = false := by decide
    have h2 : ('*' == '/') = false := by decide
    simp only [this, h2, beq_self_eq_true, ↓reduceIte, Bool.false_eq_true]
    exact lexBlock_closed b hs rest acc
  | line b =>
    simp only [Sep.valid, Bool.not_eq_true'] at hs
    simp only [Sep.text, List.cons_append, List.append_assoc]
    rw [lexNormal.eq_3]
    simp only [List.nil_append]
    have : ('/' == '"') = false := by decide
    simp only [this, beq_self_eq_true, ↓reduceIte, Bool.false_eq_true]
    exact lexLine_closed b hs rest acc

theorem gapPartials_cons (s : Sep) (g : Gap) :
    gapPartials (s :: g) = gapPartials g ++ [.whitespace] := by
  simp [gapPartials, List.replicate_succ']

theorem gapPartials_reverse (g : Gap) : (gapPartials g).reverse = gapPartials g := by
  simp [gapPartials]

theorem lexNormal_gap (g : Gap) (hg : ∀ s ∈ g, s.valid = true) (rest : Str)
    (acc : List PartialToken) :
    lexNormal (g.text ++ rest) acc = lexNormal rest (gapPartials g ++ acc) := by
  induction g generalizing acc with
  | nil => simp [Gap.text, gapPartials]
  | cons s g ih =>
    have : Gap.text (s :: g) = s.text ++ Gap.text g := by simp [Gap.text]
    rw [this, List.append_assoc, lexNormal_sep s (hg s (by simp)), ih (fun s hs => hg s (by simp [hs])),
      gapPartials_cons]
    simp

theorem Gap.text_ne_nil (g : Gap) (h : g ≠ []) : g.text ≠ [] := by
  cases g with
  | nil => exact absurd rfl h
  | cons s g => cases s <;> simp [Gap.text, Sep.text]

/-! ### words and strings -/

theorem lexNormal_word_cont (w : Str) (hw : w.all isWordChar = true) (l : Str) (rest : Str)
    (acc : List PartialToken) :
    lexNormal (w ++ rest) (.literal l :: acc) = lexNormal rest (.literal (l ++ w) :: acc) := by
  induction w generalizing l with
  | nil => simp
  | cons c w ih =>
    simp only [List.all_cons, Bool.and_eq_true] at hw
    have hc := (isWordChar_iff c).1 hw.1
    simp only [List.cons_append]
    rw [lexNormal_cons_other c _ _ hc.2.2 hc.1.2.2.2.1, charToPartialToken_word c hw.1,
      pushPartial_lit, ih hw.2]
    simp

theorem lexNormal_word (w : Str) (hw : isWord w = true) (rest : Str) (acc : List PartialToken)
    (hacc : headLit acc = false) :
    lexNormal (w ++ rest) acc = lexNormal rest (.literal w :: acc) := by
  cases w with
  | nil => simp [isWord] at hw
  | cons c w =>
    simp only [isWord, List.isEmpty_cons, Bool.not_false, List.all_cons, Bool.true_and,
      Bool.and_eq_true] at hw
    have hc := (isWordChar_iff c).1 hw.1
    simp only [List.cons_append]
    rw [lexNormal_cons_other c _ _ hc.2.2 hc.1.2.2.2.1, charToPartialToken_word c hw.1,
      pushPartial_of_not_headLit _ _ hacc, lexNormal_word_cont w hw.2]
    simp

theorem lexString_quote (rest s : Str) (acc : List PartialToken) :
    lexString ('"' :: rest) s acc = lexNormal rest (.token (.string s) :: acc) := by
  cases rest <;> simp [lexString]

theorem lexString_esc_quote (rest s : Str) (acc : List PartialToken) :
    lexString ('\\' :: '"' :: rest) s acc = lexString rest (s ++ ['"']) acc := by
  rw [lexString.eq_3]
  have : ('\\' == '"') = false := by decide
  simp [this]

theorem lexString_esc_backslash (rest s : Str) (acc : List PartialToken) :
    lexString ('\\' :: '\\' :: rest) s acc = lexString rest (s ++ ['\\']) acc := by
  rw [lexString.eq_3]
  have : ('\\' == '"') = false := by decide
  simp [this]

theorem lexString_plain (c : Char) (h1 : c ≠ '"') (h2 : c ≠ '\\') (rest s : Str)
    (acc : List PartialToken) :
    lexString (c :: rest) s acc = lexString rest (s ++ [c]) acc := by
  cases rest with
  | nil => rw [lexString.eq_2]; simp [h1, h2]
  | cons e cs => rw [lexString.eq_3]; simp [h1, h2]

theorem lexString_escape (t rest s : Str) (acc : List PartialToken) :
    lexString (escape t ++ '"' :: rest) s acc = lexNormal rest (.token (.string (s ++ t)) :: acc) := by
  induction t generalizing s with
  | nil => simp [escape, lexString_quote]
  | cons c t ih =>
    rw [escape]
    by_cases h1 : c = '"'
    · subst h1
      simp only [beq_self_eq_true, Bool.true_or, ↓reduceIte, List.cons_append]
      rw [lexString_esc_quote, ih]; simp
    · by_cases h2 : c = '\\'
      · subst h2
        simp only [beq_self_eq_true, Bool.or_true, ↓reduceIte, List.cons_append]
        rw [lexString_esc_backslash, ih]; simp
      · have : (c == '"' || c == '\\') = false := by simp [h1, h2]
        rw [this]
        simp only [Bool.false_eq_true, ↓reduceIte, List.cons_append]
        rw [lexString_plain c h1 h2, ih]; simp

theorem lexNormal_string (t rest : Str) (acc : List PartialToken) :
    lexNormal (quote t ++ rest) acc = lexNormal rest (.token (.string t) :: acc) := by
  simp only [quote, List.cons_append, List.append_assoc, List.nil_append]
  rw [lexNormal_quote, lexString_escape]; simp

end Evalexpr.Spec
