/-
Proofs/AgreeFnOperator.lean — `Operator::eval` and `Operator::eval_mut` as translated from
src/operator/mod.rs on this run (`Generated/FnOperator.lean`, by /verif/translate_fn.py) equal the
Model's `Operator.eval` / `Operator.evalMut` for ALL operators, argument lists and states.

The scripts are generic: split on the operator, on the shape of the argument list (length 0, 1, 2,
≥ 3), on the value variants, and — for the arms that observe the state — on what the Model's context
answers (`getValue`, `userFn`, the user function's result, `builtinsDisabled`, `builtinFunction`,
`setValue`); then `rfl` (both sides compute to the same normal form) or symbolic execution with the
Prelude lemmas. They do not mention the syntactic shape of the Rust bodies.
-/
import EvalexprVerif.Generated.FnOperator
import EvalexprVerif.Translate.Lemmas
import EvalexprVerif.Proofs.AgreeFnError
import EvalexprVerif.Proofs.AgreeFnValue
import EvalexprVerif.Proofs.AgreeFnNumeric
import EvalexprVerif.Proofs.AgreeFnBuiltin

namespace Evalexpr.AgreeFn
open Evalexpr

/-- symbolic execution of a generated body against the Model -/
macro "rs_exec" : tactic =>
  `(tactic| simp [Gen.Operator.eval, Gen.Operator.eval_mut, Evalexpr.Operator.eval, Evalexpr.Operator.evalMut,
      Evalexpr.Operator.evalPure, Evalexpr.callFunction, Evalexpr.Operator.assignBase,
      fn_expect_operator_argument_amount_agree, fn_expect_number_or_string_agree,
      fn_Value_as_string_agree, fn_Value_as_int_agree, fn_Value_as_number_agree, fn_Value_as_boolean_agree,
      fn_i64_checked_add_agree, fn_i64_checked_sub_agree, fn_i64_checked_mul_agree, fn_i64_checked_div_agree,
      fn_i64_checked_rem_agree, fn_i64_checked_neg_agree, fn_f64_pow_agree,
      Rs.M.run_ctx_call_function_bind, List.getLast?_cons, wrongArgs, *])

/-- the arms of `Operator::eval` that do not look at the context -/
theorem eval_pure_arms (op : Operator) (args : List Value) (s : St)
    (h1 : ∀ id, op ≠ .varRead id) (h2 : ∀ id, op ≠ .fn id) :
    Gen.Operator.eval op args s = Evalexpr.Operator.eval op args s := by
  -- the translated callees that are not computable by `rfl` on symbolic arguments are replaced by the Model's first
  unfold Gen.Operator.eval
  try simp only [fn_i64_checked_add_agree, fn_i64_checked_sub_agree, fn_i64_checked_mul_agree, fn_i64_checked_div_agree,
    fn_i64_checked_rem_agree, fn_i64_checked_neg_agree, fn_f64_pow_agree]
  cases op <;> rcases args with _ | ⟨a, _ | ⟨b, _ | ⟨c, rest⟩⟩⟩ <;>
    first
    | rfl
    | (cases a <;> rfl)
    | (cases a <;> cases b <;> rfl)
    | (exact absurd rfl (h1 _))
    | (exact absurd rfl (h2 _))
    | rs_exec

/-- `VariableIdentifierRead` -/
theorem eval_varRead (id : Str) (args : List Value) (s : St) :
    Gen.Operator.eval (.varRead id) args s = Evalexpr.Operator.eval (.varRead id) args s := by
  rcases args with _ | ⟨a, rest⟩
  · cases h : s.ctx.getValue id <;> rs_exec
  · rfl

/-- `FunctionIdentifier` -/
theorem eval_fn (id : Str) (args : List Value) (s : St) :
    Gen.Operator.eval (.fn id) args s = Evalexpr.Operator.eval (.fn id) args s := by
  rcases args with _ | ⟨a, _ | ⟨b, rest⟩⟩
  · rfl
  · -- the builtin half: the generated `builtin_function` resolves and computes like the Model's (AgreeFnBuiltin)
    have hB := fn_builtin_function_agree id a
    rcases hu : s.ctx.userFn id with _ | g
    · cases hb : s.ctx.builtinsDisabled <;> cases hf : builtinFunction id <;> cases hg : Gen.builtin_function id <;>
        simp [hf, hg] at hB <;> rs_exec
    · rcases hr : g a with e | v
      · cases e <;> cases hb : s.ctx.builtinsDisabled <;> cases hf : builtinFunction id <;>
          cases hg : Gen.builtin_function id <;> simp [hf, hg] at hB <;> rs_exec
      · rs_exec
  · rfl

theorem fn_Operator_eval_agree (op : Operator) (args : List Value) (s : St) :
    Gen.Operator.eval op args s = Evalexpr.Operator.eval op args s := by
  by_cases h1 : ∃ id, op = .varRead id
  · obtain ⟨id, rfl⟩ := h1; exact eval_varRead id args s
  · by_cases h2 : ∃ id, op = .fn id
    · obtain ⟨id, rfl⟩ := h2; exact eval_fn id args s
    · exact eval_pure_arms op args s (fun id h => h1 ⟨id, h⟩) (fun id h => h2 ⟨id, h⟩)

/-! ### `eval_mut` -/

/-- symbolic execution, with the calls of the generated `Operator::eval` replaced by the Model's -/
macro "rs_exec_mut" : tactic =>
  `(tactic| simp [Gen.Operator.eval_mut, fn_Operator_eval_agree, Evalexpr.Operator.evalMut, Evalexpr.Operator.assignBase,
      fn_expect_operator_argument_amount_agree, fn_Value_as_string_agree, Value.asString, wrongArgs, *])

/-- `Assign` -/
theorem evalMut_assign (args : List Value) (s : St) :
    Gen.Operator.eval_mut .assign args s = Evalexpr.Operator.evalMut .assign args s := by
  rcases args with _ | ⟨a, _ | ⟨b, _ | ⟨c, rest⟩⟩⟩
  · rfl
  · rfl
  · cases a <;> first
      | rfl
      | (rename_i t; rcases hs : setValue s t b with ⟨_ | _, s'⟩ <;> rs_exec_mut)
  · rfl

/-- the op-assign arm, for one operator `op` with base operator `base` -/
theorem evalMut_opAssign (op base : Operator) (hb : op.assignBase = some base) (args : List Value) (s : St) :
    Gen.Operator.eval_mut op args s = Evalexpr.Operator.evalMut op args s := by
  rcases args with _ | ⟨a, _ | ⟨b, _ | ⟨c, rest⟩⟩⟩
  · cases op <;> first | rfl | (cases hb; done)
  · cases op <;> first | rfl | (cases hb; done)
  · cases a <;> first
      | (cases op <;> first | rfl | (cases hb; done))
      | (rename_i t
         rcases h1 : Evalexpr.Operator.eval (.varRead t) [] s with ⟨_ | left, s1⟩
         · cases op <;> cases hb <;> rs_exec_mut
         · rcases h2 : Evalexpr.Operator.eval base [left, b] s1 with ⟨_ | result, s2⟩
           · cases op <;> cases hb <;> rs_exec_mut
           · rcases h3 : setValue s2 t result with ⟨_ | _, s3⟩ <;>
               (cases op <;> cases hb <;> rs_exec_mut))
  · cases op <;> first | rfl | (cases hb; done)

theorem fn_Operator_eval_mut_agree (op : Operator) (args : List Value) (s : St) :
    Gen.Operator.eval_mut op args s = Evalexpr.Operator.evalMut op args s := by
  cases hb : op.assignBase with
  | some base => exact evalMut_opAssign op base hb args s
  | none =>
    cases op <;> first
      | (cases hb; done)
      | exact evalMut_assign args s
      | (simp only [Gen.Operator.eval_mut, Evalexpr.Operator.evalMut, Rs.M.run_call]; exact fn_Operator_eval_agree _ args s)

end Evalexpr.AgreeFn
