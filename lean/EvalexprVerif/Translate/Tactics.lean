/-
Translate/Tactics.lean — a small proof-automation helper for the agreement proofs of the tree builder
(`Proofs/AgreeFnTreeBuild*.lean`). Nothing here is trusted: the tactic only produces ordinary proof terms
(`Decidable.byCases` + `simp only`), which the kernel checks.

`rs_split_if`: find the outermost `if c then _ else _` of the goal whose condition `c` does not depend on a bound
variable, split into the cases `c` / `¬ c`, and rewrite the goal's `if c` accordingly. (The core `split` tactic does
the same, but its internal simplification step runs out of steps on the large goals produced by symbolic execution.)
`rs_split_ifs` repeats it on all resulting goals.
-/
import Lean.Elab.Tactic
import EvalexprVerif.Translate.Lemmas

namespace Evalexpr.Rs
open Lean Elab Tactic Meta

elab "rs_split_if" : tactic => withMainContext do
  let tgt ← instantiateMVars (← getMainTarget)
  let some c := tgt.find? (fun e => (e.isAppOfArity ``ite 5 || e.isAppOfArity ``dite 5) && !(e.getArg! 1).hasLooseBVars)
    | throwError "rs_split_if: no if-then-else in the goal"
  let cond := c.getArg! 1
  let g ← getMainGoal
  let (s1, s2) ← g.byCases cond `hc
  let mut res : List MVarId := []
  for (s, pos) in [(s1, true), (s2, false)] do
    setGoals [s.mvarId]
    let h := mkIdent (← s.mvarId.withContext do return (← s.fvarId.getDecl).userName)
    if pos then
      evalTactic (← `(tactic| simp only [if_pos $h, dif_pos $h]))
    else
      evalTactic (← `(tactic| simp only [if_neg $h, dif_neg $h]))
    res := res ++ (← getGoals)
  setGoals res

macro "rs_split_ifs" : tactic => `(tactic| repeat' rs_split_if)

end Evalexpr.Rs
