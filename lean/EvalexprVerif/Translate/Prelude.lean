/-
Translate/Prelude.lean — the meaning of the Rust constructs and of the Rust `std` / language-level
names that the function bodies translated by /verif/translate_fn.py use, over the Model's types.

This file is HAND-WRITTEN and TRUSTED (together with translate_fn.py and its boundary table): the
generated definitions in `Generated/Fn*.lean` are a mechanical rendering of the Rust bodies into the
vocabulary defined here.

Conventions
* references, derefs, `clone()`, `cloned()`, `to_string()` on a `String`/`&str` are the identity;
* `usize` is `Nat` (no overflow: the only arithmetic on it in the translated code is a capacity hint);
* a Rust expression inside a function with return type `ρ` evaluates to `Flow ρ α`: a value, or an
  early `return`. `?` is the early return of `.error e`; a panic (slice index out of bounds,
  `Option::unwrap` on `None`, `unreachable!`) is the early return of `.error (.panic site)` like in
  the Model (therefore only available in functions that return a `Res`);
* functions with a context parameter (`&C` / `&mut C`) pass the Model's evaluation state:
  `St → ρ × St`; inside their bodies expressions are `M ρ α = St → Flow ρ α × St`, so an early
  return keeps the state reached so far.
-/
import EvalexprVerif.Model.Eval

namespace Evalexpr.Rs

/-! ### control flow -/

/-- outcome of evaluating a Rust expression in a function returning `ρ` -/
inductive Flow (ρ α : Type) where
  | val (a : α)
  | ret (r : ρ)

instance : Monad (Flow ρ) where
  pure a := .val a
  bind x f := match x with
    | .val a => f a
    | .ret r => .ret r

/-- the function boundary: an early return and the value of the body are both the result -/
def Flow.run : Flow ρ ρ → ρ
  | .val a => a
  | .ret r => r

/-- expressions of a function that has a context parameter -/
def M (ρ α : Type) : Type := St → Flow ρ α × St

instance : Monad (M ρ) where
  pure a := fun s => (.val a, s)
  bind x f := fun s => match x s with
    | (.val a, s) => f a s
    | (.ret r, s) => (.ret r, s)

def M.run (x : M ρ ρ) : St → ρ × St := fun s =>
  match x s with
  | (.val a, s) => (a, s)
  | (.ret r, s) => (r, s)

/-- calling a function that has a context parameter, passing the context on -/
def call (f : St → α × St) : M ρ α := fun s =>
  match f s with
  | (a, s) => (.val a, s)

/-- calling a context function on a temporary context built in place (`&mut HashMapContext::new()`):
the callee runs on a state of its own (that `HashMapContext`, empty call log); only its result is
used, the temporary is dropped -/
def call_fresh (h : HashMapCtx) (f : St → α × St) : α := (f { ctx := .hashMap h, log := [] }).1

class MonadFlow (ρ : outParam Type) (m : Type → Type) where
  liftFlow : Flow ρ α → m α

instance : MonadFlow ρ (Flow ρ) := ⟨fun x => x⟩
instance : MonadFlow ρ (M ρ) := ⟨fun x s => (x, s)⟩

/-- `return e` -/
def ret [MonadFlow ρ m] (r : ρ) : m α := MonadFlow.liftFlow (Flow.ret r)

/-- return types that can carry an error (`?`, panics): a `Result`, or the outcome of a loop body (`LoopOut`, below)
in a function that returns one -/
class ErrRet (ρ : Type) where
  ofErr : Err → ρ
instance : ErrRet (Res β) := ⟨fun e => .error e⟩

/-- `e?` on a `Result` (the `From` conversion of the error is the identity: one error type) -/
def «try» [MonadFlow ρ m] [ErrRet ρ] (e : Res α) : m α :=
  MonadFlow.liftFlow (match e with
    | .ok a => Flow.val a
    | .error err => Flow.ret (ErrRet.ofErr err))

/-- a panic -/
def panic [MonadFlow ρ m] [ErrRet ρ] (site : Str) : m α :=
  MonadFlow.liftFlow (Flow.ret (ErrRet.ofErr (.panic site)))

/-- `a[i]` on a slice / `Vec` -/
def index [MonadFlow ρ m] [ErrRet ρ] (site : Str) (a : List α) (i : Nat) : m α :=
  MonadFlow.liftFlow (match a[i]? with
    | some v => Flow.val v
    | none => Flow.ret (ErrRet.ofErr (.panic site)))

/-- `Option::unwrap` -/
def unwrap [MonadFlow ρ m] [ErrRet ρ] (site : Str) (o : Option α) : m α :=
  MonadFlow.liftFlow (match o with
    | some v => Flow.val v
    | none => Flow.ret (ErrRet.ofErr (.panic site)))

/-- `for x in xs { body }` over a slice / `Vec`: a left fold in the expression monad; the loop state is
the tuple of the local variables the body assigns (an early return inside the body ends the loop) -/
def forIn [Monad m] (l : List α) (init : σ) (f : α → σ → m σ) : m σ :=
  match l with
  | [] => pure init
  | a :: l => f a init >>= fun s => forIn l s f

/-- `loop { body }` (left only through `return`), in a function without context: iterate `body` on the loop state.
The function takes its fuel as an explicit parameter: when the fuel runs out the function ends with
`.error (.panic site)` — the result says "not finished within `fuel` iterations", nothing is assumed about
termination (the agreement theorems prove how much fuel suffices). -/
def loop (site : Str) : Nat → σ → (σ → Flow (Res β) σ) → Flow (Res β) α
  | 0, _, _ => .ret (.error (.panic site))
  | n + 1, s, f => match f s with
    | .val s' => loop site n s' f
    | .ret r => .ret r

/-! ### loops with `break` / `continue` (`while`, `while let`, `for` over an iterator) -/

/-- how one run of a loop body ends: normally / `continue` (next iteration), `break`, or a `return` of the function -/
inductive LoopOut (ρ σ : Type) where
  | cont (s : σ)
  | brk (s : σ)
  | ret (r : ρ)
/-- `?` and panics inside a loop body leave the loop as a `return` of the error -/
instance [ErrRet ρ] : ErrRet (LoopOut ρ σ) := ⟨fun e => .ret (ErrRet.ofErr e)⟩

/-- `while c { body }` / `while let p = e { body }` / `for x in iterator { body }`: `body` (with the loop test inside:
a failed test is a `break`) is run on the loop state until it breaks; at most `fuel` times — when the fuel runs out the
function ends with the error `.panic site` (nothing is assumed about termination; see `loop` above). -/
def loopB [ErrRet ρ] (site : Str) : Nat → σ → (σ → LoopOut ρ σ) → Flow ρ σ
  | 0, _, _ => .ret (ErrRet.ofErr (.panic site))
  | n + 1, s, f => match f s with
    | .cont s' => loopB site n s' f
    | .brk s' => .val s'
    | .ret r => .ret r

/-- a function with `&mut` cursor parameters hands the advanced cursors back with its value -/
def attach (r : Res α) (st : σ) : Res (α × σ) := r.map (fun a => (a, st))

/-! ### character iterators: a cursor is the list of the remaining characters -/
/-- `str::chars` -/
def chars (s : Str) : List Char := s
/-- `Peekable::peek` -/
def peek (it : List α) : Option α := it.head?
/-- `v[a..]`: the rest of the slice from index `a`; panics when `a > len` -/
def slice_from [MonadFlow ρ m] [ErrRet ρ] (site : Str) (v : List α) (a : Nat) : m (List α) :=
  MonadFlow.liftFlow (if a ≤ v.length then Flow.val (v.drop a) else Flow.ret (ErrRet.ofErr (.panic site)))

/-- the explicit stack of `NodeIter` / `OperatorIterMut` (src/tree/iter.rs): a `Vec` (top = last element) of slice
iterators, each the list of the children still to be visited -/
structure IterStack where
  stack : List (List Node)
/-- `slice::Iter::next` / `IterMut::next`: the first remaining item and the rest -/
def iter_next (it : List α) : Option α × List α :=
  match it with
  | [] => (none, [])
  | a :: rest => (some a, rest)
/-- writing through `v.last_mut()`: the vector with its last element replaced -/
def set_last (v : List α) (x : α) : List α := v.dropLast ++ [x]
/-- `Vec::pop`: the vector without its last element -/
def pop_back (v : List α) : List α := v.dropLast

/-- termination measure of the recursive functions over `Node` (a proved fact, used by the generated
`decreasing_by`) -/
theorem node_lt {child self : Node} (h : child ∈ self.children) : sizeOf child < sizeOf self := by
  cases self with | mk op cs =>
  have := List.sizeOf_lt_of_mem h
  simp at *
  omega

/-- `Function::new(closure)` (src/function/mod.rs boxes the closure): the function itself -/
def Function_new (f : Value → Res Value) : UserFn := f

/-- `a..b` and `a..=b` on `usize` -/
structure Range where
  lo : Nat
  hi : Nat
structure RangeInclusive where
  lo : Nat
  hi : Nat
/-- `RangeInclusive::contains` -/
def RangeInclusive.contains (r : RangeInclusive) (x : Nat) : Bool := r.lo ≤ x && x ≤ r.hi
/-- `usize::MAX` (64-bit platform) -/
def usize_MAX : Nat := 2 ^ 64 - 1
/-- the two error variants whose Rust field is a `RangeInclusive<usize>`: the Model stores the two bounds -/
def Err_wrongFunctionArgumentAmount (expected : RangeInclusive) (actual : Nat) : Err :=
  .wrongFunctionArgumentAmount expected.lo expected.hi actual
def Err_expectedRangedLengthTuple (expected_length : RangeInclusive) (actual : Value) : Err :=
  .expectedRangedLengthTuple expected_length.lo expected_length.hi actual

/-- `Vec::swap_remove(i)` used for its result only: the element at `i` (panics when out of bounds) -/
def swap_remove [MonadFlow ρ m] [ErrRet ρ] (site : Str) (a : List α) (i : Nat) : m α := index site a i

/-! ### identity conversions -/

def clone (a : α) : α := a
/-- `Option<&T>::cloned` -/
def cloned {φ : Type} (a : φ) : φ := a
/-- `iter()` on a slice / `Vec` / `HashMap`: an iterator is the list of the items it yields; for a `HashMap` the
items are the (key, value) pairs in the order of the association list (Rust leaves the order unspecified) -/
def iter (a : List α) : List α := a
/-- `HashMap::keys` -/
def keys (m : List (κ × β)) : List κ := m.map (·.1)
/-- `std::iter::empty()` -/
def iter_empty : List α := []

/-- `x.into()` / `T::from(x)`; the target type is fixed by the context -/
class Into (α β : Type) where
  into : α → β
export Into (into)

/-- `Default::default()`; the type is fixed by the context -/
class Default (α : Type) where
  default : α
export Default (default)
/-- `HashMap::default()`, `Vec::default()` -/
instance : Default (List α) := ⟨[]⟩

/-- `&[T]` → `Vec<T>` -/
instance : Into (List α) (List α) := ⟨fun a => a⟩

/-! ### `std` on slices, `Vec`, `Option`, `Result`, `String` -/

class Len (α : Type) where
  len : α → Nat
export Len (len)
/-- `<[T]>::len`, `Vec::len` -/
instance : Len (List Value) := ⟨List.length⟩
/-- `String::len`: the length in bytes (UTF-8) -/
instance : Len Str := ⟨utf8Len⟩

/-- `<[T]>::is_empty` -/
def is_empty (a : List α) : Bool := a.isEmpty
/-- `<[T]>::first` -/
def first (a : List α) : Option α := a.head?
/-- `<[T]>::last` -/
def last (a : List α) : Option α := a.getLast?
/-- `get`: `<[T]>::get(i)` on slices, `HashMap::get(key)` on the association lists that model hash maps -/
class Get (κ : Type) (c : Type) (v : outParam Type) where
  get : c → κ → Option v
export Get (get)
instance : Get Nat (List α) α := ⟨fun a i => a[i]?⟩
instance : Get Str (List (Str × β)) β := ⟨fun m k => alookup k m⟩
/-- `str::get(a..b)`: the substring between two byte offsets, `None` unless both are character boundaries in range -/
instance : Get Range Str Str := ⟨fun s r => sliceBytes s r.lo r.hi⟩
/-- `HashMap::insert` (the returned previous value is not used by the translated code) -/
def insert (m : List (Str × β)) (k : Str) (v : β) : List (Str × β) := ainsert k v m
/-- `HashMap::clear`, `Vec::clear` -/
def clear (_ : List α) : List α := []
/-- calling a stored function: `Function::call` (src/function/mod.rs `(self.function)(argument)`) is the
application of the function -/
def fn_call (f : UserFn) (a : Value) : Res Value := f a
/-- `Option::unwrap_or` -/
def unwrap_or (o : Option α) (d : α) : α :=
  match o with
  | some v => v
  | none => d
/-- `Vec::push` (`&mut self`: the new vector) -/
def push (a : List α) (x : α) : List α := a ++ [x]

class Map (f : Type → Type) where
  map : f α → (α → β) → f β
export Map (map)
/-- `Result::map` -/
instance : Map Res := ⟨fun r f => Except.map f r⟩
/-- `Option::map` -/
instance : Map Option := ⟨fun o f => Option.map f o⟩
/-- `Iterator::map` -/
instance : Map List := ⟨fun l f => List.map f l⟩

/-- `str::strip_prefix` -/
def strip_prefix (s p : Str) : Option Str := if p.isPrefixOf s then some (s.drop p.length) else none
/-- `str::starts_with(|c| …)` -/
def starts_with (s : Str) (f : Char → Bool) : Bool :=
  match s with
  | c :: _ => f c
  | [] => false
/-- `Result::ok` -/
def ok (r : Except ε α) : Option α :=
  match r with
  | .ok a => some a
  | .error _ => none
/-- `Option::flatten` -/
def flatten (o : Option (Option α)) : Option α :=
  match o with
  | some x => x
  | none => none
/-- `bool::then` -/
def bool_then (b : Bool) (f : Unit → α) : Option α := if b then some (f ()) else none
/-- `Vec::extend` from an `Option` (an iterator of at most one item) -/
def extend (v : List α) (o : Option α) : List α := v ++ o.toList
/-- `str::parse::<f64>` (`f64::from_str`), `str::parse::<bool>`, `i64::from_str`, `i64::from_str_radix(_, 16)`: the Model's
parsers; the std error values carry no information -/
def ofOption (o : Option α) : Except Unit α :=
  match o with
  | some a => .ok a
  | none => .error ()
def parse_f64 (s : Str) : Except Unit Float := ofOption (F64.parse s)
def parse_bool (s : Str) : Except Unit Bool := ofOption (parseBool s)
def i64_from_str (s : Str) : Except Unit Int64 := ofOption (F64.parseDec s)
/-- only radix 16 is modelled (any other radix: an error value, and the agreement proofs fail) -/
def i64_from_str_radix (s : Str) (radix : Nat) : Except Unit Int64 :=
  if radix == 16 then ofOption (F64.parseHex s) else .error ()

/-- `Option::ok_or` -/
def ok_or (o : Option α) (e : ε) : Except ε α :=
  match o with
  | some a => .ok a
  | none => .error e
/-- `contains`: `[T]::contains` on values (derived `PartialEq`), `RangeInclusive::contains` -/
class Contains (c : Type) (a : outParam Type) where
  contains : c → a → Bool
export Contains (contains)
instance : Contains (List Value) Value := ⟨tupleContains⟩
instance : Contains RangeInclusive Nat := ⟨RangeInclusive.contains⟩
/-- `str::to_lowercase`, `str::to_uppercase`, `str::trim`: the Model's functions (modelled alphabet, see Model/Builtin.lean) -/
def to_lowercase (s : Str) : Str := strToLower s
def to_uppercase (s : Str) : Str := strToUpper s
def trim (s : Str) : Str := trimStr s
/-- `ToString::to_string` (`Display`): identity on strings; the Model's `Display` images otherwise -/
class ToString (α : Type) where
  to_string : α → Str
export ToString (to_string)
instance : ToString Str := ⟨fun s => s⟩
instance : ToString Char := ⟨fun c => [c]⟩
/-- `Display for PartialToken` (src/token/display.rs, not translated): the Model's image -/
instance : ToString PartialToken := ⟨PartialToken.display⟩
instance : ToString Float := ⟨F64.display⟩
instance : ToString Int64 := ⟨F64.intDisplay⟩
instance : ToString Bool := ⟨fun b => if b then cl!"true" else cl!"false"⟩
instance : ToString Value := ⟨Value.display⟩
/-- `min` / `max`: `Ord::min` / `Ord::max` on the int type; on the float type the instance is the translated
`EvalexprFloat::min` / `max` (registered by Generated/FnNumeric.lean) -/
class Min (α : Type) where
  min : α → α → α
export Min (min)
class Max (α : Type) where
  max : α → α → α
export Max (max)
/-- `Ord::min(a, b)`: `b` if `a > b`, else `a`;  `Ord::max(a, b)`: `a` if `a > b`, else `b` -/
instance : Min Int64 := ⟨fun a b => if a.toInt > b.toInt then b else a⟩
instance : Max Int64 := ⟨fun a b => if a.toInt > b.toInt then a else b⟩

/-- `Vec::new()` -/
def Vec.new : List α := []
/-- `String::with_capacity(n)` -/
def String.with_capacity (_ : Nat) : Str := []
/-- `String::push_str` (`&mut self`: the new string) -/
def push_str (s t : Str) : Str := s ++ t

/-! ### `std` on `i64` / `usize` / `u64`: Int range arithmetic on `Int64.toInt` -/

/-- `i64::checked_add` … : `None` when the exact result does not fit -/
def i64_checked_add (a b : Int64) : Option Int64 := i64Of (a.toInt + b.toInt)
def i64_checked_sub (a b : Int64) : Option Int64 := i64Of (a.toInt - b.toInt)
def i64_checked_mul (a b : Int64) : Option Int64 := i64Of (a.toInt * b.toInt)
def i64_checked_neg (a : Int64) : Option Int64 := i64Of (-a.toInt)
def i64_checked_abs (a : Int64) : Option Int64 := i64Of a.toInt.natAbs
/-- `i64::checked_div`: `None` for a zero divisor and on overflow (`MIN / -1`); truncating division -/
def i64_checked_div (a b : Int64) : Option Int64 :=
  if b.toInt == 0 then none else i64Of (a.toInt.tdiv b.toInt)
/-- `i64::checked_rem`: `None` for a zero divisor and for `MIN % -1` -/
def i64_checked_rem (a b : Int64) : Option Int64 :=
  if b.toInt == 0 then none
  else if a.toInt == -2 ^ 63 && b.toInt == -1 then none
  else i64Of (a.toInt.tmod b.toInt)
/-- `BitAnd::bitand`, `BitOr::bitor`, `BitXor::bitxor`, `Not::not` on `i64` -/
def bitand (a b : Int64) : Int64 := a &&& b
def bitor (a b : Int64) : Int64 := a ||| b
def bitxor (a b : Int64) : Int64 := a ^^^ b
def bitnot (a : Int64) : Int64 := ~~~a

/-- `x as T` between numeric types -/
class Cast (α β : Type) where
  cast : α → β
export Cast (cast)
/-- `i64 as f64`: nearest float -/
instance : Cast Int64 Float := ⟨Int64.toFloat⟩
/-- `f64 as i64`: truncating, saturating, NaN ↦ 0 -/
instance : Cast Float Int64 := ⟨Float.toInt64⟩
/-- `i64 as u64`: two's complement reinterpretation -/
instance : Cast Int64 UInt64 := ⟨Int64.toUInt64⟩
/-- `i64 as u32`: the low 32 bits -/
instance : Cast Int64 UInt32 := ⟨fun x => x.toUInt64.toUInt32⟩
/-- `i64::wrapping_shl(n)` / `wrapping_shr(n)`: shift by `n mod 64` (arithmetic shift to the right) -/
def i64_wrapping_shl (a : Int64) (n : UInt32) : Int64 := ⟨⟨a.toBitVec <<< (n.toNat % 64)⟩⟩
def i64_wrapping_shr (a : Int64) (n : UInt32) : Int64 := ⟨⟨a.toBitVec.sshiftRight (n.toNat % 64)⟩⟩

/-- `TryFrom`/`TryInto` between integer types: the error value carries no information -/
class TryInto (α β : Type) where
  try_into : α → Except Unit β
export TryInto (try_into)
/-- `usize → i64` -/
instance : TryInto Nat Int64 := ⟨fun n => if n < 2 ^ 63 then .ok (Int64.ofInt n) else .error ()⟩
/-- `u64 → usize` (64-bit platform: always fits) -/
instance : TryInto UInt64 Nat := ⟨fun n => .ok n.toNat⟩
/-- `Result::map_err` -/
def map_err (r : Except ε α) (f : ε → ε') : Except ε' α :=
  match r with
  | .ok a => .ok a
  | .error e => .error (f e)
/-- `Option::ok_or_else` -/
def ok_or_else (o : Option α) (f : Unit → ε) : Except ε α :=
  match o with
  | some a => .ok a
  | none => .error (f ())

/-! ### operators on the primitive types -/

/-- `==` (`PartialEq`); `!=` is its negation -/
class PEq (α : Type) where
  eq : α → α → Bool
export PEq (eq)
instance : PEq Nat := ⟨fun a b => a == b⟩
instance : PEq Bool := ⟨fun a b => a == b⟩
/-- `str == str` -/
instance : PEq Str := ⟨fun a b => a == b⟩
instance : PEq Char := ⟨fun a b => a == b⟩
/-- the derived `PartialEq for Token` / `PartialToken`: same variant and equal payloads (IEEE `==` on floats) -/
def tokenTag : Token → Nat
  | .plus => 0
  | .minus => 1
  | .star => 2
  | .slash => 3
  | .percent => 4
  | .hat => 5
  | .eq => 6
  | .neq => 7
  | .gt => 8
  | .lt => 9
  | .geq => 10
  | .leq => 11
  | .and => 12
  | .or => 13
  | .not => 14
  | .lBrace => 15
  | .rBrace => 16
  | .assign => 17
  | .plusAssign => 18
  | .minusAssign => 19
  | .starAssign => 20
  | .slashAssign => 21
  | .percentAssign => 22
  | .hatAssign => 23
  | .andAssign => 24
  | .orAssign => 25
  | .comma => 26
  | .semicolon => 27
  | .identifier _ => 100 | .float _ => 101 | .int _ => 102 | .boolean _ => 103 | .string _ => 104
def tokenBeq : Token → Token → Bool
  | .identifier a, .identifier b => a == b
  | .float a, .float b => a == b
  | .int a, .int b => a == b
  | .boolean a, .boolean b => a == b
  | .string a, .string b => a == b
  | a, b => tokenTag a < 100 && tokenTag a == tokenTag b
instance : PEq Token := ⟨tokenBeq⟩
instance : PEq PartialToken := ⟨fun a b => match a, b with
  | .plus, .plus | .minus, .minus | .star, .star | .slash, .slash | .percent, .percent | .hat, .hat
  | .whitespace, .whitespace | .eq, .eq | .exclamationMark, .exclamationMark | .gt, .gt | .lt, .lt
  | .ampersand, .ampersand | .verticalBar, .verticalBar => true
  | .literal x, .literal y => x == y
  | .token x, .token y => tokenBeq x y
  | _, _ => false⟩
/-- the derived `PartialEq for Value` (not a function body: mapped to the Model) -/
instance : PEq Value := ⟨Value.beq⟩
instance : PEq ValueType := ⟨fun a b => a == b⟩
def ne [PEq α] (a b : α) : Bool := !eq a b

/-- `<`, `<=`, `>`, `>=` (`PartialOrd`) -/
class POrd (α : Type) where
  lt : α → α → Bool
  le : α → α → Bool
  gt : α → α → Bool
  ge : α → α → Bool
export POrd (lt le gt ge)
/-- `String`: lexicographic on bytes = lexicographic on code points -/
instance : POrd Str := ⟨fun a b => strLt a b, fun a b => !strLt b a, fun a b => strLt b a, fun a b => !strLt a b⟩
instance : POrd Int64 :=
  ⟨fun a b => a.toInt < b.toInt, fun a b => a.toInt ≤ b.toInt, fun a b => a.toInt > b.toInt, fun a b => a.toInt ≥ b.toInt⟩
/-- `f64`: IEEE comparisons (all false on NaN) -/
instance : POrd Float := ⟨fun a b => a < b, fun a b => a ≤ b, fun a b => a > b, fun a b => a ≥ b⟩
instance : POrd Nat := ⟨fun a b => a < b, fun a b => a ≤ b, fun a b => a > b, fun a b => a ≥ b⟩

/-- `+` -/
class Add (α : Type) where
  add : α → α → α
export Add (add)
instance : Add Float := ⟨fun a b => a + b⟩
instance : Add Nat := ⟨fun a b => a + b⟩
/-- `-`, `*`, `/`, `%`, unary `-` on `f64` -/
class Arith (α : Type) where
  sub : α → α → α
  mul : α → α → α
  div : α → α → α
  rem : α → α → α
  neg : α → α
export Arith (sub mul div rem neg)
instance : Arith Float := ⟨fun a b => a - b, fun a b => a * b, fun a b => a / b, F64.fmod, fun a => -a⟩

/-- `!` on `bool` -/
def not (a : Bool) : Bool := !a

/-! ### the context (`&C`, `&mut C` with `C : Context`) -/

/-- `context.get_value(id)` -/
def ctx_get_value (id : Str) : M ρ (Option Value) := fun s => (.val (s.ctx.getValue id), s)

/-- `context.call_function(id, arg)`: the context's own (user) function; the call is logged
like `Model.callFunction` does -/
def ctx_call_function (id : Str) (arg : Value) : M ρ (Res Value) := fun s =>
  match s.ctx.userFn id with
  | some f => (.val (f arg), { s with log := s.log ++ [(id, arg)] })
  | none => (.val (.error (.functionIdentifierNotFound id)), s)

/-- `context.are_builtin_functions_disabled()` -/
def ctx_are_builtin_functions_disabled : M ρ Bool := fun s => (.val s.ctx.builtinsDisabled, s)

/-- `context.set_value(id, v)` -/
def ctx_set_value (id : Str) (v : Value) : M ρ (Res Unit) := fun s =>
  match setValue s id v with
  | (r, s) => (.val r, s)

/-! ## ---- tree-builder extension (T2): divergence, loops, `&mut` out-values, places, `Vec` stack vocabulary ---- -/

/-! ### may-diverge computations

A function whose body contains a `loop` / `while` (or that is recursive outside the `for child in children`
pattern, or that calls such a function) is translated to an `Option`-valued definition: `none` is divergence.
Its body is an expression of `D ρ`; a loop body is an expression of `L ρ σ` (σ: the tuple of the local
variables the loop assigns), which adds the two loop exits `break` / `continue`. No termination argument
is needed to define the translation (`partial_fixpoint`); that the result is `some _` is a theorem of the
agreement proofs. -/

/-- outcome of a statement inside a loop body: a value, an early `return`, `break`, `continue` (the
last two carry the current values of the loop's variables) -/
inductive LFlow (ρ σ α : Type) where
  | val (a : α)
  | ret (r : ρ)
  | brk (s : σ)
  | cont (s : σ)

/-- expressions of a function that may diverge: `none` = divergence -/
def D (ρ α : Type) : Type := Option (Flow ρ α)
/-- expressions of a loop body (inside a function that may diverge) -/
def L (ρ σ α : Type) : Type := Option (LFlow ρ σ α)

instance : Monad (D ρ) where
  pure a := some (.val a)
  bind x f := match x with
    | none => none
    | some (.val a) => f a
    | some (.ret r) => some (.ret r)

instance : Monad (L ρ σ) where
  pure a := some (.val a)
  bind x f := match x with
    | none => none
    | some (.val a) => f a
    | some (.ret r) => some (.ret r)
    | some (.brk s) => some (.brk s)
    | some (.cont s) => some (.cont s)

/-- the function boundary of a function that may diverge -/
def D.run : D ρ ρ → Option ρ
  | none => none
  | some f => some f.run

instance : MonadFlow ρ (D ρ) := ⟨fun x => some x⟩
instance : MonadFlow ρ (L ρ σ) := ⟨fun x => match x with
  | .val a => some (.val a)
  | .ret r => some (.ret r)⟩

/-- monads in which a may-diverge computation can run: function bodies (`D`) and loop bodies (`L`) -/
class MonadD (ρ : outParam Type) (m : Type → Type) where
  liftD : D ρ α → m α
export MonadD (liftD)
instance : MonadD ρ (D ρ) := ⟨fun x => x⟩
instance : MonadD ρ (L ρ σ) := ⟨fun x => match x with
  | none => none
  | some (.val a) => some (.val a)
  | some (.ret r) => some (.ret r)⟩

/-- calling a function that may diverge: its divergence is the caller's -/
def callD [MonadD ρ m] (o : Option α) : m α :=
  liftD (match o with
    | none => (none : D ρ α)
    | some a => some (.val a))

/-- `break` -/
def brk (s : σ) : L ρ σ α := some (.brk s)
/-- `continue` -/
def cont (s : σ) : L ρ σ α := some (.cont s)

section order
open Lean.Order

instance : PartialOrder (D ρ α) := inferInstanceAs (PartialOrder (Option (Flow ρ α)))
instance : CCPO (D ρ α) := inferInstanceAs (CCPO (Option (Flow ρ α)))
instance : PartialOrder (L ρ σ α) := inferInstanceAs (PartialOrder (Option (LFlow ρ σ α)))
instance : CCPO (L ρ σ α) := inferInstanceAs (CCPO (Option (LFlow ρ σ α)))

instance : MonoBind (D ρ) where
  bind_mono_left h := by
    cases h
    · exact FlatOrder.rel.bot
    · exact FlatOrder.rel.refl
  bind_mono_right {_ _ a _ _} h := by
    rcases a with _ | _ | _
    · exact FlatOrder.rel.refl
    · exact h _
    · exact FlatOrder.rel.refl

instance : MonoBind (L ρ σ) where
  bind_mono_left h := by
    cases h
    · exact FlatOrder.rel.bot
    · exact FlatOrder.rel.refl
  bind_mono_right {_ _ a _ _} h := by
    rcases a with _ | _ | _ | _ | _
    · exact FlatOrder.rel.refl
    · exact h _
    all_goals exact FlatOrder.rel.refl

@[partial_fixpoint_monotone]
theorem D.monotone_run {γ : Sort w} [PartialOrder γ] (f : γ → D ρ ρ) (h : monotone f) :
    monotone (fun x => D.run (f x)) := by
  intro a b hab
  have h' : f a ⊑ f b := h a b hab
  show D.run (f a) ⊑ D.run (f b)
  generalize f a = x at h' ⊢; generalize f b = y at h' ⊢
  cases h' with
  | bot => exact FlatOrder.rel.bot
  | refl => exact FlatOrder.rel.refl

@[partial_fixpoint_monotone]
theorem monotone_callD_D {γ : Sort w} [PartialOrder γ] (f : γ → Option α) (h : monotone f) :
    monotone (fun x => (callD (f x) : D ρ α)) := by
  intro a b hab
  have h' : f a ⊑ f b := h a b hab
  show (callD (f a) : D ρ α) ⊑ callD (f b)
  generalize f a = x at h' ⊢; generalize f b = y at h' ⊢
  cases h' with
  | bot => exact FlatOrder.rel.bot
  | refl => exact FlatOrder.rel.refl

@[partial_fixpoint_monotone]
theorem monotone_callD_L {γ : Sort w} [PartialOrder γ] (f : γ → Option α) (h : monotone f) :
    monotone (fun x => (callD (f x) : L ρ σ α)) := by
  intro a b hab
  have h' : f a ⊑ f b := h a b hab
  show (callD (f a) : L ρ σ α) ⊑ callD (f b)
  generalize f a = x at h' ⊢; generalize f b = y at h' ⊢
  cases h' with
  | bot => exact FlatOrder.rel.bot
  | refl => exact FlatOrder.rel.refl

end order

/-- `loop { body }` (also `while c { b }` = `loop { if c { b } else { break } }` and
`while let P = e { b }` = `loop { match e { P => b, _ => break } }`): run the body on the current values of
the loop's variables until it breaks (value: the final values) or returns; falling off the end of the body and
`continue` start the next pass. A loop that never exits has no value: `none`. -/
def loopFix (body : σ → L ρ σ σ) (st : σ) : D ρ σ :=
  match body st with
  | none => none
  | some (.ret r) => some (.ret r)
  | some (.brk s) => some (.val s)
  | some (.val s) => loopFix body s
  | some (.cont s) => loopFix body s
partial_fixpoint

/-- peekable iteration: `let mut it = xs.iter().peekable(); while let Some(x) = it.next() { … it.peek() … }`
is the iteration over the list with one element of lookahead (`next` = the element `it.peek()` would return) -/
def forPeek (l : List α) (st : σ) (body : α → Option α → σ → L ρ σ σ) : D ρ σ :=
  match l with
  | [] => some (.val st)
  | a :: l =>
    match body a l.head? st with
    | none => none
    | some (.ret r) => some (.ret r)
    | some (.brk s) => some (.val s)
    | some (.val s) => forPeek l s body
    | some (.cont s) => forPeek l s body

/-- a call of a may-diverge function from a function that is translated as total (table `CONVERGED_CALLS` of
translate_fn.py): divergence of the callee is the designated outcome `panic "<callee>: diverges"`, which no
Model function produces — agreement with the Model therefore includes termination of the callee. -/
def converged (site : Str) (o : Option (Res α)) : Res α :=
  match o with
  | some r => r
  | none => .error (.panic site)

/-- the fuel handed to a fuel-indexed translated function (table `FUEL_CALLS` of translate_fn.py) by a caller that is translated
as total: the number of characters of the string argument, plus one. Not trusted to suffice: too little fuel is the callee's
out-of-fuel panic, which no Model function produces — the caller's agreement theorem proves that it does suffice. -/
def fuel_chars (s : Str) : Nat := s.length + 1

/-! ### functions with `&mut` parameters / `&mut self` that return a `Result`

Such a function returns the pair (result, final values of the `&mut` places): `ρ = Res β × ω`. An early
exit (`?`, a panic) returns the CURRENT values of the places next to the error, like an explicit `return`. -/

/-- `e?` -/
def try_out [MonadFlow (Res β × ω) m] (e : Res α) (cur : ω) : m α :=
  MonadFlow.liftFlow (match e with
    | .ok a => Flow.val a
    | .error err => Flow.ret (.error err, cur))
/-- a panic -/
def panic_out [MonadFlow (Res β × ω) m] (site : Str) (cur : ω) : m α :=
  MonadFlow.liftFlow (Flow.ret (.error (.panic site), cur))
/-- `Option::unwrap` -/
def unwrap_out [MonadFlow (Res β × ω) m] (site : Str) (o : Option α) (cur : ω) : m α :=
  MonadFlow.liftFlow (match o with
    | some v => Flow.val v
    | none => Flow.ret (.error (.panic site), cur))
/-- `a[i]` -/
def index_out [MonadFlow (Res β × ω) m] (site : Str) (a : List α) (i : Nat) (cur : ω) : m α :=
  MonadFlow.liftFlow (match a[i]? with
    | some v => Flow.val v
    | none => Flow.ret (.error (.panic site), cur))

/-! ### `Vec` as a stack; places -/

instance : Len (List Node) := ⟨List.length⟩
instance : Len (List Token) := ⟨List.length⟩
/-- `Vec::pop` (`&mut self`): the popped element and the new vector -/
def pop (a : List α) : Option α × List α := (a.getLast?, a.dropLast)
/- (the write through a reference obtained from `v.last_mut()` is phase 4's `Rs.set_last`, defined above: `v.dropLast ++ [x]`) -/
/-- the write through `&mut v[i]` -/
def set_index (a : List α) (i : Nat) (x : α) : List α := a.set i x
/-- `Iterator::peekable`, `Option<&T>::copied` (identity, like `cloned`) -/
def copied {φ : Type} (a : φ) : φ := a

/-! ### derived `PartialEq` of `Operator` / `Token`, `mem::discriminant` -/

/-- `#[derive(PartialEq)]` on `Operator`: same variant, equal payloads (`Value`: `Value.beq`) -/
def Operator.peq (a b : Operator) : Bool :=
  match a, b with
  | .const x, .const y => Value.beq x y
  | .varWrite x, .varWrite y => x == y
  | .varRead x, .varRead y => x == y
  | .fn x, .fn y => x == y
  | _, _ => a.kind == b.kind
instance : PEq Operator := ⟨Operator.peq⟩

/- (the derived `PartialEq` of `Token` is phase 5's `Rs.tokenBeq` / `instance : PEq Token`, defined above) -/

/-- `==` on `Option<T>` -/
instance [PEq α] : PEq (Option α) := ⟨fun a b => match a, b with
  | some x, some y => eq x y
  | none, none => true
  | _, _ => false⟩

/-- `mem::discriminant` of an `Operator`: its variant (compared with `==`) -/
def discriminant (o : Operator) : OpKind := o.kind
instance : PEq OpKind := ⟨fun a b => a == b⟩

/-! ## ---- end of the tree-builder extension (T2) ---- -/

/-! ### phase 6 -/
/-- `Iterator::filter_map` (an iterator is the list of its items) -/
def filter_map (l : List α) (f : α → Option β) : List β := l.filterMap f

/-! ### phase 7 (`Display::fmt`) -/
/-- `for x in xs { body }` in a body without early exit: the left fold of the body over the loop state -/
def foldFor (l : List α) (init : σ) (f : α → σ → σ) : σ :=
  match l with
  | [] => init
  | a :: l => foldFor l (f a init) f
/-- termination measure of the recursive `Display::fmt` over `Value` (a proved fact, used by the generated `decreasing_by`) -/
theorem value_lt {v : Value} {t : List Value} (h : v ∈ t) : sizeOf v < sizeOf (Value.tuple t) := by
  have := List.sizeOf_lt_of_mem h
  simp
  omega

/-! ### phase 8 (serde, src/feature_serde/mod.rs) -/
/-- `E::custom(error)` for serde's `E: de::Error` (third-party, format-specific). ASSUMED: the serde error built by
`custom` is determined by its argument (serde documents `custom(msg: impl Display)` as "an error with the message
`msg`"); the Model keeps the argument itself — the `EvalexprError`, whose `Display` text (`Err.displayBuild`) is that
message — instead of choosing a concrete `E`. Nothing is assumed about `Deserializer::deserialize_str` beyond calling
`visit_str` with the string it decodes (that call is serde's, not translated). -/
def de_custom (e : Err) : Err := e

/-- an iterator struct (state `σ`, translated `Iterator::next : fuel → σ → Res (Option α × σ)`) used as `impl Iterator`:
the items `next` yields until it returns `None`; `.error (.panic …)` when `fuel` calls of `next` were not enough -/
def collect_iter (next : σ → Res (Option α × σ)) : Nat → σ → Res (List α)
  | 0, _ => .error (.panic cl!"impl Iterator: not exhausted within the fuel")
  | fuel + 1, s =>
    match next s with
    | .error e => .error e
    | .ok (none, _) => .ok []
    | .ok (some a, s') => (collect_iter next fuel s').map (a :: ·)

end Evalexpr.Rs
