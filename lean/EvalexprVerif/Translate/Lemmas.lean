/-
Translate/Lemmas.lean — proved facts about the vocabulary of Translate/Prelude.lean, used as a
simp set (`rs_simp`) by the agreement proofs `Proofs/AgreeFn*.lean` to execute generated bodies
symbolically where plain `rfl` is stuck on an observation of the state. Nothing here is trusted.
-/
import EvalexprVerif.Translate.Prelude

namespace Evalexpr.Rs

/-! ### `Flow` -/

@[simp] theorem Flow.pure_eq (a : α) : (pure a : Flow ρ α) = .val a := rfl
@[simp] theorem Flow.val_bind (a : α) (f : α → Flow ρ β) : (Flow.val a >>= f) = f a := rfl
@[simp] theorem Flow.ret_bind (r : ρ) (f : α → Flow ρ β) : ((Flow.ret r : Flow ρ α) >>= f) = .ret r := rfl
@[simp] theorem Flow.bind_assoc (x : Flow ρ α) (f : α → Flow ρ β) (g : β → Flow ρ γ) :
    ((x >>= f) >>= g) = (x >>= fun a => f a >>= g) := by cases x <;> rfl
@[simp] theorem Flow.run_val (a : ρ) : Flow.run (.val a : Flow ρ ρ) = a := rfl
@[simp] theorem Flow.run_ret (a : ρ) : Flow.run (.ret a : Flow ρ ρ) = a := rfl

@[simp] theorem ofErr_res (e : Err) : (ErrRet.ofErr e : Res β) = .error e := rfl
@[simp] theorem ofErr_loopOut [ErrRet ρ] (e : Err) : (ErrRet.ofErr e : LoopOut ρ σ) = .ret (ErrRet.ofErr e) := rfl
@[simp] theorem Flow.try_ok [ErrRet ρ] (a : α) : (Rs.try (.ok a) : Flow ρ α) = .val a := rfl
@[simp] theorem Flow.try_error [ErrRet ρ] (e : Err) : (Rs.try (.error e : Res α) : Flow ρ α) = .ret (ErrRet.ofErr e) := rfl
@[simp] theorem Flow.ret_def (r : ρ) : (Rs.ret r : Flow ρ α) = .ret r := rfl
@[simp] theorem Flow.panic_def [ErrRet ρ] (site : Str) : (Rs.panic site : Flow ρ α) = .ret (ErrRet.ofErr (.panic site)) := rfl
@[simp] theorem Flow.index_zero [ErrRet ρ] (site : Str) (a : α) (l : List α) : (index site (a :: l) 0 : Flow ρ α) = .val a := rfl
@[simp] theorem Flow.index_succ [ErrRet ρ] (site : Str) (a : α) (l : List α) (n : Nat) :
    (index site (a :: l) (n + 1) : Flow ρ α) = index site l n := by
  simp [index]
@[simp] theorem Flow.index_nil [ErrRet ρ] (site : Str) (n : Nat) :
    (index site ([] : List α) n : Flow ρ α) = .ret (ErrRet.ofErr (.panic site)) := rfl
@[simp] theorem Flow.swap_remove_def [ErrRet ρ] (site : Str) (l : List α) (n : Nat) :
    (swap_remove site l n : Flow ρ α) = index site l n := rfl

/-! ### `M`: everything is stated for `M.run (x >>= f) s` and `M.run x s` -/

theorem M.bind_def (x : M ρ α) (f : α → M ρ β) (s : St) :
    (x >>= f) s = match x s with
      | (.val a, s) => f a s
      | (.ret r, s) => (.ret r, s) := rfl

@[simp] theorem M.run_pure (a : ρ) (s : St) : M.run (pure a : M ρ ρ) s = (a, s) := rfl
@[simp] theorem M.run_pure_bind (a : α) (f : α → M ρ ρ) (s : St) : M.run (pure a >>= f) s = M.run (f a) s := rfl

@[simp] theorem M.run_bind_bind (x : M ρ α) (f : α → M ρ β) (g : β → M ρ ρ) (s : St) :
    M.run ((x >>= f) >>= g) s = M.run (x >>= fun a => f a >>= g) s := by
  simp only [M.run, M.bind_def]
  rcases x s with ⟨_ | _, _⟩ <;> rfl

@[simp] theorem M.run_ret (r : ρ) (s : St) : M.run (ret r : M ρ ρ) s = (r, s) := rfl
@[simp] theorem M.run_ret_bind (r : ρ) (f : α → M ρ ρ) (s : St) : M.run ((ret r : M ρ α) >>= f) s = (r, s) := rfl

@[simp] theorem M.run_try_ok (a : α) (f : α → M (Res β) (Res β)) (s : St) :
    M.run (Rs.try (.ok a) >>= f) s = M.run (f a) s := rfl
@[simp] theorem M.run_try_error (e : Err) (f : α → M (Res β) (Res β)) (s : St) :
    M.run (Rs.try (.error e : Res α) >>= f) s = (.error e, s) := rfl

@[simp] theorem M.run_panic (site : Str) (s : St) :
    M.run (panic site : M (Res β) (Res β)) s = (.error (.panic site), s) := rfl
@[simp] theorem M.run_panic_bind (site : Str) (f : α → M (Res β) (Res β)) (s : St) :
    M.run ((panic site : M (Res β) α) >>= f) s = (.error (.panic site), s) := rfl

@[simp] theorem M.run_index_zero_bind (site : Str) (a : α) (l : List α) (f : α → M (Res β) (Res β)) (s : St) :
    M.run (index site (a :: l) 0 >>= f) s = M.run (f a) s := rfl
@[simp] theorem M.run_index_succ_bind (site : Str) (a : α) (l : List α) (n : Nat) (f : α → M (Res β) (Res β)) (s : St) :
    M.run (index site (a :: l) (n + 1) >>= f) s = M.run (index site l n >>= f) s := by
  simp [index, M.run, M.bind_def]
@[simp] theorem M.run_index_nil_bind (site : Str) (n : Nat) (f : α → M (Res β) (Res β)) (s : St) :
    M.run (index site ([] : List α) n >>= f) s = (.error (.panic site), s) := rfl

@[simp] theorem M.run_unwrap_some_bind (site : Str) (a : α) (f : α → M (Res β) (Res β)) (s : St) :
    M.run (unwrap site (some a) >>= f) s = M.run (f a) s := rfl
@[simp] theorem M.run_unwrap_none_bind (site : Str) (f : α → M (Res β) (Res β)) (s : St) :
    M.run (unwrap site (none : Option α) >>= f) s = (.error (.panic site), s) := rfl

@[simp] theorem M.run_call (g : St → ρ × St) (s : St) : M.run (call g : M ρ ρ) s = g s := rfl
@[simp] theorem M.run_call_bind (g : St → α × St) (f : α → M ρ ρ) (s : St) :
    M.run (call g >>= f) s = M.run (f (g s).1) (g s).2 := rfl

@[simp] theorem M.run_ctx_get_value_bind (id : Str) (f : Option Value → M ρ ρ) (s : St) :
    M.run (ctx_get_value id >>= f) s = M.run (f (s.ctx.getValue id)) s := rfl
@[simp] theorem M.run_ctx_are_builtin_functions_disabled_bind (f : Bool → M ρ ρ) (s : St) :
    M.run (ctx_are_builtin_functions_disabled >>= f) s = M.run (f s.ctx.builtinsDisabled) s := rfl
@[simp] theorem M.run_ctx_set_value_bind (id : Str) (v : Value) (f : Res Unit → M ρ ρ) (s : St) :
    M.run (ctx_set_value id v >>= f) s = M.run (f (setValue s id v).1) (setValue s id v).2 := rfl
theorem M.run_ctx_call_function_bind (id : Str) (arg : Value) (f : Res Value → M ρ ρ) (s : St) :
    M.run (ctx_call_function id arg >>= f) s =
      match s.ctx.userFn id with
      | some g => M.run (f (g arg)) { s with log := s.log ++ [(id, arg)] }
      | none => M.run (f (.error (.functionIdentifierNotFound id))) s := by
  simp only [M.run, M.bind_def, ctx_call_function]
  cases s.ctx.userFn id <;> rfl

@[simp] theorem M.run_ite (c : Prop) [Decidable c] (x y : M ρ ρ) (s : St) :
    M.run (if c then x else y) s = if c then M.run x s else M.run y s := by
  split <;> rfl
@[simp] theorem M.run_ite_bind (c : Prop) [Decidable c] (x y : M ρ α) (f : α → M ρ ρ) (s : St) :
    M.run ((if c then x else y) >>= f) s = if c then M.run (x >>= f) s else M.run (y >>= f) s := by
  split <;> rfl

/-! ### loops -/

@[simp] theorem forIn_nil [Monad m] (init : σ) (f : α → σ → m σ) : forIn [] init f = pure init := rfl
@[simp] theorem forIn_cons [Monad m] (a : α) (l : List α) (init : σ) (f : α → σ → m σ) :
    forIn (a :: l) init f = f a init >>= fun s => forIn l s f := rfl

/-- evaluate the elements in order, stop at the first error -/
def seqList (ev : α → St → Res γ × St) : List α → St → Res (List γ) × St
  | [], s => (.ok [], s)
  | c :: cs, s => match ev c s with
    | (.error e, s) => (.error e, s)
    | (.ok v, s) => match seqList ev cs s with
      | (.error e, s) => (.error e, s)
      | (.ok vs, s) => (.ok (v :: vs), s)

/-- a loop whose body evaluates the element with `ev` (early return on error) and appends the value
to the loop state is the in-order list evaluator -/
theorem M.run_forIn_push_bind {α γ β : Type} (ev : α → St → Res γ × St)
    {p : α → Prop} (l : List {x // p x}) (F : {x // p x} → List γ → M (Res β) (List γ))
    (hF : ∀ x acc (k : List γ → M (Res β) (Res β)) s, M.run (F x acc >>= k) s =
      match ev x.1 s with
      | (.error e, s') => (.error e, s')
      | (.ok v, s') => M.run (k (acc ++ [v])) s')
    (acc : List γ) (k : List γ → M (Res β) (Res β)) (s : St) :
    M.run (forIn l acc F >>= k) s =
      match seqList ev (l.map (·.1)) s with
      | (.error e, s') => (.error e, s')
      | (.ok vs, s') => M.run (k (acc ++ vs)) s' := by
  induction l generalizing acc s with
  | nil => simp [seqList]
  | cons x l ih =>
    simp only [forIn_cons, List.map_cons, seqList, M.run_bind_bind, hF]
    generalize ev x.1 s = r
    rcases r with ⟨_ | v, s1⟩
    · rfl
    · simp only [ih]
      generalize seqList ev (List.map (·.1) l) s1 = r
      rcases r with ⟨_ | vs, s2⟩ <;> simp

/-- fold with early exit on error: the meaning of a loop whose body updates the loop state or returns an error -/
def foldE (step : α → σ → Except ε σ) : List α → σ → Except ε σ
  | [], s => .ok s
  | a :: l, s => match step a s with
    | .error e => .error e
    | .ok s' => foldE step l s'

/-- a loop (in a function without context) whose body is `step` is `foldE step` -/
theorem Flow.run_forIn_bind {α σ β : Type} (step : α → σ → Res σ) (l : List α) (F : α → σ → Flow (Res β) σ)
    (hF : ∀ x st (k : σ → Flow (Res β) (Res β)), Flow.run (F x st >>= k) =
      match step x st with
      | .error e => .error e
      | .ok st' => Flow.run (k st'))
    (st : σ) (k : σ → Flow (Res β) (Res β)) :
    Flow.run (forIn l st F >>= k) =
      match foldE step l st with
      | .error e => .error e
      | .ok st' => Flow.run (k st') := by
  induction l generalizing st with
  | nil => rfl
  | cons x l ih =>
    have hb : (forIn (x :: l) st F >>= k) = (F x st >>= fun s => forIn l s F >>= k) := by
      simp only [forIn_cons]
      cases F x st <;> rfl
    rw [hb, hF, foldE]
    generalize step x st = r
    rcases r with _ | st'
    · rfl
    · exact ih st'

/-- the result of a `loop`: what its body eventually returns, or the out-of-fuel panic -/
def loopRes (site : Str) : Nat → σ → (σ → Flow (Res β) σ) → Res β
  | 0, _, _ => .error (.panic site)
  | n + 1, s, f => match f s with
    | .val s' => loopRes site n s' f
    | .ret r => r

theorem loop_eq (site : Str) (n : Nat) (s : σ) (f : σ → Flow (Res β) σ) :
    (loop site n s f : Flow (Res β) α) = .ret (loopRes site n s f) := by
  induction n generalizing s with
  | zero => rfl
  | succ n ih =>
    rw [loop, loopRes]
    cases f s with
    | val s' => exact ih s'
    | ret r => rfl

theorem Flow.run_loop_bind (site : Str) (n : Nat) (s : σ) (f : σ → Flow (Res β) σ) (k : α → Flow (Res β) (Res β)) :
    Flow.run (loop site n s f >>= k) = loopRes site n s f := by
  rw [loop_eq]; rfl

@[simp] theorem last_concat (l : List α) (x : α) : last (l ++ [x]) = some x := by simp [last]
@[simp] theorem last_nil : last ([] : List α) = none := rfl
@[simp] theorem set_last_concat (l : List α) (x y : α) : set_last (l ++ [x]) y = l ++ [y] := by simp [set_last]
@[simp] theorem pop_back_concat (l : List α) (x : α) : pop_back (l ++ [x]) = l := by simp [pop_back]
@[simp] theorem iter_next_nil : iter_next ([] : List α) = (none, []) := rfl
@[simp] theorem iter_next_cons (a : α) (l : List α) : iter_next (a :: l) = (some a, l) := rfl
@[simp] theorem iter_def (l : List α) : iter l = l := rfl
@[simp] theorem Flow.unwrap_some [ErrRet ρ] (site : Str) (a : α) : (unwrap site (some a) : Flow ρ α) = .val a := rfl

/-! ### loops with `break` -/

theorem Flow.run_loopB_succ_bind [ErrRet ρ] (site : Str) (n : Nat) (s : σ) (f : σ → LoopOut ρ σ) (k : σ → Flow ρ ρ) :
    Flow.run (loopB site (n + 1) s f >>= k) =
      match f s with
      | .cont s' => Flow.run (loopB site n s' f >>= k)
      | .brk s' => Flow.run (k s')
      | .ret r => r := by
  rw [loopB]
  cases f s <;> rfl
theorem Flow.run_loopB_zero_bind [ErrRet ρ] (site : Str) (s : σ) (f : σ → LoopOut ρ σ) (k : σ → Flow ρ ρ) :
    Flow.run (loopB site 0 s f >>= k) = ErrRet.ofErr (.panic site) := rfl

/-- a `loopB` loop computes a recursively specified value `spec`: every run of the body from a state `s` (with measure
below `bound`, e.g. the fuel the body passes to the functions it calls) either continues in a state of smaller measure
and the same `spec`, or breaks / returns with what `spec s` says. Then enough fuel (`measure s < fuel`) gives `spec s`. -/
theorem Flow.run_loopB_spec {σ ρ : Type} [ErrRet ρ] (site : Str) (f : σ → LoopOut ρ σ) (k : σ → Flow ρ ρ)
    (measure : σ → Nat) (spec : σ → ρ) (bound : Nat)
    (hstep : ∀ s, measure s < bound → match f s with
      | .cont s' => measure s' < measure s ∧ spec s = spec s'
      | .brk s' => spec s = Flow.run (k s')
      | .ret r => spec s = r) :
    ∀ (fuel : Nat) (s : σ), measure s < fuel → measure s < bound →
      Flow.run (loopB site fuel s f >>= k) = spec s := by
  intro fuel
  induction fuel with
  | zero => intro s h; cases h
  | succ n ih =>
    intro s h hb
    rw [Flow.run_loopB_succ_bind]
    have hs := hstep s hb
    cases hfs : f s with
    | cont s' =>
      rw [hfs] at hs
      simp only
      rw [ih s' (by omega) (by omega)]
      exact hs.2.symm
    | brk s' => rw [hfs] at hs; exact hs.symm
    | ret r => rw [hfs] at hs; exact hs.symm

@[simp] theorem Flow.slice_from_def [ErrRet ρ] (site : Str) (v : List α) (a : Nat) :
    (slice_from site v a : Flow ρ (List α)) =
      if a ≤ v.length then .val (v.drop a) else .ret (ErrRet.ofErr (.panic site)) := rfl
@[simp] theorem extend_def (v : List α) (o : Option α) : extend v o = v ++ o.toList := rfl
@[simp] theorem peek_nil : peek ([] : List α) = none := rfl
@[simp] theorem peek_cons (a : α) (l : List α) : peek (a :: l) = some a := rfl
@[simp] theorem chars_def (s : Str) : chars s = s := rfl
@[simp] theorem eq_char (a b : Char) : eq a b = (a == b) := rfl
@[simp] theorem to_string_char (c : Char) : to_string c = [c] := rfl
@[simp] theorem to_string_str (s : Str) : to_string s = s := rfl
@[simp] theorem push_str_def (s t : Str) : push_str s t = s ++ t := rfl
@[simp] theorem attach_ok (a : α) (st : σ) : attach (.ok a) st = .ok (a, st) := rfl
@[simp] theorem attach_error (e : Err) (st : σ) : attach (.error e : Res α) st = .error e := rfl
/-- the result vector of the lexer, seen from its end (the Model accumulates in reverse) -/
@[simp] theorem last_reverse (acc : List α) : last acc.reverse = acc.head? := by
  cases acc <;> simp [last]
@[simp] theorem push_reverse (acc : List α) (x : α) : push acc.reverse x = (x :: acc).reverse := by simp [push]
@[simp] theorem set_last_reverse (a : α) (acc : List α) (x : α) : set_last (a :: acc).reverse x = (x :: acc).reverse := by
  simp [set_last]

/-! ### the pure vocabulary -/

@[simp] theorem len_list (l : List Value) : len l = l.length := rfl
@[simp] theorem len_str (s : Str) : len s = utf8Len s := rfl
@[simp] theorem eq_nat (a b : Nat) : eq a b = (a == b) := rfl
@[simp] theorem eq_valueType (a b : ValueType) : eq a b = (a == b) := rfl
@[simp] theorem eq_value (a b : Value) : eq a b = Value.beq a b := rfl
@[simp] theorem ne_def [PEq α] (a b : α) : ne a b = !eq a b := rfl
@[simp] theorem clone_def (a : α) : clone a = a := rfl
@[simp] theorem cloned_def {φ : Type} (a : φ) : cloned a = a := rfl
@[simp] theorem not_def (a : Bool) : Rs.not a = !a := rfl
@[simp] theorem is_empty_def (l : List α) : is_empty l = l.isEmpty := rfl
@[simp] theorem first_def (l : List α) : first l = l.head? := rfl
theorem last_def (l : List α) : last l = l.getLast? := rfl
@[simp] theorem get_list (l : List α) (i : Nat) : get l i = l[i]? := rfl
@[simp] theorem get_map (m : List (Str × β)) (k : Str) : get m k = alookup k m := rfl
@[simp] theorem fn_call_user (f : UserFn) (a : Value) : fn_call f a = f a := rfl
@[simp] theorem unwrap_or_some (a d : α) : unwrap_or (some a) d = a := rfl
@[simp] theorem unwrap_or_none (d : α) : unwrap_or (none : Option α) d = d := rfl
@[simp] theorem map_res (r : Res α) (f : α → β) : map r f = Except.map f r := rfl
@[simp] theorem push_def (l : List α) (x : α) : push l x = l ++ [x] := rfl
@[simp] theorem Vec.new_def : (Vec.new : List α) = [] := rfl
@[simp] theorem into_list (l : List α) : (into l : List α) = l := rfl

/-! ## ---- tree-builder extension (T2): facts about `D`, `L`, loops, out-values, the `Vec` stack vocabulary ---- -/

/-! ### `D` (may-diverge function bodies) -/

@[simp] theorem D.pure_bind (a : α) (f : α → D ρ β) : (pure a >>= f) = f a := rfl
@[simp] theorem D.ret_bind (r : ρ) (f : α → D ρ β) : ((ret r : D ρ α) >>= f) = ret r := rfl
@[simp] theorem D.none_bind (f : α → D ρ β) : bind (m := D ρ) (none : Option (Flow ρ α)) f = (none : Option (Flow ρ β)) := rfl
@[simp] theorem D.bind_assoc (x : D ρ α) (f : α → D ρ β) (g : β → D ρ γ) :
    ((x >>= f) >>= g) = (x >>= fun a => f a >>= g) := by
  rcases x with _ | _ | _ <;> rfl
@[simp] theorem D.run_pure (a : ρ) : D.run (pure a : D ρ ρ) = some a := rfl
@[simp] theorem D.run_ret (a : ρ) : D.run (ret a : D ρ ρ) = some a := rfl
@[simp] theorem D.run_none : D.run (none : D ρ ρ) = none := rfl
@[simp] theorem D.ite_bind (c : Prop) [Decidable c] (x y : D ρ α) (f : α → D ρ β) :
    ((if c then x else y) >>= f) = if c then x >>= f else y >>= f := by
  split <;> rfl

@[simp] theorem D.try_ok (a : α) : (Rs.try (.ok a) : D (Res β) α) = pure a := rfl
@[simp] theorem D.try_error (e : Err) : (Rs.try (.error e : Res α) : D (Res β) α) = ret (.error e) := rfl
@[simp] theorem D.try_out_ok (a : α) (cur : ω) : (try_out (.ok a) cur : D (Res β × ω) α) = pure a := rfl
@[simp] theorem D.try_out_error (e : Err) (cur : ω) :
    (try_out (.error e : Res α) cur : D (Res β × ω) α) = ret (.error e, cur) := rfl
@[simp] theorem D.unwrap_some (site : Str) (a : α) : (unwrap site (some a) : D (Res β) α) = pure a := rfl
@[simp] theorem D.unwrap_none (site : Str) : (unwrap site (none : Option α) : D (Res β) α) = ret (.error (.panic site)) := rfl
@[simp] theorem D.unwrap_out_some (site : Str) (a : α) (cur : ω) :
    (unwrap_out site (some a) cur : D (Res β × ω) α) = pure a := rfl
@[simp] theorem D.unwrap_out_none (site : Str) (cur : ω) :
    (unwrap_out site (none : Option α) cur : D (Res β × ω) α) = ret (.error (.panic site), cur) := rfl
@[simp] theorem D.panic_def (site : Str) : (panic site : D (Res β) α) = ret (.error (.panic site)) := rfl
@[simp] theorem D.panic_out_def (site : Str) (cur : ω) :
    (panic_out site cur : D (Res β × ω) α) = ret (.error (.panic site), cur) := rfl
@[simp] theorem D.callD_some (a : α) : (callD (some a) : D ρ α) = pure a := rfl
@[simp] theorem D.callD_none : (callD (none : Option α) : D ρ α) = none := rfl
@[simp] theorem D.liftD_def (x : D ρ α) : (liftD x : D ρ α) = x := rfl

/-! ### `L` (loop bodies) -/

@[simp] theorem L.pure_bind (a : α) (f : α → L ρ σ β) : (pure a >>= f) = f a := rfl
@[simp] theorem L.ret_bind (r : ρ) (f : α → L ρ σ β) : ((ret r : L ρ σ α) >>= f) = ret r := rfl
@[simp] theorem L.brk_bind (s : σ) (f : α → L ρ σ β) : ((brk s : L ρ σ α) >>= f) = brk s := rfl
@[simp] theorem L.cont_bind (s : σ) (f : α → L ρ σ β) : ((cont s : L ρ σ α) >>= f) = cont s := rfl
@[simp] theorem L.none_bind (f : α → L ρ σ β) : bind (m := L ρ σ) (none : Option (LFlow ρ σ α)) f = (none : Option (LFlow ρ σ β)) := rfl
@[simp] theorem L.bind_assoc (x : L ρ σ α) (f : α → L ρ σ β) (g : β → L ρ σ γ) :
    ((x >>= f) >>= g) = (x >>= fun a => f a >>= g) := by
  rcases x with _ | _ | _ | _ | _ <;> rfl
@[simp] theorem L.ite_bind (c : Prop) [Decidable c] (x y : L ρ σ α) (f : α → L ρ σ β) :
    ((if c then x else y) >>= f) = if c then x >>= f else y >>= f := by
  split <;> rfl

@[simp] theorem L.try_ok (a : α) : (Rs.try (.ok a) : L (Res β) σ α) = pure a := rfl
@[simp] theorem L.try_error (e : Err) : (Rs.try (.error e : Res α) : L (Res β) σ α) = ret (.error e) := rfl
@[simp] theorem L.try_out_ok (a : α) (cur : ω) : (try_out (.ok a) cur : L (Res β × ω) σ α) = pure a := rfl
@[simp] theorem L.try_out_error (e : Err) (cur : ω) :
    (try_out (.error e : Res α) cur : L (Res β × ω) σ α) = ret (.error e, cur) := rfl
@[simp] theorem L.unwrap_some (site : Str) (a : α) : (unwrap site (some a) : L (Res β) σ α) = pure a := rfl
@[simp] theorem L.unwrap_none (site : Str) : (unwrap site (none : Option α) : L (Res β) σ α) = ret (.error (.panic site)) := rfl
@[simp] theorem L.unwrap_out_some (site : Str) (a : α) (cur : ω) :
    (unwrap_out site (some a) cur : L (Res β × ω) σ α) = pure a := rfl
@[simp] theorem L.unwrap_out_none (site : Str) (cur : ω) :
    (unwrap_out site (none : Option α) cur : L (Res β × ω) σ α) = ret (.error (.panic site), cur) := rfl
@[simp] theorem L.panic_def (site : Str) : (panic site : L (Res β) σ α) = ret (.error (.panic site)) := rfl
@[simp] theorem L.panic_out_def (site : Str) (cur : ω) :
    (panic_out site cur : L (Res β × ω) σ α) = ret (.error (.panic site), cur) := rfl
@[simp] theorem L.callD_some (a : α) : (callD (some a) : L ρ σ α) = pure a := rfl
@[simp] theorem L.callD_none : (callD (none : Option α) : L ρ σ α) = none := rfl
@[simp] theorem L.liftD_pure (a : α) : (liftD (pure a : D ρ α) : L ρ σ α) = pure a := rfl
@[simp] theorem L.liftD_ret (r : ρ) : (liftD (ret r : D ρ α) : L ρ σ α) = ret r := rfl
@[simp] theorem L.liftD_none : (liftD (none : D ρ α) : L ρ σ α) = none := rfl

@[simp] theorem L.pure_inj (a b : α) : ((pure a : L ρ σ α) = pure b) ↔ a = b := by
  constructor
  · intro h; injection h with h; injection h
  · rintro rfl; rfl
@[simp] theorem L.ret_inj (a b : ρ) : ((ret a : L ρ σ α) = ret b) ↔ a = b := by
  constructor
  · intro h; injection h with h; injection h
  · rintro rfl; rfl
@[simp] theorem L.pure_ne_ret (a : α) (r : ρ) : ((pure a : L ρ σ α) = ret r) ↔ False := by
  constructor
  · intro h; injection h with h; cases h
  · exact False.elim
@[simp] theorem L.ret_ne_pure (a : α) (r : ρ) : ((ret r : L ρ σ α) = pure a) ↔ False := by
  constructor
  · intro h; injection h with h; cases h
  · exact False.elim

/-! ### loops: one pass -/

/-- what a loop does with the outcome of one pass through its body -/
def loopStep (x : L ρ σ σ) (k : σ → D ρ σ) : D ρ σ :=
  match x with
  | none => none
  | some (.ret r) => some (.ret r)
  | some (.brk s) => some (.val s)
  | some (.val s) => k s
  | some (.cont s) => k s

theorem loopFix_unfold (body : σ → L ρ σ σ) (st : σ) : loopFix body st = loopStep (body st) (loopFix body) := by
  rw [loopFix.eq_1]
  generalize body st = x
  rcases x with _ | _ | _ | _ | _ <;> rfl
@[simp] theorem forPeek_nil (st : σ) (body : α → Option α → σ → L ρ σ σ) : forPeek [] st body = pure st := rfl
@[simp] theorem forPeek_cons (a : α) (l : List α) (st : σ) (body : α → Option α → σ → L ρ σ σ) :
    forPeek (a :: l) st body = loopStep (body a l.head? st) (fun s => forPeek l s body) := by
  rw [forPeek]
  generalize body a l.head? st = x
  rcases x with _ | _ | _ | _ | _ <;> rfl

@[simp] theorem loopStep_pure (s : σ) (k : σ → D ρ σ) : loopStep (pure s) k = k s := rfl
@[simp] theorem loopStep_cont (s : σ) (k : σ → D ρ σ) : loopStep (cont s) k = k s := rfl
@[simp] theorem loopStep_brk (s : σ) (k : σ → D ρ σ) : loopStep (brk s) k = pure s := rfl
@[simp] theorem loopStep_ret (r : ρ) (k : σ → D ρ σ) : loopStep (ret r) k = ret r := rfl
@[simp] theorem loopStep_none (k : σ → D ρ σ) : loopStep (none : L ρ σ σ) k = none := rfl
@[simp] theorem loopStep_ite (c : Prop) [Decidable c] (x y : L ρ σ σ) (k : σ → D ρ σ) :
    loopStep (if c then x else y) k = if c then loopStep x k else loopStep y k := by
  split <;> rfl

/-- a loop whose body never exits has no value -/
theorem loopFix_diverges (st : σ) : loopFix (ρ := ρ) (fun s => pure s) st = none := by
  open Lean.Order in
  apply loopFix.fixpoint_induct (fun (s : σ) => (pure s : L ρ σ σ)) (motive := fun f => ∀ st, f st = none)
  · apply admissible_pi_apply (fun st (x : D ρ σ) => x = none)
    intro st
    exact admissible_flatOrder (b := (none : Option (Flow ρ σ))) _ rfl
  · intro f ih st
    exact ih st

@[simp] theorem converged_some (site : Str) (r : Res α) : converged site (some r) = r := rfl

/-! ### the `Vec` stack vocabulary -/

@[simp] theorem len_nodes (l : List Node) : len l = l.length := rfl
@[simp] theorem len_tokens (l : List Token) : len l = l.length := rfl
/-- `pop`, `last`, `set_last` are evaluated by the core simp lemmas about `getLast?` / `dropLast` -/
@[simp] theorem pop_def (a : List α) : pop a = (a.getLast?, a.dropLast) := rfl
theorem set_last_def (a : List α) (x : α) : set_last a x = a.dropLast ++ [x] := rfl

/-! ### comparisons (not global simp lemmas: the proofs of the tree builder enable them locally, `attribute [local simp]`) -/

theorem lt_nat (a b : Nat) : lt a b = decide (a < b) := rfl
theorem le_nat (a b : Nat) : le a b = decide (a ≤ b) := rfl
theorem gt_nat (a b : Nat) : gt a b = decide (a > b) := rfl
theorem ge_nat (a b : Nat) : ge a b = decide (a ≥ b) := rfl
theorem eq_option_some [PEq α] (a b : α) : eq (some a) (some b) = eq a b := rfl
theorem eq_option_none_some [PEq α] (b : α) : eq (none : Option α) (some b) = false := rfl
theorem eq_option_some_none [PEq α] (a : α) : eq (some a) (none : Option α) = false := rfl
theorem eq_option_none [PEq α] : eq (none : Option α) none = true := rfl
@[simp] theorem eq_discriminant (a b : Operator) : eq (discriminant a) (discriminant b) = (a.kind == b.kind) := rfl
@[simp] theorem eq_operator_rootNode (o : Operator) : eq o Operator.rootNode = (o.kind == .rootNode) := by
  cases o <;> rfl
theorem eq_operator_kind {a b : Operator} (h : eq a b = true) : a.kind = b.kind := by
  cases a <;> cases b <;> first | rfl | cases h
@[simp] theorem eq_token_not (t : Token) : eq t Token.not = t.isNot := by
  cases t <;> rfl
@[simp] theorem eq_token_lBrace (t : Token) : eq t Token.lBrace = t.isLBrace := by
  cases t <;> rfl

/-! ### peekable iteration against a Model fold -/

/-- two errors agree up to the site string of a panic (the translator names panic sites after the Rust function and construct,
the Model after what it models) -/
def ErrSim (e' e : Err) : Prop := e' = e ∨ (e'.isPanic = true ∧ e.isPanic = true)
/-- two results agree up to the site string of a panic -/
def PanicEq (r' r : Res α) : Prop := r' = r ∨ (r'.isPanic = true ∧ r.isPanic = true)

theorem ErrSim.refl (e : Err) : ErrSim e e := .inl rfl
theorem PanicEq.refl (r : Res α) : PanicEq r r := .inl rfl
theorem PanicEq.of_errSim {e' e : Err} (h : ErrSim e' e) : PanicEq (.error e' : Res α) (.error e) := by
  rcases h with rfl | h
  · exact .inl rfl
  · exact .inr h
/-- if the Model's result is not a panic, agreement up to panic sites is equality -/
theorem PanicEq.eq_of_noPanic {r' r : Res α} (h : PanicEq r' r) (hn : r.isPanic = false) : r' = r := by
  rcases h with h | ⟨_, h⟩
  · exact h
  · rw [hn] at h; cases h

/-- the Model shape of a `while let Some(x) = it.next()` loop with lookahead: fold the step function over the list, stop at the
first error -/
def foldPeek (step : α → Option α → τ → Res τ) : List α → τ → Res τ
  | [], t => .ok t
  | a :: l, t =>
    match step a l.head? t with
    | .ok t' => foldPeek step l t'
    | .error e => .error e

/-- … followed by what comes after the loop -/
def foldPeekThen (step : α → Option α → τ → Res τ) (fin : τ → Res β) (l : List α) (t : τ) : Res β :=
  match foldPeek step l t with
  | .ok t' => fin t'
  | .error e => .error e

/-- one pass through a translated loop body `o` against the Model's step result `m`, on related states: a new related state,
or an early `return Err(e)` with the same error up to the panic site -/
def StepSim {σ τ β : Type} (R : σ → τ → Prop) (o : L (Res β) σ σ) (m : Res τ) : Prop :=
  match m with
  | .ok t' => ∃ s', o = pure s' ∧ R s' t'
  | .error e => ∃ e', o = ret (.error e') ∧ ErrSim e' e

@[simp] theorem StepSim_ok {σ τ β : Type} (R : σ → τ → Prop) (o : L (Res β) σ σ) (t' : τ) :
    StepSim R o (.ok t') ↔ ∃ s', o = pure s' ∧ R s' t' := Iff.rfl
@[simp] theorem StepSim_error {σ τ β : Type} (R : σ → τ → Prop) (o : L (Res β) σ σ) (e : Err) :
    StepSim (τ := τ) R o (.error e) ↔ ∃ e', o = ret (.error e') ∧ ErrSim e' e := Iff.rfl
/-- the first statement of a body replaced by an equal computation -/
theorem StepSim.bind_left {σ τ β γ : Type} {R : σ → τ → Prop} {x x' : L (Res β) σ γ} {k : γ → L (Res β) σ σ} {m : Res τ}
    (h : x = x') (h2 : StepSim R (x' >>= k) m) : StepSim R (x >>= k) m := h ▸ h2

/-- SIMULATION: if one pass through the translated loop body does what the Model's step function does (on related states: a
new related state, or an early `return Err(e)` with the same error up to the panic site), then the translated loop does what the
Model's fold does — in particular it terminates — and what follows the loop (`k`) can be compared on related states. -/
theorem run_forPeek_bind_sim {α σ τ β : Type} (R : σ → τ → Prop) (step : α → Option α → τ → Res τ) (fin : τ → Res β)
    {body : α → Option α → σ → L (Res β) σ σ} {k : σ → D (Res β) (Res β)} {l : List α} {s : σ} {t : τ}
    (hR : R s t)
    (hbody : ∀ a nxt s t, R s t → StepSim R (body a nxt s) (step a nxt t))
    (hk : ∀ s t, R s t → ∃ r, D.run (k s) = some r ∧ PanicEq r (fin t)) :
    ∃ r, D.run (forPeek l s body >>= k) = some r ∧ PanicEq r (foldPeekThen step fin l t) := by
  induction l generalizing s t with
  | nil => simpa [foldPeek, foldPeekThen] using hk s t hR
  | cons a l ih =>
    have hb := hbody a l.head? s t hR
    simp only [forPeek_cons, foldPeek, foldPeekThen] at ih ⊢
    cases hs : step a l.head? t with
    | ok t' =>
      rw [hs] at hb
      simp only [StepSim_ok] at hb
      obtain ⟨s', hs', hR'⟩ := hb
      simp only [hs', loopStep_pure]
      exact ih hR'
    | error e =>
      rw [hs] at hb
      simp only [StepSim_error] at hb
      obtain ⟨e', he', hsim⟩ := hb
      simp only [he', loopStep_ret, D.ret_bind, D.run_ret]
      exact ⟨_, rfl, PanicEq.of_errSim hsim⟩

/-! ## ---- end of the tree-builder extension (T2) ---- -/

end Evalexpr.Rs
