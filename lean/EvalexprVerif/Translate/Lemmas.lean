/-
Translate/Lemmas.lean — proved facts about the vocabulary of Translate/Prelude.lean, used as a
simp set (`rs_simp`) by the agreement proofs `Proofs/AgreeFn*.lean` to execute generated bodies
symbolically where plain `rfl` is stuck on an observation of the state. Nothing here is trusted.
-/
import EvalexprVerif.Translate.Prelude

namespace Evalexpr.Rs

/-! ### `Flow` -/

@[simp] theorem Flow.pure_eq (a : α) : (pure a : Flow ρ α) = .val a := rfl
@[simp] theorem Flow.val_bind (a : α) (f : α → Flow ρ β) : (Flow.val a >>= f) = f a := rfl
@[simp] theorem Flow.ret_bind (r : ρ) (f : α → Flow ρ β) : ((Flow.ret r : Flow ρ α) >>= f) = .ret r := rfl
@[simp] theorem Flow.run_val (a : ρ) : Flow.run (.val a : Flow ρ ρ) = a := rfl
@[simp] theorem Flow.run_ret (a : ρ) : Flow.run (.ret a : Flow ρ ρ) = a := rfl

@[simp] theorem Flow.try_ok (a : α) : (Rs.try (.ok a) : Flow (Res β) α) = .val a := rfl
@[simp] theorem Flow.try_error (e : Err) : (Rs.try (.error e : Res α) : Flow (Res β) α) = .ret (.error e) := rfl
@[simp] theorem Flow.ret_def (r : ρ) : (Rs.ret r : Flow ρ α) = .ret r := rfl
@[simp] theorem Flow.panic_def (site : Str) : (Rs.panic site : Flow (Res β) α) = .ret (.error (.panic site)) := rfl
@[simp] theorem Flow.index_zero (site : Str) (a : α) (l : List α) : (index site (a :: l) 0 : Flow (Res β) α) = .val a := rfl
@[simp] theorem Flow.index_succ (site : Str) (a : α) (l : List α) (n : Nat) :
    (index site (a :: l) (n + 1) : Flow (Res β) α) = index site l n := by
  simp [index]
@[simp] theorem Flow.index_nil (site : Str) (n : Nat) :
    (index site ([] : List α) n : Flow (Res β) α) = .ret (.error (.panic site)) := rfl
@[simp] theorem Flow.swap_remove_def (site : Str) (l : List α) (n : Nat) :
    (swap_remove site l n : Flow (Res β) α) = index site l n := rfl

/-! ### `M`: everything is stated for `M.run (x >>= f) s` and `M.run x s` -/

theorem M.bind_def (x : M ρ α) (f : α → M ρ β) (s : St) :
    (x >>= f) s = match x s with
      | (.val a, s) => f a s
      | (.ret r, s) => (.ret r, s) := rfl

@[simp] theorem M.run_pure (a : ρ) (s : St) : M.run (pure a : M ρ ρ) s = (a, s) := rfl
@[simp] theorem M.run_pure_bind (a : α) (f : α → M ρ ρ) (s : St) : M.run (pure a >>= f) s = M.run (f a) s := rfl

@[simp] theorem M.run_bind_bind (x : M ρ α) (f : α → M ρ β) (g : β → M ρ ρ) (s : St) :
    M.run ((x >>= f) >>= g) s = M.run (x >>= fun a => f a >>= g) s := by
  simp only [M.run, M.bind_def]
  rcases x s with ⟨_ | _, _⟩ <;> rfl

@[simp] theorem M.run_ret (r : ρ) (s : St) : M.run (ret r : M ρ ρ) s = (r, s) := rfl
@[simp] theorem M.run_ret_bind (r : ρ) (f : α → M ρ ρ) (s : St) : M.run ((ret r : M ρ α) >>= f) s = (r, s) := rfl

@[simp] theorem M.run_try_ok (a : α) (f : α → M (Res β) (Res β)) (s : St) :
    M.run (Rs.try (.ok a) >>= f) s = M.run (f a) s := rfl
@[simp] theorem M.run_try_error (e : Err) (f : α → M (Res β) (Res β)) (s : St) :
    M.run (Rs.try (.error e : Res α) >>= f) s = (.error e, s) := rfl

@[simp] theorem M.run_panic (site : Str) (s : St) :
    M.run (panic site : M (Res β) (Res β)) s = (.error (.panic site), s) := rfl
@[simp] theorem M.run_panic_bind (site : Str) (f : α → M (Res β) (Res β)) (s : St) :
    M.run ((panic site : M (Res β) α) >>= f) s = (.error (.panic site), s) := rfl

@[simp] theorem M.run_index_zero_bind (site : Str) (a : α) (l : List α) (f : α → M (Res β) (Res β)) (s : St) :
    M.run (index site (a :: l) 0 >>= f) s = M.run (f a) s := rfl
@[simp] theorem M.run_index_succ_bind (site : Str) (a : α) (l : List α) (n : Nat) (f : α → M (Res β) (Res β)) (s : St) :
    M.run (index site (a :: l) (n + 1) >>= f) s = M.run (index site l n >>= f) s := by
  simp [index, M.run, M.bind_def]
@[simp] theorem M.run_index_nil_bind (site : Str) (n : Nat) (f : α → M (Res β) (Res β)) (s : St) :
    M.run (index site ([] : List α) n >>= f) s = (.error (.panic site), s) := rfl

@[simp] theorem M.run_unwrap_some_bind (site : Str) (a : α) (f : α → M (Res β) (Res β)) (s : St) :
    M.run (unwrap site (some a) >>= f) s = M.run (f a) s := rfl
@[simp] theorem M.run_unwrap_none_bind (site : Str) (f : α → M (Res β) (Res β)) (s : St) :
    M.run (unwrap site (none : Option α) >>= f) s = (.error (.panic site), s) := rfl

@[simp] theorem M.run_call (g : St → ρ × St) (s : St) : M.run (call g : M ρ ρ) s = g s := rfl
@[simp] theorem M.run_call_bind (g : St → α × St) (f : α → M ρ ρ) (s : St) :
    M.run (call g >>= f) s = M.run (f (g s).1) (g s).2 := rfl

@[simp] theorem M.run_ctx_get_value_bind (id : Str) (f : Option Value → M ρ ρ) (s : St) :
    M.run (ctx_get_value id >>= f) s = M.run (f (s.ctx.getValue id)) s := rfl
@[simp] theorem M.run_ctx_are_builtin_functions_disabled_bind (f : Bool → M ρ ρ) (s : St) :
    M.run (ctx_are_builtin_functions_disabled >>= f) s = M.run (f s.ctx.builtinsDisabled) s := rfl
@[simp] theorem M.run_ctx_set_value_bind (id : Str) (v : Value) (f : Res Unit → M ρ ρ) (s : St) :
    M.run (ctx_set_value id v >>= f) s = M.run (f (setValue s id v).1) (setValue s id v).2 := rfl
theorem M.run_ctx_call_function_bind (id : Str) (arg : Value) (f : Res Value → M ρ ρ) (s : St) :
    M.run (ctx_call_function id arg >>= f) s =
      match s.ctx.userFn id with
      | some g => M.run (f (g arg)) { s with log := s.log ++ [(id, arg)] }
      | none => M.run (f (.error (.functionIdentifierNotFound id))) s := by
  simp only [M.run, M.bind_def, ctx_call_function]
  cases s.ctx.userFn id <;> rfl

@[simp] theorem M.run_ite (c : Prop) [Decidable c] (x y : M ρ ρ) (s : St) :
    M.run (if c then x else y) s = if c then M.run x s else M.run y s := by
  split <;> rfl
@[simp] theorem M.run_ite_bind (c : Prop) [Decidable c] (x y : M ρ α) (f : α → M ρ ρ) (s : St) :
    M.run ((if c then x else y) >>= f) s = if c then M.run (x >>= f) s else M.run (y >>= f) s := by
  split <;> rfl

/-! ### loops -/

@[simp] theorem forIn_nil [Monad m] (init : σ) (f : α → σ → m σ) : forIn [] init f = pure init := rfl
@[simp] theorem forIn_cons [Monad m] (a : α) (l : List α) (init : σ) (f : α → σ → m σ) :
    forIn (a :: l) init f = f a init >>= fun s => forIn l s f := rfl

/-- evaluate the elements in order, stop at the first error -/
def seqList (ev : α → St → Res γ × St) : List α → St → Res (List γ) × St
  | [], s => (.ok [], s)
  | c :: cs, s => match ev c s with
    | (.error e, s) => (.error e, s)
    | (.ok v, s) => match seqList ev cs s with
      | (.error e, s) => (.error e, s)
      | (.ok vs, s) => (.ok (v :: vs), s)

/-- a loop whose body evaluates the element with `ev` (early return on error) and appends the value
to the loop state is the in-order list evaluator -/
theorem M.run_forIn_push_bind {α γ β : Type} (ev : α → St → Res γ × St)
    {p : α → Prop} (l : List {x // p x}) (F : {x // p x} → List γ → M (Res β) (List γ))
    (hF : ∀ x acc (k : List γ → M (Res β) (Res β)) s, M.run (F x acc >>= k) s =
      match ev x.1 s with
      | (.error e, s') => (.error e, s')
      | (.ok v, s') => M.run (k (acc ++ [v])) s')
    (acc : List γ) (k : List γ → M (Res β) (Res β)) (s : St) :
    M.run (forIn l acc F >>= k) s =
      match seqList ev (l.map (·.1)) s with
      | (.error e, s') => (.error e, s')
      | (.ok vs, s') => M.run (k (acc ++ vs)) s' := by
  induction l generalizing acc s with
  | nil => simp [seqList]
  | cons x l ih =>
    simp only [forIn_cons, List.map_cons, seqList, M.run_bind_bind, hF]
    generalize ev x.1 s = r
    rcases r with ⟨_ | v, s1⟩
    · rfl
    · simp only [ih]
      generalize seqList ev (List.map (·.1) l) s1 = r
      rcases r with ⟨_ | vs, s2⟩ <;> simp

/-- fold with early exit on error: the meaning of a loop whose body updates the loop state or returns an error -/
def foldE (step : α → σ → Except ε σ) : List α → σ → Except ε σ
  | [], s => .ok s
  | a :: l, s => match step a s with
    | .error e => .error e
    | .ok s' => foldE step l s'

/-- a loop (in a function without context) whose body is `step` is `foldE step` -/
theorem Flow.run_forIn_bind {α σ β : Type} (step : α → σ → Res σ) (l : List α) (F : α → σ → Flow (Res β) σ)
    (hF : ∀ x st (k : σ → Flow (Res β) (Res β)), Flow.run (F x st >>= k) =
      match step x st with
      | .error e => .error e
      | .ok st' => Flow.run (k st'))
    (st : σ) (k : σ → Flow (Res β) (Res β)) :
    Flow.run (forIn l st F >>= k) =
      match foldE step l st with
      | .error e => .error e
      | .ok st' => Flow.run (k st') := by
  induction l generalizing st with
  | nil => rfl
  | cons x l ih =>
    have hb : (forIn (x :: l) st F >>= k) = (F x st >>= fun s => forIn l s F >>= k) := by
      simp only [forIn_cons]
      cases F x st <;> rfl
    rw [hb, hF, foldE]
    generalize step x st = r
    rcases r with _ | st'
    · rfl
    · exact ih st'

/-- the result of a `loop`: what its body eventually returns, or the out-of-fuel panic -/
def loopRes (site : Str) : Nat → σ → (σ → Flow (Res β) σ) → Res β
  | 0, _, _ => .error (.panic site)
  | n + 1, s, f => match f s with
    | .val s' => loopRes site n s' f
    | .ret r => r

theorem loop_eq (site : Str) (n : Nat) (s : σ) (f : σ → Flow (Res β) σ) :
    (loop site n s f : Flow (Res β) α) = .ret (loopRes site n s f) := by
  induction n generalizing s with
  | zero => rfl
  | succ n ih =>
    rw [loop, loopRes]
    cases f s with
    | val s' => exact ih s'
    | ret r => rfl

theorem Flow.run_loop_bind (site : Str) (n : Nat) (s : σ) (f : σ → Flow (Res β) σ) (k : α → Flow (Res β) (Res β)) :
    Flow.run (loop site n s f >>= k) = loopRes site n s f := by
  rw [loop_eq]; rfl

@[simp] theorem last_concat (l : List α) (x : α) : last (l ++ [x]) = some x := by simp [last]
@[simp] theorem last_nil : last ([] : List α) = none := rfl
@[simp] theorem set_last_concat (l : List α) (x y : α) : set_last (l ++ [x]) y = l ++ [y] := by simp [set_last]
@[simp] theorem pop_back_concat (l : List α) (x : α) : pop_back (l ++ [x]) = l := by simp [pop_back]
@[simp] theorem iter_next_nil : iter_next ([] : List α) = (none, []) := rfl
@[simp] theorem iter_next_cons (a : α) (l : List α) : iter_next (a :: l) = (some a, l) := rfl
@[simp] theorem iter_def (l : List α) : iter l = l := rfl
@[simp] theorem Flow.unwrap_some (site : Str) (a : α) : (unwrap site (some a) : Flow (Res β) α) = .val a := rfl

/-! ### the pure vocabulary -/

@[simp] theorem len_list (l : List Value) : len l = l.length := rfl
@[simp] theorem len_str (s : Str) : len s = utf8Len s := rfl
@[simp] theorem eq_nat (a b : Nat) : eq a b = (a == b) := rfl
@[simp] theorem eq_valueType (a b : ValueType) : eq a b = (a == b) := rfl
@[simp] theorem eq_value (a b : Value) : eq a b = Value.beq a b := rfl
@[simp] theorem ne_def [PEq α] (a b : α) : ne a b = !eq a b := rfl
@[simp] theorem clone_def (a : α) : clone a = a := rfl
@[simp] theorem cloned_def {φ : Type} (a : φ) : cloned a = a := rfl
@[simp] theorem not_def (a : Bool) : Rs.not a = !a := rfl
@[simp] theorem is_empty_def (l : List α) : is_empty l = l.isEmpty := rfl
@[simp] theorem first_def (l : List α) : first l = l.head? := rfl
theorem last_def (l : List α) : last l = l.getLast? := rfl
@[simp] theorem get_list (l : List α) (i : Nat) : get l i = l[i]? := rfl
@[simp] theorem get_map (m : List (Str × β)) (k : Str) : get m k = alookup k m := rfl
@[simp] theorem fn_call_user (f : UserFn) (a : Value) : fn_call f a = f a := rfl
@[simp] theorem unwrap_or_some (a d : α) : unwrap_or (some a) d = a := rfl
@[simp] theorem unwrap_or_none (d : α) : unwrap_or (none : Option α) d = d := rfl
@[simp] theorem map_res (r : Res α) (f : α → β) : map r f = Except.map f r := rfl
@[simp] theorem push_def (l : List α) (x : α) : push l x = l ++ [x] := rfl
@[simp] theorem Vec.new_def : (Vec.new : List α) = [] := rfl
@[simp] theorem into_list (l : List α) : (into l : List α) = l := rfl

end Evalexpr.Rs
