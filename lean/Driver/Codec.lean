/-
Driver/Codec.lean — canonical text forms shared with the Rust harness (harness/src/codec.rs).
  value  := S<hex utf8> | F<16 hex bits> | Fnan | I<decimal> | Bt | Bf | T(v,v,...) | E
  error  := <VariantName>[arg;arg;...]
  token  := Plus … | ID:<hex> | F:<bits> | I:<dec> | B:t | S:<hex>
  tree   := (<op> child child …)
-/
import EvalexprVerif.Model.Interface
import EvalexprVerif.Model.Iter

namespace Evalexpr.Codec

def hexDigit (n : Nat) : Char := if n < 10 then Char.ofNat (48 + n) else Char.ofNat (87 + n)

def hexOfBytes (bs : ByteArray) : String := Id.run do
  let mut out : String := ""
  for b in bs do
    out := out.push (hexDigit (b.toNat / 16)) |>.push (hexDigit (b.toNat % 16))
  return out

def hexOfStr (s : Str) : String := hexOfBytes (String.ofList s).toUTF8

def hexVal (c : Char) : Nat :=
  if '0' ≤ c && c ≤ '9' then c.toNat - 48
  else if 'a' ≤ c && c ≤ 'f' then c.toNat - 87
  else if 'A' ≤ c && c ≤ 'F' then c.toNat - 55 else 0

def bytesOfHex (s : List Char) : ByteArray :=
  let rec go : List Char → ByteArray → ByteArray
    | a :: b :: rest, acc => go rest (acc.push (UInt8.ofNat (hexVal a * 16 + hexVal b)))
    | _, acc => acc
  go s ByteArray.empty

def strOfHex (s : List Char) : Str :=
  match String.fromUTF8? (bytesOfHex s) with
  | some str => str.toList
  | none => []

def hex16 (n : UInt64) : String :=
  let ds := Nat.toDigits 16 n.toNat
  String.ofList (List.replicate (16 - ds.length) '0' ++ ds)

def u64OfHex (s : List Char) : UInt64 := (s.foldl (fun acc c => acc * 16 + hexVal c) 0).toUInt64

def encFloat (f : Float) : String := if f.isNaN then "Fnan" else "F" ++ hex16 f.toBits

mutual
partial def encValue : Value → String
  | .string s => "S" ++ hexOfStr s
  | .float f => encFloat f
  | .int i => "I" ++ toString i.toInt
  | .boolean b => if b then "Bt" else "Bf"
  | .tuple t => "T(" ++ ",".intercalate (t.map encValue) ++ ")"
  | .empty => "E"
end

def intOfDec (s : List Char) : Int :=
  match s with
  | '-' :: r => -(F64.digitsVal r : Int)
  | r => F64.digitsVal r

/-- parse one value from the front of a character list -/
partial def decValue : List Char → Option (Value × List Char)
  | 'S' :: rest =>
    let h := rest.takeWhile Char.isAlphanum
    some (.string (strOfHex h), rest.dropWhile Char.isAlphanum)
  | 'F' :: 'n' :: 'a' :: 'n' :: rest => some (.float F64.nan, rest)
  | 'F' :: rest =>
    let h := rest.take 16
    some (.float (Float.ofBits (u64OfHex h)), rest.drop 16)
  | 'I' :: rest =>
    let d := rest.takeWhile (fun c => c.isDigit || c == '-')
    some (.int (Int64.ofInt (intOfDec d)), rest.dropWhile (fun c => c.isDigit || c == '-'))
  | 'B' :: 't' :: rest => some (.boolean true, rest)
  | 'B' :: 'f' :: rest => some (.boolean false, rest)
  | 'E' :: rest => some (.empty, rest)
  | 'T' :: '(' :: rest =>
    let rec items (cs : List Char) (acc : List Value) : Option (List Value × List Char) :=
      match cs with
      | ')' :: r => some (acc.reverse, r)
      | ',' :: r => items r acc
      | cs => match decValue cs with
        | some (v, r) => items r (v :: acc)
        | none => none
    match items rest [] with
    | some (vs, r) => some (.tuple vs, r)
    | none => none
  | _ => none

def decValueStr (s : String) : Option Value := (decValue s.toList).map (·.1)

def encType : ValueType → String
  | .string => "String" | .float => "Float" | .int => "Int" | .boolean => "Boolean"
  | .tuple => "Tuple" | .empty => "Empty"

def encToken : Token → String
  | .plus => "Plus" | .minus => "Minus" | .star => "Star" | .slash => "Slash"
  | .percent => "Percent" | .hat => "Hat"
  | .eq => "Eq" | .neq => "Neq" | .gt => "Gt" | .lt => "Lt" | .geq => "Geq" | .leq => "Leq"
  | .and => "And" | .or => "Or" | .not => "Not"
  | .lBrace => "LBrace" | .rBrace => "RBrace"
  | .assign => "Assign" | .plusAssign => "PlusAssign" | .minusAssign => "MinusAssign"
  | .starAssign => "StarAssign" | .slashAssign => "SlashAssign"
  | .percentAssign => "PercentAssign" | .hatAssign => "HatAssign"
  | .andAssign => "AndAssign" | .orAssign => "OrAssign"
  | .comma => "Comma" | .semicolon => "Semicolon"
  | .identifier s => "ID:" ++ hexOfStr s
  | .float f => "F:" ++ (if f.isNaN then "nan" else hex16 f.toBits)
  | .int i => "I:" ++ toString i.toInt
  | .boolean b => if b then "B:t" else "B:f"
  | .string s => "S:" ++ hexOfStr s

def encPartial : PartialToken → String
  | .token t => "Token(" ++ encToken t ++ ")"
  | .literal s => "Literal:" ++ hexOfStr s
  | .plus => "Plus" | .minus => "Minus" | .star => "Star" | .slash => "Slash"
  | .percent => "Percent" | .hat => "Hat" | .whitespace => "Whitespace" | .eq => "Eq"
  | .exclamationMark => "ExclamationMark" | .gt => "Gt" | .lt => "Lt"
  | .ampersand => "Ampersand" | .verticalBar => "VerticalBar"

def encOp : Operator → String
  | .rootNode => "RootNode"
  | .add => "Add" | .sub => "Sub" | .neg => "Neg" | .mul => "Mul" | .div => "Div" | .mod => "Mod"
  | .exp => "Exp"
  | .eq => "Eq" | .neq => "Neq" | .gt => "Gt" | .lt => "Lt" | .geq => "Geq" | .leq => "Leq"
  | .and => "And" | .or => "Or" | .not => "Not"
  | .assign => "Assign" | .addAssign => "AddAssign" | .subAssign => "SubAssign"
  | .mulAssign => "MulAssign" | .divAssign => "DivAssign" | .modAssign => "ModAssign"
  | .expAssign => "ExpAssign" | .andAssign => "AndAssign" | .orAssign => "OrAssign"
  | .tuple => "Tuple" | .chain => "Chain"
  | .const v => "Const:" ++ encValue v
  | .varWrite id => "VariableIdentifierWrite:" ++ hexOfStr id
  | .varRead id => "VariableIdentifierRead:" ++ hexOfStr id
  | .fn id => "FunctionIdentifier:" ++ hexOfStr id

partial def encNode : Node → String
  | ⟨op, cs⟩ => "(" ++ encOp op ++ String.join (cs.map fun c => " " ++ encNode c) ++ ")"

def encErr : Err → String
  | .wrongOperatorArgumentAmount e a => s!"WrongOperatorArgumentAmount[{e};{a}]"
  | .wrongFunctionArgumentAmount lo hi a => s!"WrongFunctionArgumentAmount[{lo};{hi};{a}]"
  | .expectedString v => s!"ExpectedString[{encValue v}]"
  | .expectedInt v => s!"ExpectedInt[{encValue v}]"
  | .expectedFloat v => s!"ExpectedFloat[{encValue v}]"
  | .expectedNumber v => s!"ExpectedNumber[{encValue v}]"
  | .expectedNumberOrString v => s!"ExpectedNumberOrString[{encValue v}]"
  | .expectedBoolean v => s!"ExpectedBoolean[{encValue v}]"
  | .expectedTuple v => s!"ExpectedTuple[{encValue v}]"
  | .expectedFixedLengthTuple n v => s!"ExpectedFixedLengthTuple[{n};{encValue v}]"
  | .expectedRangedLengthTuple lo hi v => s!"ExpectedRangedLengthTuple[{lo};{hi};{encValue v}]"
  | .expectedEmpty v => s!"ExpectedEmpty[{encValue v}]"
  | .appendedToLeafNode => "AppendedToLeafNode[]"
  | .precedenceViolation => "PrecedenceViolation[]"
  | .variableIdentifierNotFound id => s!"VariableIdentifierNotFound[{hexOfStr id}]"
  | .functionIdentifierNotFound id => s!"FunctionIdentifierNotFound[{hexOfStr id}]"
  | .typeError ts v => s!"TypeError[{"|".intercalate (ts.map encType)};{encValue v}]"
  | .wrongTypeCombination op ts =>
    s!"WrongTypeCombination[{encOp op};{"|".intercalate (ts.map encType)}]"
  | .unmatchedLBrace => "UnmatchedLBrace[]"
  | .unmatchedRBrace => "UnmatchedRBrace[]"
  | .unmatchedDoubleQuote => "UnmatchedDoubleQuote[]"
  | .missingOperatorOutsideOfBrace => "MissingOperatorOutsideOfBrace[]"
  | .unmatchedPartialToken f s =>
    s!"UnmatchedPartialToken[{encPartial f};{match s with | some p => encPartial p | none => "None"}]"
  | .additionError a b => s!"AdditionError[{encValue a};{encValue b}]"
  | .subtractionError a b => s!"SubtractionError[{encValue a};{encValue b}]"
  | .negationError a => s!"NegationError[{encValue a}]"
  | .multiplicationError a b => s!"MultiplicationError[{encValue a};{encValue b}]"
  | .divisionError a b => s!"DivisionError[{encValue a};{encValue b}]"
  | .modulationError a b => s!"ModulationError[{encValue a};{encValue b}]"
  | .contextNotMutable => "ContextNotMutable[]"
  | .illegalEscapeSequence s => s!"IllegalEscapeSequence[{hexOfStr s}]"
  | .builtinFunctionsCannotBeEnabled => "BuiltinFunctionsCannotBeEnabled[]"
  | .builtinFunctionsCannotBeDisabled => "BuiltinFunctionsCannotBeDisabled[]"
  | .outOfBoundsAccess => "OutOfBoundsAccess[]"
  | .intFromUsize n => s!"IntFromUsize[{n}]"
  | .intIntoUsize i => s!"IntIntoUsize[{i.toInt}]"
  | .randNotEnabled => "RandNotEnabled[]"
  | .customMessage s => s!"CustomMessage[{hexOfStr s}]"
  | .panic site => s!"PANIC[{String.ofList site}]"

def encRes {α} (enc : α → String) : Res α → String
  | .ok a => "ok " ++ enc a
  | .error e => "err " ++ encErr e

end Evalexpr.Codec
