/-
Driver/Gen.lean — structure-aware generators that live next to the specification: random and
systematic ASTs (C02), sequence levels (C05), token sequences with admissible gap assignments
(C07), each rendered to source text by the Spec renderers. One PRNG state per request, derived
from the seed in the request, so every case replays exactly.
-/
import EvalexprVerif.Spec.Ast
import EvalexprVerif.Spec.AstLoose
import EvalexprVerif.Spec.Seq
import EvalexprVerif.Spec.Lex
import EvalexprVerif.Spec.LexExt
import EvalexprVerif.Spec.WellFormed
import Driver.Codec

namespace Evalexpr.Gen
open Evalexpr Evalexpr.Spec

structure Rng where
  s : Nat

def Rng.next (r : Rng) : Nat × Rng :=
  let s := (r.s * 6364136223846793005 + 1442695040888963407) % 2 ^ 64
  (s / 2 ^ 24, ⟨s⟩)

def Rng.below (r : Rng) (n : Nat) : Nat × Rng :=
  let (x, r) := r.next
  (x % (if n == 0 then 1 else n), r)

def pick {α} [Inhabited α] (xs : Array α) (r : Rng) : α × Rng :=
  let (i, r) := r.below xs.size
  (xs[i]!, r)

def binOps : Array BinOp :=
  #[.add, .sub, .mul, .div, .mod, .exp, .eq, .neq, .gt, .lt, .geq, .leq, .and, .or]
def assignOps : Array AssignOp := #[.assign, .add, .sub, .mul, .div, .mod, .exp, .and, .or]
def idents : Array Str := #[cl!"a", cl!"b", cl!"x", cl!"f", cl!"g", cl!"foo_1", cl!"e", cl!"ä"]
def lits : Array Lit :=
  #[.int 0, .int 1, .int 2, .int 42, .int 30, .int 254, .int 9223372036854775807, .float (Float.ofBits 0x3ff8000000000000),
    .float (Float.ofBits 0x3f50624dd2f1a9fc), .float (Float.ofBits 0x7e37e43c8800759c), .float (Float.ofBits 0), .float (Float.ofBits 0x43e0000000000000),
    .boolean true, .boolean false, .string [], .string cl!"s", .string cl!"a \"b\" \\ /* x */ // y", .string ['\n', 'ä']]

/-- the text a token is written as (floats: shortest digits, with `.0` if there is no `.`/`e`) -/
def tokText (t : Token) : Str :=
  match fixedText t with
  | some s => s
  | none =>
    match t with
    | .identifier w => w
    | .int i => F64.intDisplay i
    | .float f =>
      let d := F64.display f
      if d.contains '.' then d else d ++ cl!".0"
    | .boolean b => if b then cl!"true" else cl!"false"
    | .string s => quote s
    | _ => []

def ptok (t : Token) : PTok := ⟨t, tokText t⟩

/-- other spellings of the literals of the pools: floats in scientific notation with a signed exponent
(three partial tokens for the lexer); integers are also written in hexadecimal, either case -/
def altFloatTexts : Array Str :=
  #[cl!"15e-1", cl!"1.5e+0", cl!"1.5E-0", cl!".15e+1", cl!"1e-3", cl!"1E-3", cl!".1e-2", cl!"0.001e+0", cl!"1e+4", cl!"100.e+2",
    cl!"1e+300", cl!"0e+0", cl!"0.e-5", cl!"5e-3", cl!"2e-3", cl!"1e+2",
    -- integer-looking numerals beyond the i64 range are floats
    cl!"9223372036854775808", cl!"18446744073709551616"]
def altFloats : Array (UInt64 × Str) := altFloatTexts.filterMap fun t => (F64.parseBits t).map (·, t)

def hexText (n : Nat) (upper : Bool) : Str :=
  '0' :: 'x' :: (Nat.toDigits 16 n).map (fun c => if upper then c.toUpper else c)

/-- the token in a randomly chosen spelling -/
def ptokVar (t : Token) (r : Rng) : PTok × Rng :=
  let (k, r) := r.below 3
  if k != 0 then (ptok t, r) else
  match t with
  | .int i =>
    if i.toInt ≥ 0 then let (u, r) := r.below 2; (⟨t, hexText i.toInt.toNat (u == 1)⟩, r) else (ptok t, r)
  | .float f =>
    let alts := altFloats.filter (·.1 == f.toBits)
    if alts.isEmpty then (ptok t, r) else let (a, r) := pick alts r; (⟨t, a.2⟩, r)
  | _ => (ptok t, r)

def sepPool : Array Sep :=
  #[.ws ' ', .ws ' ', .ws ' ', .ws '\n', .ws '\t', .ws '\r',
    -- every White_Space code point
    .ws (Char.ofNat 0x0B), .ws (Char.ofNat 0x0C), .ws (Char.ofNat 0x85), .ws (Char.ofNat 0xA0), .ws (Char.ofNat 0x1680),
    .ws (Char.ofNat 0x2000), .ws (Char.ofNat 0x2001), .ws (Char.ofNat 0x2002), .ws (Char.ofNat 0x2003), .ws (Char.ofNat 0x2004),
    .ws (Char.ofNat 0x2005), .ws (Char.ofNat 0x2006), .ws (Char.ofNat 0x2007), .ws (Char.ofNat 0x2008), .ws (Char.ofNat 0x2009),
    .ws (Char.ofNat 0x200A), .ws (Char.ofNat 0x2028), .ws (Char.ofNat 0x2029), .ws (Char.ofNat 0x202F), .ws (Char.ofNat 0x205F),
    .ws (Char.ofNat 0x3000),
    -- comments: empty, ASCII, stars and slashes, quotes, and non-ASCII bodies (bytes ≠ characters)
    .block [], .block cl!" x ", .block ['*'], .block ['/'], .block cl!"/* \" ", .block cl!"é€ 😀", .block [Char.ofNat 0x2028, '*'],
    .line [], .line cl!" x", .line cl!"*/ \" /*", .line cl!" größer €", .line [Char.ofNat 0xA0, '😀']]

def genGap (r : Rng) : Gap × Rng :=
  let (k, r) := r.below 8
  if k < 3 then ([], r)
  else if k < 6 then let (a, r) := pick sepPool r; ([a], r)
  else let (a, r) := pick sepPool r; let (b, r) := pick sepPool r; ([a, b], r)

def validB (g : Gap) : Bool := g.all Sep.valid

/-- Bool mirror of `Spec.Admissible` -/
def admissibleB : List (Gap × PTok) → Gap → Bool
  | [], g => validB g
  | (g0, p) :: rest, g =>
    validB g0 &&
    (match rest with
      | (g1, q) :: rest' =>
        (!(fuses p.tok q.tok) || !g1.isEmpty) &&
        (!(looksLikeMantissaE p.text && isWordTok p.tok && isSign q.tok && !rest'.isEmpty) ||
          (!g1.isEmpty || !(nextGap rest' g).isEmpty))
      | [] => true) &&
    (!(isSlash p.tok) ||
      ((renderFrom rest g).head? != some '/' && (renderFrom rest g).head? != some '*')) &&
    admissibleB rest g

/-- Bool mirror of `Spec.AdmissibleX` -/
def admissibleXB : List (Gap × PTok) → Gap → Bool
  | [], g => validB g
  | (g0, p) :: rest, g =>
    validB g0 &&
    (match rest with
      | (g1, q) :: rest' =>
        (!(fuses p.tok q.tok) || !g1.isEmpty) &&
        (!(looksLikeMantissaE p.text && isIdentTok p.tok && isSign q.tok && (match rest' with | (_, r) :: _ => isWordTok r.tok | [] => false)) ||
          (!g1.isEmpty || !(nextGap rest' g).isEmpty))
      | [] => true) &&
    (!(isSlash p.tok) ||
      ((renderFrom rest g).head? != some '/' && (renderFrom rest g).head? != some '*')) &&
    admissibleXB rest g

def genGaps : List Token → Rng → List (Gap × PTok) × Rng
  | [], r => ([], r)
  | t :: ts, r =>
    let (g, r) := genGap r
    let (p, r) := ptokVar t r
    let (rest, r) := genGaps ts r
    ((g, p) :: rest, r)

/-- a random admissible rendering of a token sequence (falls back to single spaces) -/
def renderTokens (ts : List Token) (r : Rng) : Str × Rng :=
  let (ps, r) := genGaps ts r
  let (g, r) := genGap r
  if admissibleXB ps g then (renderFrom ps g, r)
  else (renderFrom (ts.map fun t => ([Sep.ws ' '], ptok t)) [], r)

partial def genExpr (r : Rng) (depth : Nat) : Expr × Rng :=
  let (k, r) := r.below 100
  if depth == 0 || k < 14 then
    let (c, r) := r.below 2
    if c == 0 then let (l, r) := pick lits r; (.lit l, r) else let (x, r) := pick idents r; (.var x, r)
  else if k < 24 then let (f, r) := pick idents r; let (a, r) := genExpr r (depth - 1); (.call f a, r)
  else if k < 33 then let (a, r) := genExpr r (depth - 1); (.neg a, r)
  else if k < 40 then let (a, r) := genExpr r (depth - 1); (.not a, r)
  else if k < 80 then
    let (op, r) := pick binOps r
    let (a, r) := genExpr r (depth - 1)
    let (b, r) := genExpr r (depth - 1)
    (.bin op a b, r)
  else if k < 92 then
    let (op, r) := pick assignOps r
    let (x, r) := pick idents r
    let (a, r) := genExpr r (depth - 1)
    (.assign op x a, r)
  else let (a, r) := genExpr r (depth - 1); (.paren a, r)

/-- the 26 node kinds of an expression, for systematic parent/child coverage -/
def mkKind (k : Nat) (l r : Expr) : Expr :=
  if k < 14 then .bin binOps[k]! l r
  else if k == 14 then .neg r
  else if k == 15 then .not r
  else if k < 25 then .assign assignOps[k - 16]! cl!"v" r
  else .call cl!"f" r

def leafA : Expr := .var cl!"p"
def leafB : Expr := .lit (.int 7)
def leafC : Expr := .var cl!"q"

/-- systematic cases: index ↦ parent kind × child kind × side × (optional grandchild kind) -/
def sysExpr (i : Nat) : Expr :=
  let p := i % 26
  let c := (i / 26) % 26
  let side := (i / 676) % 2
  let gidx := i / 1352
  let child : Expr :=
    if gidx == 0 then mkKind c leafA leafB
    else
      let g := (gidx - 1) % 26
      let gside := ((gidx - 1) / 26) % 2
      if gside == 0 then mkKind c (mkKind g leafA leafB) leafC else mkKind c leafC (mkKind g leafA leafB)
  if side == 0 then mkKind p child leafC else mkKind p leafC child

/-- literals in the spellings the lexer has to work for, written WITHOUT blanks around a binary
operator (`0x1e-3`, `5e-3-2e-3`, `a-1e+2`): atom (as AST and as written) × operator × atom; the
rendering is tight where `AdmissibleX` allows it, with blanks otherwise -/
def tightAtoms : Array (Expr × Str) :=
  #[(.lit (.int 30), cl!"0x1e"), (.lit (.int 254), cl!"0xFE"), (.lit (.int 14), cl!"0xe"), (.lit (.int 3), cl!"3"),
    (.var cl!"a", cl!"a"), (.var cl!"e", cl!"e"), (.var cl!"x1e", cl!"x1e")] ++
  (#[cl!"5e-3", cl!"2e-3", cl!"1e+2", cl!".5e+1", cl!"1e5", cl!"2.5", cl!"9223372036854775808"].filterMap fun t =>
    (F64.parse t).map fun f => (Expr.lit (.float f), t))

/-- prefix operators written directly in front of a literal in every spelling (`-9223372036854775808 ^ 2` is
`-(9223372036854775808 ^ 2)`): index ↦ shape × atom -/
def tightPrefixCase (i : Nat) : Str × Expr :=
  let n := tightAtoms.size
  let (a, at_) := tightAtoms[i % n]!
  let two := Expr.lit (.int 2)
  let e : Expr := match (i / n) % 6 with
    | 0 => .neg a
    | 1 => .neg (.bin .exp a two)
    | 2 => .bin .mul two (.neg a)
    | 3 => .paren (.neg a)
    | 4 => .assign .assign cl!"x" (.neg a)
    | _ => .bin .sub (.neg a) two
  -- the atom's spelling replaces the default text of its token; everything is written without blanks where admissible
  let atomTok := match render a with | [t] => some t | _ => none
  let ps : List (Gap × PTok) := (render e).map fun t =>
    ([], if (atomTok.map fun u => tokText u == tokText t) == some true then ⟨t, at_⟩ else ptok t)
  let spaced := ps.map fun (_, p) => ([Sep.ws ' '], p)
  (if admissibleXB ps [] then renderFrom ps [] else renderFrom spaced [], e)

def tightCase (i : Nat) : Str × Expr :=
  if i ≥ tightAtoms.size * tightAtoms.size * binOps.size then
    tightPrefixCase (i - tightAtoms.size * tightAtoms.size * binOps.size) else
  let n := tightAtoms.size
  let (l, lt) := tightAtoms[i % n]!
  let (r, rt) := tightAtoms[(i / n) % n]!
  let op := binOps[(i / (n * n)) % binOps.size]!
  let e := Expr.bin op l r
  match render e with
  | [a, o, b] =>
    let tight : List (Gap × PTok) := [([], ⟨a, lt⟩), ([], ptok o), ([], ⟨b, rt⟩)]
    let spaced : List (Gap × PTok) := [([], ⟨a, lt⟩), ([Sep.ws ' '], ptok o), ([Sep.ws ' '], ⟨b, rt⟩)]
    (if admissibleXB tight [] then renderFrom tight [] else renderFrom spaced [], e)
  | ts => (renderFrom (ts.map fun t => ([Sep.ws ' '], ptok t)) [], e)

partial def genOperand (r : Rng) (d : Nat) : Operand × Rng :=
  let (k, r) := r.below 10
  if d == 0 || k < 6 then let (e, r) := genExpr r 2; (.expr e, r)
  else let (l, r) := genLevel r (d - 1); (.group l, r)
where
  genOpt (r : Rng) (d : Nat) : Option Operand × Rng :=
    let (k, r) := r.below 10
    if k < 3 then (none, r) else let (o, r) := genOperand r d; (some o, r)
  genMember (r : Rng) (d : Nat) : Member × Rng := Id.run do
    let (n, r0) := r.below 3
    let mut r := r0
    let mut acc := []
    for _ in [0:n + 1] do
      let (o, r') := genOpt r d
      r := r'
      acc := o :: acc
    return (acc, r)
  genLevel (r : Rng) (d : Nat) : Level × Rng := Id.run do
    let (n, r0) := r.below 3
    let mut r := r0
    let mut acc := []
    for _ in [0:n + 1] do
      let (o, r') := genMember r d
      r := r'
      acc := o :: acc
    return (acc, r)

def tokenPool : Array Token :=
  #[.plus, .minus, .star, .slash, .percent, .hat, .eq, .neq, .gt, .lt, .geq, .leq, .and, .or, .not,
    .lBrace, .rBrace, .assign, .plusAssign, .minusAssign, .starAssign, .slashAssign, .percentAssign,
    .hatAssign, .andAssign, .orAssign, .comma, .semicolon,
    .identifier cl!"a", .identifier cl!"x1", .identifier cl!"1e", .identifier cl!"2E", .identifier cl!"e5",
    .identifier cl!"inf", .identifier cl!"ä", .int 1, .int 0, .int 1234567890123, .int 30, .int 254,
    .float (Float.ofBits 0x3f50624dd2f1a9fc), .float (Float.ofBits 0),
    .float (Float.ofBits 0x3ff8000000000000), .float (Float.ofBits 0x40c3880000000000), .boolean true, .boolean false,
    .string [], .string cl!"a b", .string cl!"/* \" \\", .string cl!"3", .string cl!"07"]

def genTokens (r : Rng) (n : Nat) : List Token × Rng := Id.run do
  let mut r := r
  let mut acc := []
  for _ in [0:n] do
    let (t, r') := pick tokenPool r
    r := r'
    acc := t :: acc
  return (acc, r)

/-- `<mantissa>e`, a sign, and a token that is not a word, written without blanks (`1e+"3"`, `2E-(`):
three tokens (the lexer re-joins only what parses as a float); index ↦ (tight rendering, spaced rendering, tokens) -/
def tightSignCase (i : Nat) : Str × Str × List Token :=
  let words : Array Str := #[cl!"1e", cl!"2E", cl!"1.5e", cl!".5E", cl!"12e", cl!"0e"]
  let signs : Array Token := #[.plus, .minus]
  let follows : Array Token := #[.string cl!"3", .string cl!"07", .string [], .string cl!"1e5", .lBrace, .not, .comma, .rBrace, .minus]
  let w := words[i % words.size]!
  let sg := signs[(i / words.size) % 2]!
  let f := follows[(i / (words.size * 2)) % follows.size]!
  let ts : List Token := [.identifier w, sg, f]
  let tight : List (Gap × PTok) := ts.map fun t => ([], ptok t)
  let spaced : List (Gap × PTok) := ts.map fun t => ([Sep.ws ' '], ptok t)
  (if admissibleXB tight [] then renderFrom tight [] else renderFrom spaced [], renderFrom spaced [], ts)

def encTokens (ts : List Token) : String := " ".intercalate (ts.map Codec.encToken)

end Evalexpr.Gen
