/-
Driver.lean — line protocol over the executable model (see harness/src/protocol.md).
One request per line, one response per line. The Rust harness implements the same commands over
the real crate and diffs the two response streams.
-/
import Driver.Codec
import EvalexprVerif.Spec.RefArith
import Driver.Gen
import EvalexprVerif.Spec.IdentsSeq
import EvalexprVerif.Spec.RefBuiltin
import EvalexprVerif.Spec.BigStep
import EvalexprVerif.Spec.Idents

open Evalexpr Evalexpr.Codec

def binOpOf : String → Option Spec.BinOp
  | "+" => some .add | "-" => some .sub | "*" => some .mul | "/" => some .div | "%" => some .mod
  | "^" => some .exp | "==" => some .eq | "!=" => some .neq | ">" => some .gt | "<" => some .lt
  | ">=" => some .geq | "<=" => some .leq | "&&" => some .and | "||" => some .or | _ => none

def encRef : Spec.RefOutcome → String
  | .value v => "value " ++ encValue v
  | .arith => "arith"
  | .type => "type"
  | .valueOrArith v => "value-or-arith " ++ encValue v

def userFnOfSpec (spec : String) : Option UserFn :=
  match spec.toList with
  | ['i', 'd'] => some (fun v => .ok v)
  | 'k' :: rest => (decValue rest).map (fun (v, _) => fun _ => .ok v)
  | ['n', 'o', 't', 'f', 'o', 'u', 'n', 'd'] =>
    some (fun _ => .error (.functionIdentifierNotFound cl!"zz"))
  | ['f', 'a', 'i', 'l'] => some (fun _ => .error (.customMessage cl!"boom"))
  | ['i', 'n', 'c'] => some (fun v => match v.asInt with
      | .ok i => (checkedAdd i 1).map .int
      | .error e => .error e)
  | _ => none

structure Session where
  slots : List (Nat × Ctx) := []

def Session.get (s : Session) (k : Nat) : Option Ctx := (s.slots.find? (·.1 == k)).map (·.2)
def Session.set (s : Session) (k : Nat) (c : Ctx) : Session :=
  { slots := (k, c) :: s.slots.filter (·.1 != k) }

def kindOf : String → Option Kind
  | "value" => some .value | "string" => some .string | "int" => some .int
  | "float" => some .float | "number" => some .number | "boolean" => some .boolean
  | "tuple" => some .tuple | "empty" => some .empty | _ => none

def modeOf : String → Option Mode
  | "fresh" => some .fresh | "ro" => some .ro | "mut" => some .mut_ | _ => none

def iterKindOf : String → Option IterKind
  | "identifiers" => some .identifiers | "variable" => some .variable
  | "read" => some .readVariable | "write" => some .writeVariable
  | "function" => some .function | _ => none

def allIterKinds : List IterKind :=
  [.identifiers, .variable, .readVariable, .writeVariable, .function]

def encLog (log : List (Str × Value)) : String :=
  ",".intercalate (log.map fun (n, v) => hexOfStr n ++ ":" ++ encValue v)

def encVars (vars : List (Str × Value)) : String :=
  let items := vars.map fun (n, v) => hexOfStr n ++ "=" ++ encValue v
  ",".intercalate (items.toArray.qsort (· < ·)).toList

def encUnit (r : Res Unit) : String := encRes (fun _ => "()") r

def hexArg (s : String) : Str := strOfHex (s.toList.drop 1)   -- arguments are written x<hex>

def handle (sess : Session) (line : String) : Session × String :=
  if line.startsWith "#" then (sess, "#") else
  match line.trimAscii.toString.splitOn " " with
  | ["tok", src] =>
    (sess, encRes (fun ts => " ".intercalate (ts.map encToken)) (tokenize (hexArg src)))
  | ["tree", src] => (sess, encRes encNode (buildOperatorTree (hexArg src)))
  | ["new", slot, kind] =>
    let c : Option Ctx := match kind with
      | "hm" => some (.hashMap {}) | "empty" => some .empty | "emptyb" => some .emptyWithBuiltins
      | "nostorage" => some (.noStorage {}) | _ => none
    match c with
    | some c => (sess.set slot.toNat! c, "ok")
    | none => (sess, "bad-op")
  | ["setv", slot, name, value] =>
    match sess.get slot.toNat!, decValueStr value with
    | some c, some v =>
      match c.setValue (hexArg name) v with
      | .ok c' => (sess.set slot.toNat! c', "ok ()")
      | .error e => (sess, "err " ++ encErr e)
    | _, _ => (sess, "bad-op")
  | ["presetv", slot, name, value] =>
    -- harness-only: bind a variable in a no-storage context before handing it to the evaluator
    match sess.get slot.toNat!, decValueStr value with
    | some (.noStorage h), some v =>
      (sess.set slot.toNat! (.noStorage { h with vars := ainsert (hexArg name) v h.vars }), "ok ()")
    | _, _ => (sess, "bad-op")
  | ["setf", slot, name, spec] =>
    match sess.get slot.toNat!, userFnOfSpec spec with
    | some c, some f =>
      match c.setFunction (hexArg name) f with
      | .ok c' => (sess.set slot.toNat! c', "ok ()")
      | .error e => (sess, "err " ++ encErr e)
    | _, _ => (sess, "bad-op")
  | ["setb", slot, flag] =>
    match sess.get slot.toNat! with
    | some c =>
      match c.setBuiltinsDisabled (flag == "1") with
      | .ok c' => (sess.set slot.toNat! c', "ok ()")
      | .error e => (sess, "err " ++ encErr e)
    | none => (sess, "bad-op")
  | ["clearv", slot] =>
    match sess.get slot.toNat! with
    | some (.hashMap h) => (sess.set slot.toNat! (.hashMap h.clearVariables), "ok")
    | _ => (sess, "bad-op")
  | ["clearf", slot] =>
    match sess.get slot.toNat! with
    | some (.hashMap h) => (sess.set slot.toNat! (.hashMap h.clearFunctions), "ok")
    | _ => (sess, "bad-op")
  | ["clear", slot] =>
    match sess.get slot.toNat! with
    | some (.hashMap h) => (sess.set slot.toNat! (.hashMap h.clear), "ok")
    | _ => (sess, "bad-op")
  | ["clone", src, dst] =>
    match sess.get src.toNat! with
    | some c => (sess.set dst.toNat! c, "ok")
    | none => (sess, "bad-op")
  | ["clonefrom", src, dst] =>
    match sess.get src.toNat!, sess.get dst.toNat! with
    | some c, some _ => (sess.set dst.toNat! c, "ok")
    | _, _ => (sess, "bad-op")
  | ["dump", slot] =>
    match sess.get slot.toNat! with
    | some c =>
      let names := (c.iterVariableNames.map hexOfStr).toArray.qsort (· < ·)
      (sess, s!"vars={encVars c.iterVariables} names={",".intercalate names.toList} nb={if c.builtinsDisabled then 1 else 0}")
    | none => (sess, "bad-op")
  | ["getv", slot, name] =>
    match sess.get slot.toNat! with
    | some c => (sess, match c.getValue (hexArg name) with | some v => "some " ++ encValue v | none => "none")
    | none => (sess, "bad-op")
  | ["callf", slot, name, value] =>
    match sess.get slot.toNat!, decValueStr value with
    | some c, some v => (sess, encRes encValue (c.callFunction (hexArg name) v))
    | _, _ => (sess, "bad-op")
  | ["eval", slot, mode, level, kind, src] =>
    match sess.get slot.toNat!, modeOf mode, kindOf kind with
    | some c, some m, some k =>
      let s0 : St := { ctx := c, log := [] }
      let (r, s1) : Res Value × St :=
        if level == "s" then runString k m (hexArg src) s0
        else match buildOperatorTree (hexArg src) with
          | .error e => (.error e, s0)
          | .ok n => runTree k m n s0
      (sess.set slot.toNat! s1.ctx, encRes encValue r ++ " ; " ++ encLog s1.log)
    | _, _, _ => (sess, "bad-op")
  | ["iter", src] =>
    match buildOperatorTree (hexArg src) with
    | .error e => (sess, "err " ++ encErr e)
    | .ok n =>
      let part (k : IterKind) : String :=
        ",".intercalate ((n.iterIdents k).map hexOfStr) ++ "/" ++
        ",".intercalate ((n.iterIdentsMut k).map hexOfStr)
      -- internal iteration after a partial external one (next, then for_each; skip(1).last(); next, next, fold)
      let ids := (n.iterIdents .identifiers).map hexOfStr
      let vars := (n.iterIdents .variable).map hexOfStr
      let reads := (n.iterIdents .readVariable).map hexOfStr
      let extra := s!"{ids.head?.getD ""};{",".intercalate ids.tail};{(vars.drop 1).getLast?.getD ""};{",".intercalate (reads.drop 2)}"
      (sess, "ok " ++ " ".intercalate (allIterKinds.map part ++ [extra]))
  | ["rename", kind, suffix, src] =>
    match iterKindOf kind, buildOperatorTree (hexArg src) with
    | some k, .ok n => (sess, "ok " ++ encNode (n.renameDesc k (· ++ hexArg suffix)))
    | some _, .error e => (sess, "err " ++ encErr e)
    | none, _ => (sess, "bad-op")
  | ["spec.binop", op, a, b] =>
    match binOpOf (String.ofList (hexArg op)), decValueStr a, decValueStr b with
    | some o, some x, some y => (sess, encRef (Spec.refBinary o x y))
    | _, _, _ => (sess, "bad-op")
  | ["spec.builtin", name, a] =>
    match builtinFunction (hexArg name), decValueStr a with
    | some b, some x =>
      (sess, match Spec.refBuiltin b x with
        | .value v => "value " ++ encValue v
        | .error => "error"
        | .any => "any"
        | .smallestOf vs => "smallest " ++ encValue (.tuple vs)
        | .largestOf vs => "largest " ++ encValue (.tuple vs))
    | none, some _ => (sess, "nobuiltin")
    | _, _ => (sess, "bad-op")
  | ["spec.unop", op, a] =>
    match op, decValueStr a with
    | "neg", some x => (sess, encRef (Spec.refUnary .neg x))
    | "not", some x => (sess, encRef (Spec.refUnary .not x))
    | _, _ => (sess, "bad-op")
  | ["gen.c02", seed, depth] =>
    let (e, r) := Gen.genExpr ⟨seed.toNat!⟩ depth.toNat!
    let (src, _) := Gen.renderTokens (Spec.render e) r
    (sess, s!"x{hexOfStr src} {encNode ⟨.rootNode, [Spec.toTree e]⟩}")
  | ["gen.c02loose", seed, depth] =>
    -- the everyday spelling: prefix operators unparenthesised as right operand of `^` (Spec/AstLoose)
    let (e0, r) := Gen.genExpr ⟨seed.toNat!⟩ depth.toNat!
    -- make the loose rule fire often: wrap as `e0 ^ -…`
    let (k, r) := r.below 4
    let e : Spec.Expr := if k == 0 then e0 else
      .bin .exp (.var cl!"p") (if k == 1 then .neg e0 else if k == 2 then .not (.neg e0) else .neg (.call cl!"f" e0))
    let (src, _) := Gen.renderTokens (Spec.renderL e false) r
    (sess, s!"x{hexOfStr src} {encNode ⟨.rootNode, [Spec.toTreeL e false]⟩}")
  | ["gen.c02sys", idx] =>
    let e := Gen.sysExpr idx.toNat!
    -- systematic cases are written with single spaces, so that a replay is readable
    let src := Spec.renderFrom ((Spec.render e).map fun t => ([Spec.Sep.ws ' '], Gen.ptok t)) []
    (sess, s!"x{hexOfStr src} {encNode ⟨.rootNode, [Spec.toTree e]⟩}")
  | ["gen.c02tight", idx] =>
    let (src, e) := Gen.tightCase idx.toNat!
    (sess, s!"x{hexOfStr src} {encNode ⟨.rootNode, [Spec.toTree e]⟩}")
  | ["gen.c02call", idx] =>
    let i := idx.toNat!
    let (ts, tree) := if h : i < Gen.assignOps.size then
        (Spec.callAssignTokens Gen.assignOps[i], Spec.callAssignTree Gen.assignOps[i])
      else (Spec.chainCallAssignTokens, Spec.chainCallAssignTree)
    let src := Spec.renderFrom (ts.map fun t => ([Spec.Sep.ws ' '], Gen.ptok t)) []
    (sess, s!"x{hexOfStr src} {encNode tree}")
  | ["gen.c05", seed, depth] =>
    let (l, r) := Gen.genOperand.genLevel ⟨seed.toNat!⟩ depth.toNat!
    let (src, _) := Gen.renderTokens (Spec.renderLevel l) r
    (sess, s!"x{hexOfStr src} {encNode (Spec.levelTree l)}")
  | ["gen.c07", seed, n] =>
    let (ts, r) := Gen.genTokens ⟨seed.toNat!⟩ n.toNat!
    let (src1, r) := Gen.renderTokens ts r
    let (src2, _) := Gen.renderTokens ts r
    (sess, s!"x{hexOfStr src1} x{hexOfStr src2} {Gen.encTokens ts}")
  | ["spec.stop", slot, src] =>
    -- C11: does the mutable run apply an assignment operator before finishing or failing?
    match sess.get slot.toNat!, buildOperatorTree (hexArg src) with
    | some c, .ok n =>
      (sess, match (Spec.evalStop n { ctx := c, log := [] }).1 with
        | .reachedAssign => "reached"
        | .finished r => "finished " ++ encRes encValue r)
    | some _, .error e => (sess, "finished err " ++ encErr e)
    | none, _ => (sess, "bad-op")
  | ["gen.c14", seed, depth] =>
    let (e, r) := Gen.genExpr ⟨seed.toNat!⟩ depth.toNat!
    let (src, _) := Gen.renderTokens (Spec.render e) r
    let cls : IdentClass → String := fun c => match c with | .write => "w" | .read => "r" | .function => "f"
    (sess, s!"x{hexOfStr src} {",".intercalate ((Spec.occ e).map fun (c, x) => cls c ++ ":" ++ hexOfStr x)}")
  | ["gen.c14l", seed, depth] =>
    -- C14 over the domain of C05: a sequence level (absent elements, empty groups) and its occurrence list
    let (l, r) := Gen.genOperand.genLevel ⟨seed.toNat!⟩ depth.toNat!
    let (src, _) := Gen.renderTokens (Spec.renderLevel l) r
    let cls : IdentClass → String := fun c => match c with | .write => "w" | .read => "r" | .function => "f"
    (sess, s!"x{hexOfStr src} {",".intercalate ((Spec.occLevel l).map fun (c, x) => cls c ++ ":" ++ hexOfStr x)}")
  | ["evalrename", slot, suffix, src] =>
    -- C14: rename the variables of the tree through the mutable iterator, then evaluate
    match sess.get slot.toNat!, buildOperatorTree (hexArg src) with
    | some c, .ok n =>
      let n' := n.renameDesc .variable (· ++ hexArg suffix)
      let (r, s1) := n'.evalMut { ctx := c, log := [] }
      (sess.set slot.toNat! s1.ctx, encRes encValue r ++ " ; " ++ encLog s1.log)
    | some _, .error e => (sess, "err " ++ encErr e ++ " ; ")
    | none, _ => (sess, "bad-op")
  | ["gen.c07tight", idx] =>
    let (a, b, ts) := Gen.tightSignCase idx.toNat!
    (sess, s!"x{hexOfStr a} x{hexOfStr b} {Gen.encTokens ts}")
  | ["gen.poolsize"] => (sess, toString Gen.tokenPool.size)
  | ["gen.c07sys", idx, len] =>
    -- the idx-th token sequence of length len over the token pool, two gap assignments
    let n := Gen.tokenPool.size
    let ts : List Token := (List.range len.toNat!).map fun k => Gen.tokenPool[(idx.toNat! / n ^ k) % n]!
    let (src1, r) := Gen.renderTokens ts ⟨idx.toNat! * 7 + 3⟩
    let (src2, _) := Gen.renderTokens ts r
    (sess, s!"x{hexOfStr src1} x{hexOfStr src2} {Gen.encTokens ts}")
  | ["spec.illformed", src] =>
    match tokenize (hexArg src) with
    | .error e => (sess, "lexerr " ++ encErr e)
    | .ok ts =>
      let t := tokensToOperatorTree ts
      let d := match t with | .ok n => Spec.deficient n | .error _ => false
      (sess, s!"ill={Spec.illFormed ts} balanced={Spec.balanced ts} juxtaposed={Spec.juxtaposedIn none ts} lacks={Spec.lacksOperandIn none ts} modelbuilds={match t with | .ok _ => true | .error _ => false} modeldeficient={d}")
  | ["f64parse", w] =>
    (sess, match F64.parseBits (hexArg w) with
      | some b => if (b &&& 0x7fffffffffffffff) > 0x7ff0000000000000 then "nan" else hex16 b
      | none => "none")
  | ["f64display", bits] => (sess, hexOfStr (F64.display (Float.ofBits (u64OfHex bits.toList))))
  | ["i2f", i] => (sess, encFloat (Int64.ofInt (intOfDec i.toList)).toFloat)
  | _ => (sess, "bad-op")

partial def loop (h : IO.FS.Stream) (out : IO.FS.Stream) (sess : Session) : IO Unit := do
  let line ← h.getLine
  if line.isEmpty then return ()
  let (sess', resp) := handle sess line
  out.putStrLn resp
  if line.trimAscii.toString == "flush" then out.flush
  loop h out sess'

def main : IO Unit := do
  let stdin ← IO.getStdin
  let stdout ← IO.getStdout
  loop stdin stdout {}
  stdout.flush
