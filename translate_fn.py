#!/usr/bin/env python3
"""translate_fn.py — Rust function BODIES (a subset)  ->  Lean 4 definitions (shallow embedding)

Reads EVALEXPR_SRC (default /repo/src), writes lean/EvalexprVerif/Generated/Fn*.lean (only when the
content changes).  `Proofs/AgreeFn*.lean` prove every generated function equal to the hand-written
model function for all inputs, so a semantic edit of the Rust breaks a named proof obligation.

Pipeline: translate.scan (tokens) -> recursive-descent parser (items, types, patterns, expressions,
statements) -> AST -> one fixed rendering rule per construct, into the vocabulary of
lean/EvalexprVerif/Translate/Prelude.lean.  Calls that leave the translated part of the crate are
mapped through the explicit BOUNDARY tables below (printed into the header of every generated file).
Anything outside the subset: `UNTRANSLATABLE: <file>::<fn>: <what>` and exit status 2.

---- tree-builder extension (blocks marked `tree-builder extension` below; summary in CHANGES_T2.md)
* PLACES: `&mut` parameters / `&mut self` are returned next to the result (`ρ × outs`; `?` / panics / `return` carry the CURRENT
  values: `Rs.try_out` …). A local bound to `X.last_mut().unwrap()`, `&mut P`, `&mut X[i]`, another alias, or the `Some(r)` of
  `match X.last_mut()` is an ALIAS: a copy of the place's value, written back (functional update of the path: `{ x with f := … }`,
  `Rs.set_last`, `Rs.set_index`) after every mutation through it. Trusted: Rust's borrow rules (nothing else touches the root
  while the alias lives). Checked here: a direct mutation of the root / a second alias ends the alias (later use: UNTRANSLATABLE);
  an alias must not escape (block value, `return`, tuple / struct / `Some(…)`, assignment, `&mut` return type).
* MUTATION IN BRANCHES: a branching statement (`if`, `if let`, `match`, block) whose branches assign variables declared outside it
  returns their final values from every branch and rebinds them (`let (v, a, b) ← if …`). The assigned variables are found by a
  dry run of the translation (`discover`), so mutations through aliases, `pop()`, `&mut` arguments are seen. A rebinding that
  would be lost inside a sub-expression (`&&` operand, guard, closure) is rejected (`verify_rebinds`), as is an operand that reads
  a variable a later operand mutates (`check_eval_order`).
* LOOPS: `loop` / `while` / `while let` ↦ `Rs.loopFix body state` (Prelude, `partial_fixpoint` over `Option`: `none` = divergence; no
  bound, no termination argument); the state is the tuple of the outer variables the body assigns (declaration order); `break` /
  `continue` ↦ `Rs.brk state` / `Rs.cont state`. A function that contains a loop, is recursive through a place, or calls such a
  function is `Option`-valued (`Rs.D.run`, `Rs.callD`); recursion ↦ `partial_fixpoint`. Termination is PROVED by the agreement
  theorems (`… = some (model value)`). `CONVERGED_CALLS`: callers kept total see divergence as a designated panic outcome.
* PEEKABLE ITERATION: `let mut it = xs.iter().peekable(); while let Some(x) = it.next()[.cloned()] { … it.peek() … }` ↦
  `Rs.forPeek xs state (fun x next state => …)`; any other use of `it` is UNTRANSLATABLE.
"""
import os
import sys

sys.dont_write_bytecode = True
import translate as T  # noqa: E402  (scanner + helpers of the table translator)

SRC = os.environ.get("EVALEXPR_SRC", "/repo/src")
OUT = os.path.join(os.path.dirname(os.path.abspath(__file__)), "lean", "EvalexprVerif", "Generated")


class Untranslatable(Exception):
    def __init__(self, what, where=None):
        super().__init__(what)
        self.what, self.where = what, where


# =============================================================================== AST

class N:
    """generic AST node: kind + attributes"""

    def __init__(self, kind, **kw):
        self.kind = kind
        self.__dict__.update(kw)

    def __repr__(self):
        return "N(" + self.kind + ", " + ", ".join(f"{k}={v!r}" for k, v in self.__dict__.items() if k != "kind") + ")"


# =============================================================================== parser

BINPREC = [  # low -> high; (operators, associativity)
    (["||"], "left"),
    (["&&"], "left"),
    (["==", "!=", "<", ">", "<=", ">="], "none"),
    (["|"], "left"),
    (["^"], "left"),
    (["&"], "left"),
    (["+", "-"], "left"),
    (["*", "/", "%"], "left"),
]
ASSIGN_OPS = ["=", "+=", "-=", "*=", "/=", "%=", "^="]
KEYWORDS = {"if", "else", "match", "let", "return", "for", "while", "loop", "fn", "impl", "use", "mut", "ref", "in",
            "as", "break", "continue", "struct", "enum", "trait", "pub", "mod", "const", "static", "type", "where",
            "move", "unsafe", "dyn"}


class Parser:
    def __init__(self, toks, where):
        self.t, self.i, self.where = toks, 0, where

    # ---- token helpers
    def peek(self, k=0):
        j = self.i + k
        return self.t[j] if j < len(self.t) else T.Tok("eof", "<eof>", -1)

    def at(self, text, k=0):
        t = self.peek(k)
        return t.kind in ("p", "id") and t.text == text

    def at_id(self, k=0):
        t = self.peek(k)
        return t.kind == "id" and t.text not in KEYWORDS

    def next(self):
        t = self.peek()
        self.i += 1
        return t

    def fail(self, what):
        t = self.peek()
        raise Untranslatable(f"{what} (at `{T.text_of(self.t[self.i:self.i + 6])}`, line {t.line})", self.where)

    def expect(self, text):
        if not self.at(text):
            self.fail(f"expected `{text}`")
        return self.next()

    def accept(self, text):
        if self.at(text):
            self.next()
            return True
        return False

    def ident(self):
        if self.peek().kind != "id":
            self.fail("expected an identifier")
        return self.next().text

    def eof(self):
        return self.i >= len(self.t)

    # ---- generics `<...>` (declaration side): [(name, bound token texts)]
    def generics_decl(self):
        res = []
        if not self.at("<"):
            return res
        self.next()
        depth, cur = 1, []
        while depth:
            t = self.next()
            if t.kind == "eof":
                self.fail("unbalanced generics")
            if t.text == "<" and t.kind == "p":
                depth += 1
            elif t.text == ">" and t.kind == "p":
                depth -= 1
                if depth == 0:
                    break
            if depth == 1 and t.kind == "p" and t.text == ",":
                res.append(cur)
                cur = []
            else:
                cur.append(t)
        if cur:
            res.append(cur)
        out = []
        for g in res:
            if g[0].kind == "lifetime":
                continue
            out.append((g[0].text, [x.text for x in g[1:]]))
        return out

    # ---- types
    def type_(self):
        if self.accept("&"):
            if self.peek().kind == "lifetime":
                self.next()
            mut = self.accept("mut")
            return N("tref", mut=mut, inner=self.type_())
        if self.at("&&"):
            self.next()
            mut = self.accept("mut")
            return N("tref", mut=False, inner=N("tref", mut=mut, inner=self.type_()))
        if self.accept("["):
            inner = self.type_()
            self.expect("]")
            return N("tslice", inner=inner)
        if self.accept("("):
            items = []
            while not self.at(")"):
                items.append(self.type_())
                if not self.accept(","):
                    break
            self.expect(")")
            return N("ttuple", items=items)
        if self.at("<") and self.peek().kind == "p":
            # `<T as Trait>::Name`
            self.next()
            q = self.type_()
            self.expect("as")
            self.type_()
            self.expect(">")
            self.expect("::")
            return N("tpath", segs=[("<qself>", [q]), (self.ident(), [])])
        if self.at("fn") and self.at("(", 1):
            self.next()
            self.next()
            params = []
            while not self.at(")"):
                params.append(self.type_())
                if not self.accept(","):
                    break
            self.expect(")")
            ret = None
            if self.accept("->"):
                ret = self.type_()
            return N("tfn", params=params, ret=ret)
        if self.at("impl") and self.at("Iterator", 1):
            # phase 6: `impl Iterator<Item = T>` (a return type): the list of the items it yields
            self.next()
            inner = self.type_()
            return N("tpath", segs=[("ImplIterator", inner.segs[-1][1])])
        if self.peek().kind != "id" or self.peek().text in ("impl", "dyn", "fn", "for", "mut", "const"):
            self.fail("expected a (path / reference / slice / tuple) type")
        segs = []
        while True:
            name = self.ident()
            args = []
            if self.at("<"):
                self.next()
                while not self.at(">"):
                    if self.peek().kind == "lifetime":
                        self.next()
                    else:
                        # `Name = Type` (associated type binding) or a type
                        if self.peek().kind == "id" and self.at("=", 1):
                            self.next()
                            self.next()
                        args.append(self.type_())
                    if not self.accept(","):
                        break
                self.expect(">")
            segs.append((name, args))
            if self.at("::") and self.peek(1).kind == "id":
                self.next()
                continue
            break
        return N("tpath", segs=segs)

    # ---- patterns
    def pattern(self):
        alts = [self.pattern1()]
        while self.at("|"):
            self.next()
            alts.append(self.pattern1())
        return alts[0] if len(alts) == 1 else N("por", alts=alts)

    def pattern1(self):
        t = self.peek()
        if t.kind == "p" and t.text == "&":
            self.next()
            self.accept("mut")
            return self.pattern1()
        if t.kind == "p" and t.text == "(":
            self.next()
            items = []
            while not self.at(")"):
                items.append(self.pattern())
                if not self.accept(","):
                    break
            self.expect(")")
            if len(items) == 1:
                return items[0]
            return N("ptuple", items=items)
        if t.kind in ("num", "str", "char") or (t.kind == "id" and t.text in ("true", "false")):
            self.next()
            return N("plit", tok=t)
        if t.kind == "id" and t.text == "_":
            self.next()
            return N("pwild")
        if t.kind == "id" and t.text in ("mut", "ref"):
            self.next()
            if self.at("mut"):
                self.next()
            return N("pident", name=self.ident())
        if t.kind != "id":
            self.fail("unsupported pattern")
        segs = [self.ident()]
        while self.at("::"):
            self.next()
            if self.at("<"):
                self.fail("turbofish in a pattern")
            segs.append(self.ident())
        if self.at("("):
            self.next()
            items = []
            while not self.at(")"):
                if self.at(".."):
                    self.fail("`..` in a tuple-struct pattern")
                items.append(self.pattern())
                if not self.accept(","):
                    break
            self.expect(")")
            return N("ptuplestruct", segs=segs, items=items)
        if self.at("{"):
            self.next()
            fields, rest = [], False
            while not self.at("}"):
                if self.accept(".."):
                    rest = True
                    break
                self.accept("ref")
                self.accept("mut")
                name = self.ident()
                if self.accept(":"):
                    fields.append((name, self.pattern()))
                else:
                    fields.append((name, N("pident", name=name)))
                if not self.accept(","):
                    break
            self.expect("}")
            return N("pstruct", segs=segs, fields=fields, rest=rest)
        if self.at("@"):
            self.fail("`@` pattern")
        return N("ppath", segs=segs)

    # ---- expressions
    def expr(self, no_struct=False):
        return self.assign(no_struct)

    def assign(self, ns):
        lhs = self.binary(0, ns)
        for op in ASSIGN_OPS:
            if self.at(op) and self.peek().kind == "p":
                self.next()
                rhs = self.assign(ns)
                return N("assign", op=op, lhs=lhs, rhs=rhs)
        if (self.at("..") or self.at("..=")) and self.peek().kind == "p":
            incl = self.next().text == "..="
            if self.at("]") or self.at(")"):
                return N("range", lo=lhs, hi=None, inclusive=incl)      # phase 5: `a..`
            rhs = self.binary(0, ns)
            return N("range", lo=lhs, hi=rhs, inclusive=incl)
        return lhs

    def binary(self, level, ns):
        if level == len(BINPREC):
            return self.cast(ns)
        ops, assoc = BINPREC[level]
        lhs = self.binary(level + 1, ns)
        while self.peek().kind == "p" and self.peek().text in ops:
            op = self.next().text
            rhs = self.binary(level + 1, ns)
            lhs = N("binary", op=op, l=lhs, r=rhs)
            if assoc == "none":
                if self.peek().kind == "p" and self.peek().text in ops:
                    self.fail("chained comparison")
                break
        return lhs

    def cast(self, ns):
        e = self.unary(ns)
        while self.at("as"):
            self.next()
            ty = self.type_()
            e = N("cast", e=e, ty=ty)
        return e

    def unary(self, ns):
        t = self.peek()
        if t.kind == "p" and t.text in ("!", "-", "*"):
            self.next()
            return N("unary", op=t.text, e=self.unary(ns))
        if t.kind == "p" and t.text in ("&", "&&"):
            self.next()
            mut = self.accept("mut")
            e = self.unary(ns)
            e = N("ref", mut=mut, e=e)
            if t.text == "&&":
                e = N("ref", mut=False, e=e)
            return e
        return self.postfix(ns)

    def call_args(self):
        self.expect("(")
        args = []
        while not self.at(")"):
            args.append(self.expr())
            if not self.accept(","):
                break
        self.expect(")")
        return args

    def postfix(self, ns):
        e = self.primary(ns)
        while True:
            if self.at("?"):
                self.next()
                e = N("try", e=e)
            elif self.at("(") and self.peek().kind == "p":
                e = N("call", f=e, args=self.call_args())
            elif self.at("[") and self.peek().kind == "p":
                self.next()
                idx = self.expr()
                self.expect("]")
                e = N("index", a=e, i=idx)
            elif self.at(".") and self.peek().kind == "p":
                self.next()
                t = self.peek()
                if t.kind == "num":
                    self.next()
                    e = N("field", e=e, name=t.text)
                    continue
                name = self.ident()
                targs = []
                if self.at("::"):
                    # phase 5: `x.parse::<T>()`
                    self.next()
                    self.expect("<")
                    while not self.at(">"):
                        targs.append(self.type_())
                        if not self.accept(","):
                            break
                    self.expect(">")
                if self.at("("):
                    e = N("mcall", recv=e, name=name, args=self.call_args(), targs=targs)
                else:
                    if targs:
                        self.fail("generic arguments on a field")
                    e = N("field", e=e, name=name)
            else:
                return e

    def block(self):
        """`{ stmts; tail }`"""
        self.expect("{")
        stmts, tail = [], None
        while not self.at("}"):
            if self.accept(";"):
                continue
            if self.at("#"):
                self.fail("attribute inside a function body")
            if self.at("use"):
                self.next()
                segs = [self.ident()]
                glob = False
                while self.accept("::"):
                    if self.accept("*"):
                        glob = True
                        break
                    if self.at("{"):
                        self.fail("`use` group")
                    segs.append(self.ident())
                self.expect(";")
                stmts.append(N("use", segs=segs, glob=glob))
                continue
            if self.at("let"):
                self.next()
                pat = self.pattern()
                ty = None
                if self.accept(":"):
                    ty = self.type_()
                init = None
                if self.accept("="):
                    init = self.expr()
                if self.at("else"):
                    self.fail("let-else")
                self.expect(";")
                stmts.append(N("let", pat=pat, ty=ty, init=init))
                continue
            if self.peek().kind == "id" and self.peek().text in ("fn", "struct", "enum", "impl", "const", "static", "type"):
                self.fail("nested item")
            e = self.expr_stmt()
            if self.accept(";"):
                stmts.append(N("exprstmt", e=e))
            elif self.at("}"):
                tail = e
            elif e.kind in ("if", "iflet", "match", "block", "for", "while", "loop", "whilelet"):  # (tree-builder extension: + whilelet)
                stmts.append(N("exprstmt", e=e))  # block-like expression statement without `;`
            else:
                self.fail("expected `;` or `}` after an expression")
        self.expect("}")
        return N("block", stmts=stmts, tail=tail)

    def expr_stmt(self):
        # block-like expressions at statement position end the statement (no postfix / binary continuation)
        t = self.peek()
        if t.kind == "id" and t.text in ("if", "match", "for", "while", "loop") or (t.kind == "p" and t.text == "{"):
            e = self.primary(False)
            if self.at(".") or self.at("?"):
                # `match … { … }?` / `if … { … }.method()` at statement position: continue as an expression
                return self.continue_postfix(e)
            return e
        return self.expr()

    def continue_postfix(self, e):
        while True:
            if self.at("?"):
                self.next()
                e = N("try", e=e)
            elif self.at(".") and self.peek().kind == "p":
                self.next()
                name = self.ident()
                if self.at("("):
                    e = N("mcall", recv=e, name=name, args=self.call_args())
                else:
                    e = N("field", e=e, name=name)
            else:
                return e

    def if_(self):
        self.expect("if")
        if self.at("let"):
            self.next()
            pat = self.pattern()
            self.expect("=")
            scrut = self.expr(no_struct=True)
            if self.at("&&"):
                self.fail("let chain")
            then = self.block()
            els = self.else_()
            return N("iflet", pat=pat, scrut=scrut, then=then, els=els)
        cond = self.expr(no_struct=True)
        then = self.block()
        els = self.else_()
        return N("if", cond=cond, then=then, els=els)

    def else_(self):
        if not self.accept("else"):
            return None
        if self.at("if"):
            return self.if_()
        return self.block()

    def primary(self, ns):
        t = self.peek()
        if t.kind == "num":
            self.next()
            return N("lit", lk="num", text=t.text)
        if t.kind == "str":
            self.next()
            return N("lit", lk="str", text=t.text)
        if t.kind == "char":
            self.next()
            return N("lit", lk="char", text=t.text)
        if t.kind == "p" and t.text == "(":
            self.next()
            items, trailing = [], False
            while not self.at(")"):
                items.append(self.expr())
                trailing = False
                if not self.accept(","):
                    break
                trailing = True
            self.expect(")")
            if len(items) == 1 and not trailing:
                return N("paren", e=items[0])
            return N("tuple", items=items)
        if t.kind == "p" and t.text == "{":
            return self.block()
        if t.kind == "id" and t.text == "move" and self.peek(1).kind == "p" and self.peek(1).text in ("|", "||"):
            self.next()       # `move`: captures by value; values are immutable in the Model, so no difference
            t = self.peek()
        if t.kind == "p" and t.text in ("|", "||"):
            self.next()
            params = []
            if t.text == "|":
                while not self.at("|"):
                    params.append(self.pattern1())
                    if self.accept(":"):
                        self.type_()
                    if not self.accept(","):
                        break
                self.expect("|")
            body = self.expr()
            return N("closure", params=params, body=body)
        if t.kind == "p" and t.text == "<":
            # `<T as Trait>::name`: the associated item `name` of T
            self.next()
            q = self.type_()
            self.expect("as")
            self.type_()
            self.expect(">")
            self.expect("::")
            head = type_head(q)
            segs = [head, self.ident()]
            while self.at("::") and self.peek(1).kind == "id":
                self.next()
                segs.append(self.ident())
            return N("path", segs=segs)
        if t.kind != "id":
            self.fail("unsupported expression")
        if t.text in ("true", "false"):
            self.next()
            return N("lit", lk="bool", text=t.text)
        if t.text == "if":
            return self.if_()
        if t.text == "match":
            self.next()
            scrut = self.expr(no_struct=True)
            self.expect("{")
            arms = []
            while not self.at("}"):
                cfg = None
                while self.at("#"):
                    # only `#[cfg(feature = "…")]` on an arm is understood: the arm exists only with that cargo feature
                    a0 = self.i
                    self.next()
                    close = T.match_close(self.t, self.i)
                    txt = T.text_of(self.t[self.i + 1:close])
                    self.i = close + 1
                    import re as _re
                    m = _re.fullmatch(r'cfg \( feature = "(\w+)" \)', txt)
                    if not m:
                        self.i = a0
                        self.fail("attribute on a match arm: " + txt)
                    cfg = m.group(1)
                self.accept("|")
                pat = self.pattern()
                guard = None
                if self.accept("if"):
                    guard = self.expr()
                self.expect("=>")
                if self.at("{"):
                    body = self.block()
                    if self.at(".") or self.at("?"):
                        body = self.continue_postfix(body)
                    self.accept(",")
                else:
                    body = self.expr()
                    if not self.at("}"):
                        self.expect(",")
                arms.append(N("arm", pat=pat, guard=guard, body=body, cfg=cfg))
            self.expect("}")
            return N("match", scrut=scrut, arms=arms)
        if t.text == "for":
            self.next()
            pat = self.pattern()
            self.expect("in")
            it = self.expr(no_struct=True)
            body = self.block()
            return N("for", pat=pat, iter=it, body=body)
        if t.text == "return":
            self.next()
            if self.at(";") or self.at("}") or self.at(","):
                return N("return", e=None)
            return N("return", e=self.expr())
        # ---- tree-builder extension: loops (`loop`, `while`, `while let`, `break`, `continue`; no labels, no `break value`)
        if t.text == "loop":
            self.next()
            return N("loop", body=self.block())
        # ---- tree-builder extension and phase 5 (lexer), identical on both sides: `while`, `while let`, `break`, `continue`
        if t.text == "while":
            self.next()
            if self.at("let"):
                self.next()
                pat = self.pattern()
                self.expect("=")
                scrut = self.expr(no_struct=True)
                return N("whilelet", pat=pat, scrut=scrut, body=self.block())
            cond = self.expr(no_struct=True)
            return N("while", cond=cond, body=self.block())
        if t.text in ("break", "continue"):
            self.next()
            if not (self.at(";") or self.at("}") or self.at(",")):
                self.fail(f"`{t.text}` with a label or a value")
            return N(t.text)
        # ---- end of the tree-builder extension / phase 5
        if t.text in ("unsafe", "move", "async", "await"):
            self.fail(f"`{t.text}` expression")
        # path, macro call, struct literal
        segs = [self.ident()]
        while self.at("::"):
            self.next()
            if self.at("<"):
                # turbofish: explicit generic arguments are dropped (the Model is monomorphic)
                self.next()
                while not self.at(">"):
                    self.type_()
                    if not self.accept(","):
                        break
                self.expect(">")
                continue
            segs.append(self.ident())
        if self.at("!") and self.peek(1).kind == "p" and self.peek(1).text in ("(", "[", "{"):
            self.next()
            open_i = self.i
            close_i = T.match_close(self.t, open_i)
            inner = self.t[open_i + 1:close_i]
            self.i = close_i + 1
            return N("macro", name=segs[-1], toks=inner)
        if self.at("{") and not ns and (segs[-1][0].isupper()):
            self.next()
            fields = []
            while not self.at("}"):
                if self.at(".."):
                    self.fail("struct update syntax")
                name = self.ident()
                if self.accept(":"):
                    fields.append((name, self.expr()))
                else:
                    fields.append((name, N("path", segs=[name])))
                if not self.accept(","):
                    break
            self.expect("}")
            return N("structlit", segs=segs, fields=fields)
        return N("path", segs=segs)


# =============================================================================== items

ASSOC_DECL = {}   # (file, impl type, name) -> type AST of `type name = …;` in an impl block
MACROS = {}    # file -> {macro name: [(pattern tokens, body tokens)]}
CONSTS = {}    # file -> {const name: initialiser tokens}
STRUCTS = {}   # file -> {struct name: [field names]}


class FnItem:
    def __init__(self, file, impl_type, impl_trait, trait_args, name, generics, params, ret, body_toks, self_kind, line):
        self.file, self.impl_type, self.impl_trait, self.trait_args = file, impl_type, impl_trait, trait_args
        self.name, self.generics, self.params, self.ret = name, generics, params, ret
        self.body_toks, self.self_kind, self.line = body_toks, self_kind, line

    @property
    def where(self):
        owner = (self.impl_type + "::") if self.impl_type else ""
        return f"{self.file}::{owner}{self.name}"


def from_desc(ty):
    """(`&mut T`-style description, name suffix) of the source type of an `impl From<…>`"""
    pre, suf = "", ""
    while ty.kind == "tref":
        pre += "&mut " if ty.mut else "&"
        suf += "mut_" if ty.mut else "ref_"
        ty = ty.inner
    head = type_head(ty)
    suf = "" if suf == "ref_" else suf     # a single `&` is not part of the name
    return pre + head, suf + head


def type_head(ty):
    """name of the outermost type constructor, references stripped"""
    while ty.kind == "tref":
        ty = ty.inner
    if ty.kind == "tpath":
        return ty.segs[-1][0]
    if ty.kind == "tslice":
        return "[]"
    if ty.kind == "ttuple":
        return "()"
    return "?"


def parse_items(file):
    """all fn items of a source file (with their impl context) and all enum declarations"""
    toks = T.load(file)
    fns, enums = [], {}
    consts, structs = CONSTS.setdefault(file, {}), STRUCTS.setdefault(file, {})

    def fn_at(p, impl_type, impl_trait, trait_args):
        # p.i at `fn`
        start = p.i
        line = p.peek().line
        p.expect("fn")
        name = p.ident()
        where = f"{file}::{(impl_type + '::') if impl_type else ''}{name}"
        p.where = where
        sig_error = None
        generics, params, self_kind, ret = [], [], None, None
        try:
            generics = p.generics_decl()
            p.expect("(")
            while not p.at(")"):
                if p.at("&") and (p.at("self", 1) or (p.at("mut", 1) and p.at("self", 2))):
                    p.next()
                    self_kind = "&mut" if p.accept("mut") else "&"
                    p.expect("self")
                elif p.at("self") or (p.at("mut") and p.at("self", 1)):
                    p.accept("mut")
                    p.next()
                    self_kind = "self"
                else:
                    pat = p.pattern1()
                    p.expect(":")
                    ty = p.type_()
                    params.append((pat, ty))
                if not p.accept(","):
                    break
            p.expect(")")
            if p.accept("->"):
                ret = p.type_()
            if p.at("where"):
                wt = []
                while not p.at("{") and not p.at(";"):
                    wt.append(p.next().text)
                # ---- phase 8: `where G: Bound, …`: the bound of a generic parameter declared without one
                for gi, (gn, gb) in enumerate(generics):
                    if not gb:
                        for j in range(len(wt) - 1):
                            if wt[j] == gn and wt[j + 1] == ":" and wt[j - 1] in ("where", ","):
                                k = j + 2
                                while k < len(wt) and wt[k] != ",":
                                    k += 1
                                generics[gi] = (gn, gb + wt[j + 2:k])
                # ---- end phase 8
        except Untranslatable as e:
            # a signature outside the subset: the item is still indexed (by name), but cannot be translated
            sig_error = e.what
            p.i = start
            while not p.at("{") and not p.at(";"):
                if p.peek().kind == "p" and p.peek().text in ("(", "["):
                    p.i = T.match_close(p.t, p.i)
                p.next()
        if p.accept(";"):
            return None
        open_i = p.i
        close_i = T.match_close(p.t, open_i)
        body = p.t[open_i:close_i + 1]
        p.i = close_i + 1
        f = FnItem(file, impl_type, impl_trait, trait_args, name, generics, params, ret, body, self_kind, line)
        f.sig_error = sig_error
        return f

    def skip_attr(p):
        # `#[...]` / `#![...]`
        p.next()
        p.accept("!")
        j = T.match_close(p.t, p.i)
        p.i = j + 1

    def scan_body(p, end, impl_type, impl_trait, trait_args):
        while p.i < end:
            if p.at("#"):
                skip_attr(p)
            elif p.at("fn") and p.peek(1).kind == "id":
                f = fn_at(p, impl_type, impl_trait, trait_args)
                if f:
                    fns.append(f)
            elif p.at("type") and p.peek(1).kind == "id" and p.at("=", 2):
                # `type Item = T;` of a trait impl
                p.next()
                nm = p.ident()
                p.next()
                save = p.where
                try:
                    ASSOC_DECL[(file, impl_type, nm)] = p.type_()
                except Untranslatable:
                    pass
                p.where = save
                while not p.at(";"):
                    p.next()
            else:
                t = p.next()
                if t.kind == "p" and t.text in T.OPEN:
                    p.i = T.match_close(p.t, p.i - 1) + 1

    p = Parser(toks, file)
    while not p.eof():
        if p.at("#"):
            skip_attr(p)
        elif p.at("impl"):
            p.next()
            p.where = file + "::impl"
            p.generics_decl()
            first = p.type_()
            impl_trait, trait_args, ty = None, [], first
            if p.accept("for"):
                impl_trait = first.segs[-1][0] if first.kind == "tpath" else "?"
                trait_args = first.segs[-1][1] if first.kind == "tpath" else []
                ty = p.type_()
            while not p.at("{"):
                p.next()
            end = T.match_close(p.t, p.i)
            p.next()
            scan_body(p, end, type_head(ty), impl_trait, trait_args)
            p.i = end + 1
        elif p.at("trait"):
            p.next()
            name = p.ident()
            while not p.at("{"):
                p.next()
            end = T.match_close(p.t, p.i)
            p.next()
            scan_body(p, end, name, "<trait>", [])
            p.i = end + 1
        elif p.at("enum"):
            p.next()
            name = p.ident()
            p.where = file + "::enum " + name
            p.generics_decl()
            p.expect("{")
            variants = []
            while not p.at("}"):
                if p.at("#"):
                    skip_attr(p)
                    continue
                v = p.ident()
                if p.at("("):
                    p.next()
                    tys = []
                    while not p.at(")"):
                        tys.append(p.type_())
                        if not p.accept(","):
                            break
                    p.expect(")")
                    variants.append((v, "tuple", [None] * len(tys)))
                elif p.at("{"):
                    p.next()
                    names = []
                    while not p.at("}"):
                        if p.at("#"):
                            skip_attr(p)
                            continue
                        p.accept("pub")
                        names.append(p.ident())
                        p.expect(":")
                        p.type_()
                        if not p.accept(","):
                            break
                    p.expect("}")
                    variants.append((v, "struct", names))
                else:
                    variants.append((v, "unit", []))
                if not p.accept(","):
                    break
            p.expect("}")
            enums[name] = variants
        elif p.at("const") and p.peek(1).kind == "id" and p.at(":", 2):
            p.next()
            name = p.ident()
            p.next()
            start = p.i
            while not p.at("=") :
                p.next()
            p.next()
            start = p.i
            while not p.at(";"):
                if p.peek().kind == "p" and p.peek().text in T.OPEN:
                    p.i = T.match_close(p.t, p.i)
                p.next()
            consts[name] = p.t[start:p.i]
        elif p.at("struct") and p.peek(1).kind == "id":
            p.next()
            name = p.ident()
            p.where = file + "::struct " + name
            p.generics_decl()
            if p.at("{"):
                end = T.match_close(p.t, p.i)
                p.next()
                names = []
                while p.i < end:
                    if p.at("#"):
                        skip_attr(p)
                        continue
                    if p.accept("pub"):
                        if p.at("("):
                            p.i = T.match_close(p.t, p.i) + 1
                    names.append(p.ident())
                    p.expect(":")
                    angle = 0
                    while p.i < end and not (angle == 0 and p.at(",")):
                        if p.peek().kind == "p" and p.peek().text in ("(", "["):
                            p.i = T.match_close(p.t, p.i)
                        elif p.at("<"):
                            angle += 1
                        elif p.at(">"):
                            angle -= 1
                        p.next()
                    if not p.accept(","):
                        break
                structs[name] = names
                p.i = end + 1
        elif p.at("fn") and p.peek(1).kind == "id":
            f = fn_at(p, None, None, [])
            if f:
                fns.append(f)
        elif p.at("macro_rules"):
            p.next()
            p.expect("!")
            name = p.ident()
            end = T.match_close(p.t, p.i)
            p.next()
            arms = []
            while p.i < end:
                if p.accept(";"):
                    continue
                if not (p.peek().kind == "p" and p.peek().text in T.OPEN):
                    break
                pc = T.match_close(p.t, p.i)
                pat = p.t[p.i + 1:pc]
                p.i = pc + 1
                p.expect("=>")
                bc = T.match_close(p.t, p.i)
                body = p.t[p.i + 1:bc]
                p.i = bc + 1
                arms.append((pat, body))
            MACROS.setdefault(file, {})[name] = arms
            p.i = end + 1
        else:
            t = p.next()
            if t.kind == "p" and t.text in T.OPEN:
                p.i = T.match_close(p.t, p.i - 1) + 1
    return fns, enums


# =============================================================================== Lean output nodes

class L:
    """Lean code: `eff` = a monadic term (`Flow ρ α` / `M ρ α`), else a plain term"""
    eff = False
    ctx = False  # needs the context monad `M`


class Atom(L):
    def __init__(self, text):
        self.text = text


class App(L):
    def __init__(self, head, args, eff=False, ctx=False):
        self.head, self.args, self.eff, self.ctx = head, args, eff, ctx


class Tup(L):
    def __init__(self, items):
        self.items = items


class ListLit(L):
    def __init__(self, items):
        self.items = items


class Lam(L):
    def __init__(self, params, body):
        self.params, self.body = params, body


class PureM(L):
    """`pure t`"""
    eff = True

    def __init__(self, term):
        self.term = term


class Match(L):
    def __init__(self, scruts, arms, eff, ctx):
        self.scruts, self.arms, self.eff, self.ctx = scruts, arms, eff, ctx  # arms: [( [pattern text], body )]


class If(L):
    def __init__(self, c, t, e, eff, ctx):
        self.c, self.t, self.e, self.eff, self.ctx = c, t, e, eff, ctx


class Seq(L):
    """eff: `do` block; else a chain of `let … := …` in front of a term. stmts: (kind, pattern, node), kind bind|let"""

    def __init__(self, stmts, final, eff, ctx):
        self.stmts, self.final, self.eff, self.ctx = stmts, final, eff, ctx


def lift(node):
    """a plain term as a monadic one"""
    return node if node.eff else PureM(node)


def is_simple(n):
    return isinstance(n, Atom) or (isinstance(n, (ListLit, Tup)))


def render(n, ind, paren=False):
    """text of node `n`; continuation lines are indented relative to `ind`"""
    sp = " " * ind
    if isinstance(n, Atom):
        return n.text
    if isinstance(n, Tup):
        if not n.items:
            return "()"
        return "(" + ", ".join(render(x, ind + 2) for x in n.items) + ")"
    if isinstance(n, ListLit):
        return "[" + ", ".join(render(x, ind + 2) for x in n.items) + "]"
    if isinstance(n, App):
        s = n.head + "".join(" " + render(a, ind + 2, True) for a in n.args)
        return "(" + s + ")" if paren and n.args else s
    if isinstance(n, PureM):
        s = "pure " + render(n.term, ind + 2, True)
        return "(" + s + ")" if paren else s
    if isinstance(n, Lam):
        s = "fun " + " ".join(n.params) + " => " + render(n.body, ind + 2)
        return "(" + s + ")"
    if isinstance(n, Match):
        head = "match " + ", ".join(render(s, ind + 2) for s in n.scruts) + " with"
        lines = [head]
        for pats, body in n.arms:
            lines.append(sp + "  | " + " | ".join(pats) + " => " + render(body, ind + 4, False))
        return "(" + "\n".join(lines) + ")"
    if isinstance(n, If):
        out = "(if " + render(n.c, ind + 2) + " then\n" + sp + "    " + render(n.t, ind + 4)
        e = n.e
        while isinstance(e, If):          # `else if` chains stay flat
            out += "\n" + sp + "  else if " + render(e.c, ind + 2) + " then\n" + sp + "    " + render(e.t, ind + 4)
            e = e.e
        return out + "\n" + sp + "  else\n" + sp + "    " + render(e, ind + 4) + ")"
    if isinstance(n, Seq):
        lines = []
        for kind, pat, v in n.stmts:
            arrow = "←" if kind in ("bind", "mutbind") else ":="      # kinds `let` and `mut` are both plain `let`
            lines.append(sp + "  let " + pat + " " + arrow + " " + render(v, ind + 2, False))
        lines.append(sp + "  " + render(n.final, ind + 2, False))
        if n.eff:
            return "(do\n" + "\n".join(lines) + ")"
        return "(\n" + "\n".join(lines) + ")"
    raise AssertionError(n)


TEMP = "τ"


def hoistable(st):
    """a statement that may be moved into the enclosing sequence: binds a temporary, or is the rebinding made by a
    mutation rule (kind `mut`, or — tree-builder extension — a `Rebind` pattern), which is meant to be visible afterwards"""
    kind, p, _ = st
    return kind in ("mut", "mutbind") or p.startswith(TEMP) or p.startswith("_") or isinstance(p, Rebind)


# ---- tree-builder extension: rebinding of a mutable place
class Rebind(str):
    """pattern of a statement that rebinds the root variable of a mutated place (`let x := <new value of x>`): the rebinding
    must reach the statement list of the enclosing block, so such statements are hoisted like temporaries"""


def has_rebind(n):
    return isinstance(n, Seq) and any(isinstance(p, Rebind) for _, p, _ in n.stmts)


def flat_ok(n):
    return all(hoistable(st) for st in n.stmts)
# ---- end of the tree-builder extension


def bind_stmts(pat, node):
    """statements that bind the value of `node` (monadic or plain) to `pat`"""
    # ---- tree-builder extension: a (pure) sequence that rebinds a place is hoisted
    if not node.eff and has_rebind(node) and flat_ok(node):
        return node.stmts + bind_stmts(pat, node.final)
    if isinstance(node, PureM) and has_rebind(node.term) and flat_ok(node.term):
        return node.term.stmts + bind_stmts(pat, node.term.final)
    # ---- end of the tree-builder extension
    if not node.eff:
        if isinstance(node, Seq) and all(hoistable(st) for st in node.stmts):
            return node.stmts + [("let", pat, node.final)]
        return [("let", pat, node)]
    if isinstance(node, PureM):
        return [("let", pat, node.term)]
    if isinstance(node, Seq) and all(hoistable(st) for st in node.stmts):
        return node.stmts + bind_stmts(pat, node.final)
    return [("bind", pat, node)]


def mkseq(stmts, final):
    """sequence; flattens a final sequence whose own bindings are temporaries"""
    if not stmts:
        return final
    eff = final.eff or any(k in ("bind", "mutbind") for k, _, _ in stmts)
    if eff and not final.eff and has_rebind(final):   # (tree-builder extension: keep the rebindings at statement level)
        stmts, final = stmts + final.stmts, final.final
    if eff:
        final = lift(final)
    if isinstance(final, Seq) and final.eff == eff:
        stmts = stmts + final.stmts
        final = final.final
    ctx = final.ctx or any(v.ctx for _, _, v in stmts)
    return Seq(stmts, final, eff, ctx)


# =============================================================================== correspondence tables (TRUSTED)

# Rust type name -> Lean type of the Model (generic parameter `NumericTypes` is fixed to DefaultNumericTypes)
TYPE_MAP = {
    "()": "Unit",      # phase 6: `impl … for ()`
    "NodeVisitor": "Unit",      # phase 8: `struct NodeVisitor(PhantomData)` (feature_serde/mod.rs)
    "char": "Char", "Token": "Token", "PartialToken": "PartialToken", "Peekable": "(List Char)", "Chars": "(List Char)",
    "usize": "Nat", "u64": "UInt64", "u32": "UInt32", "bool": "Bool", "DefaultNumericTypes": "Unit", "String": "Str", "str": "Str", "i64": "Int64", "f64": "Float",
    "Value": "Value", "ValueType": "ValueType", "Operator": "Operator", "Node": "Node", "EvalexprError": "Err",
    "TupleType": "(List Value)", "EmptyType": "Unit", "Int": "Int64", "Float": "Float",
    "HashMapContext": "HashMapCtx", "EmptyContext": "Unit", "EmptyContextWithBuiltinFunctions": "Unit",
    "Function": "UserFn", "RangeInclusive": "Rs.RangeInclusive",
    # the explicit stack of slice iterators of tree/iter.rs: a Vec (top = last) of the remaining children
    "NodeIter": "Rs.IterStack", "OperatorIterMut": "Rs.IterStack",
    # ---- tree-builder extension: tokens; `i32` (operator precedences) is `Nat` like in Model/Operator.lean: the translated code
    # only compares precedences and writes them as non-negative literals (a `-` on an i32 has no Prelude instance: Lean rejects it)
    "Token": "Token", "i32": "Nat",
    # `Self` of the default methods of these traits: any context
    "ContextWithMutableVariables": "Ctx", "ContextWithMutableFunctions": "Ctx",
}
# associated iterator types of IterateVariablesContext: an iterator is the list of the items it yields (for a HashMap: in
# the order of the Model's association list; Rust leaves the order unspecified)
ASSOC_TYPE_MAP = {"VariableIterator": "List (Str × Value)", "VariableNameIterator": "List Str"}
GENERIC_TYPE_MAP = {"Vec": "List", "Option": "Option"}

LEAN_KEYWORDS = {
    "end", "at", "in", "show", "from", "have", "fun", "do", "then", "else", "if", "let", "open", "local", "instance", "by",
    "with", "where", "deriving", "structure", "class", "namespace", "section", "variable", "theorem", "def", "example",
    "mutual", "macro", "syntax", "notation", "match", "return", "for", "unless", "try", "catch", "finally", "nomatch",
    "calc", "Type", "Sort", "Prop", "exists", "forall", "using", "suffices", "obtain", "extends", "abbrev", "inductive",
    "axiom", "opaque", "import", "export", "universe", "set_option", "attribute", "private", "protected", "partial",
    "noncomputable", "nonrec", "termination_by", "decreasing_by", "mut", "break", "continue", "true", "false",
}


def lname(name):
    return "«" + name + "»" if name in LEAN_KEYWORDS else name


def camel(v):
    return v[0].lower() + v[1:]


# enum variants: Rust enum -> variant -> (Lean constructor, kind, Rust field names in the constructor's argument order)
def build_enum_map():
    m = {}
    m["Value"] = {v: ("Value." + camel(v), k, f) for v, k, f in [
        ("String", "tuple", [None]), ("Float", "tuple", [None]), ("Int", "tuple", [None]), ("Boolean", "tuple", [None]),
        ("Tuple", "tuple", [None]), ("Empty", "unit", [])]}
    m["ValueType"] = {v: ("ValueType." + camel(v), "unit", []) for v in ["String", "Float", "Int", "Boolean", "Tuple", "Empty"]}
    op = {}
    for v, lean in T.OPKIND.items():
        if v in ("Const",):
            op[v] = ("Operator." + lean, "struct", ["value"])
        elif v in ("VariableIdentifierWrite", "VariableIdentifierRead", "FunctionIdentifier"):
            op[v] = ("Operator." + lean, "struct", ["identifier"])
        else:
            op[v] = ("Operator." + lean, "unit", [])
    m["Operator"] = op
    err = {}
    for v, fields in [
        ("WrongOperatorArgumentAmount", ["expected", "actual"]),
        ("ExpectedString", ["actual"]), ("ExpectedInt", ["actual"]), ("ExpectedFloat", ["actual"]),
        ("ExpectedNumber", ["actual"]), ("ExpectedNumberOrString", ["actual"]), ("ExpectedBoolean", ["actual"]),
        ("ExpectedTuple", ["actual"]), ("ExpectedFixedLengthTuple", ["expected_length", "actual"]),
        ("ExpectedEmpty", ["actual"]), ("TypeError", ["expected", "actual"]),
        ("WrongTypeCombination", ["operator", "actual"]),
        ("AdditionError", ["augend", "addend"]), ("SubtractionError", ["minuend", "subtrahend"]),
        ("NegationError", ["argument"]), ("MultiplicationError", ["multiplicand", "multiplier"]),
        ("DivisionError", ["dividend", "divisor"]), ("ModulationError", ["dividend", "divisor"]),
        ("IntFromUsize", ["usize_int"]), ("IntIntoUsize", ["int"]),
    ]:
        err[v] = ("Err." + camel(v), "struct", fields)
    # variants whose Rust field is a RangeInclusive, spread over two constructor arguments by a Prelude function
    err["WrongFunctionArgumentAmount"] = ("Rs.Err_wrongFunctionArgumentAmount", "struct", ["expected", "actual"])
    err["ExpectedRangedLengthTuple"] = ("Rs.Err_expectedRangedLengthTuple", "struct", ["expected_length", "actual"])
    for v in ["VariableIdentifierNotFound", "FunctionIdentifierNotFound", "IllegalEscapeSequence", "CustomMessage"]:
        err[v] = ("Err." + camel(v), "tuple", [None])
    for v in ["AppendedToLeafNode", "PrecedenceViolation", "UnmatchedLBrace", "UnmatchedRBrace", "UnmatchedDoubleQuote",
              "MissingOperatorOutsideOfBrace", "ContextNotMutable", "BuiltinFunctionsCannotBeEnabled",
              "BuiltinFunctionsCannotBeDisabled", "OutOfBoundsAccess", "RandNotEnabled"]:
        err[v] = ("Err." + camel(v), "unit", [])
    m["EvalexprError"] = err
    # (tree-builder extension: the `Token` table that stood here is phase 5's `add_token_enums` below — same constructor names)
    return m


# ---- phase 5 (lexer): Token / PartialToken (constructor names of translate.py's tables)
def add_token_enums(m):
    tok = {}
    for v, lean in T.TOKEN.items():
        tok[v] = ("Token." + lean, "tuple" if v in ("Identifier", "Float", "Int", "Boolean", "String") else "unit",
                  [None] if v in ("Identifier", "Float", "Int", "Boolean", "String") else [])
    m["Token"] = tok
    par = {"Token": ("PartialToken.token", "tuple", [None]), "Literal": ("PartialToken.literal", "tuple", [None])}
    for v, lean in T.PARTIAL.items():
        par[v] = ("PartialToken" + lean, "unit", [])
    m["PartialToken"] = par
    m["EvalexprError"]["UnmatchedPartialToken"] = ("Err.unmatchedPartialToken", "struct", ["first", "second"])
    return m


ENUM_MAP = add_token_enums(build_enum_map())
ENUM_FILES = {"Token": "token/mod.rs", "PartialToken": "token/mod.rs", "Value": "value/mod.rs", "ValueType": "value/value_type.rs", "Operator": "operator/mod.rs",
              "EvalexprError": "error/mod.rs"}
# struct fields: (Rust struct, field) -> Lean projection
FIELD_MAP = {("Node", "operator"): "Evalexpr.Node.op", ("Node", "children"): "Evalexpr.Node.children",
             ("NodeIter", "stack"): "Rs.IterStack.stack", ("OperatorIterMut", "stack"): "Rs.IterStack.stack",
             ("HashMapContext", "variables"): "Evalexpr.HashMapCtx.vars", ("HashMapContext", "functions"): "Evalexpr.HashMapCtx.funs",
             ("HashMapContext", "without_builtin_functions"): "Evalexpr.HashMapCtx.noBuiltins"}

# structs built by a struct literal: Rust struct -> (Lean constructor, Rust field names in constructor order)
STRUCT_MAP = {"HashMapContext": ("HashMapCtx.mk", ["variables", "functions", "without_builtin_functions"]),
              "NodeIter": ("Rs.IterStack.mk", ["stack"]), "OperatorIterMut": ("Rs.IterStack.mk", ["stack"]),
              "Node": ("Evalexpr.Node.mk", ["operator", "children"])}   # (tree-builder extension: Node)
FIELD_UPDATE = {("NodeIter", "stack"): "stack", ("OperatorIterMut", "stack"): "stack",
                ("HashMapContext", "variables"): "vars", ("HashMapContext", "functions"): "funs",
                ("HashMapContext", "without_builtin_functions"): "noBuiltins",
                ("Node", "operator"): "op", ("Node", "children"): "children"}   # (tree-builder extension: Node)

# ---- BOUNDARY: calls that leave the translated code, mapped to Model definitions (trusted)
# methods on the context parameter (`&C` / `&mut C`, C: Context): name -> (nargs, prelude rendering, doc)
CTX_METHODS = {
    "get_value": (1, "Rs.ctx_get_value", "fun s => (s.ctx.getValue id, s)   [Model: Ctx.getValue]"),
    "call_function": (2, "Rs.ctx_call_function", "the context's user function, logged to St.log   [Model: Ctx.userFn + the logging of callFunction]"),
    "are_builtin_functions_disabled": (0, "Rs.ctx_are_builtin_functions_disabled", "fun s => (s.ctx.builtinsDisabled, s)   [Model: Ctx.builtinsDisabled]"),
    "set_value": (2, "Rs.ctx_set_value", "fun s => setValue s id v   [Model: setValue / Ctx.setValue]"),
}
# other methods, by (name, number of arguments): Lean function (receiver first)
BOUNDARY_METHODS = {
    ("call", 1): "Rs.fn_call",
}
# inherent std methods of the primitive types, called inside `impl … for i64 / f64` on `(*self)` (or on `self` with a name
# the impl's trait does not define): (primitive, name, arity) -> Lean function (Prelude `Rs.i64_*`: Int range arithmetic
# on Int64.toInt; f64: Lean `Float` / the libm bindings of Model/F64.lean)
PRIM_METHODS = {
    ("i64", "checked_add", 1): "Rs.i64_checked_add", ("i64", "checked_sub", 1): "Rs.i64_checked_sub",
    ("i64", "checked_mul", 1): "Rs.i64_checked_mul", ("i64", "checked_div", 1): "Rs.i64_checked_div",
    ("i64", "checked_rem", 1): "Rs.i64_checked_rem", ("i64", "checked_neg", 0): "Rs.i64_checked_neg",
    ("i64", "checked_abs", 0): "Rs.i64_checked_abs",
    ("i64", "wrapping_shl", 1): "Rs.i64_wrapping_shl", ("i64", "wrapping_shr", 1): "Rs.i64_wrapping_shr",
    ("f64", "powf", 1): "Float.pow", ("f64", "ln", 0): "Float.log", ("f64", "log", 1): "Evalexpr.F64.logBase",
    ("f64", "log2", 0): "Float.log2", ("f64", "log10", 0): "Float.log10", ("f64", "exp", 0): "Float.exp",
    ("f64", "exp2", 0): "Float.exp2", ("f64", "cos", 0): "Float.cos", ("f64", "cosh", 0): "Float.cosh",
    ("f64", "acos", 0): "Float.acos", ("f64", "acosh", 0): "Evalexpr.F64.acosh", ("f64", "sin", 0): "Float.sin",
    ("f64", "sinh", 0): "Float.sinh", ("f64", "asin", 0): "Float.asin", ("f64", "asinh", 0): "Evalexpr.F64.asinh",
    ("f64", "tan", 0): "Float.tan", ("f64", "tanh", 0): "Float.tanh", ("f64", "atan", 0): "Float.atan",
    ("f64", "atanh", 0): "Evalexpr.F64.atanh", ("f64", "atan2", 1): "Float.atan2", ("f64", "sqrt", 0): "Float.sqrt",
    ("f64", "cbrt", 0): "Float.cbrt", ("f64", "hypot", 1): "Evalexpr.F64.hypot", ("f64", "floor", 0): "Float.floor",
    ("f64", "round", 0): "Float.round", ("f64", "ceil", 0): "Float.ceil", ("f64", "is_nan", 0): "Evalexpr.F64.isNaN",
    ("f64", "is_finite", 0): "Evalexpr.F64.isFinite", ("f64", "is_infinite", 0): "Evalexpr.F64.isInfinite",
    ("f64", "is_normal", 0): "Evalexpr.F64.isNormal", ("f64", "abs", 0): "Float.abs", ("f64", "min", 1): "Evalexpr.F64.fmin",
    ("f64", "max", 1): "Evalexpr.F64.fmax",
}
# method names that exist both as a std method (e.g. `Ord::min` on the int type) and as a method of the numeric traits
# (`EvalexprFloat::min`): rendered as a Prelude class method; the translated trait impl registers the instance of its type
CLASS_TRAIT_METHODS = {("min", 1): ("Rs.min", "Rs.Min"), ("max", 1): ("Rs.max", "Rs.Max")}
# phase 5: associated std functions of the primitives: `i64::from_str` (FromStr), `i64::from_str_radix(_, 16)`
PRIM_PATHS = {("i64", "from_str"): (1, "Rs.i64_from_str"), ("i64", "from_str_radix"): (2, "Rs.i64_from_str_radix")}
TRANSLATED_TRAITS = ("Visitor", "Display", "TryFrom", "Iterator", "EvalexprInt", "EvalexprFloat", "EvalexprNumericTypes", "IterateVariablesContext")
# free functions / associated functions, by path suffix
BOUNDARY_PATHS = {
    # (tree-builder extension, after phase 5: `token::tokenize` is no longer a boundary call, it is translated; see FUEL_CALLS)
    # (tree-builder extension: `tree::tokens_to_operator_tree` is no longer a boundary call, it is translated; see CONVERGED_CALLS)
}
# ---- tree-builder extension: calls of a may-diverge (`Option`-valued) translated function from code that is translated as total:
# (file, fn name) of the callee -> rendered `Rs.converged "<fn>: diverges" (callee args)`: divergence of the callee is a designated
# panic outcome that no Model function produces, so agreement with the Model includes the callee's termination
CONVERGED_CALLS = {("tree/mod.rs", "tokens_to_operator_tree")}
# ---- tree-builder extension (after phase 5): calls of a FUEL-indexed translated function (phase 4 / 5 loops) from code that is
# translated as total: (file, fn name) of the callee -> index of the `&str` argument whose length gives the fuel; rendered
# `Gen.f (Rs.fuel_chars arg) args…` with `Rs.fuel_chars s = s.length + 1`. The fuel expression is NOT trusted to suffice: with too
# little fuel the callee yields its out-of-fuel panic, which no Model function produces, so the agreement theorem of the caller
# (through `fn_tokenize_agree : s.length < fuel → Gen.tokenize fuel s = tokenize s`) is where sufficiency is proved.
FUEL_CALLS = {("token/mod.rs", "tokenize"): 0}
BOUNDARY_NOTES = [
    "`==` / `!=` on Value (derived PartialEq)            ↦ Evalexpr.Value.beq          (Prelude: Rs.PEq Value)",
    "`<` `<=` `>` `>=` on String                          ↦ Evalexpr.strLt              (Prelude: Rs.POrd Str)",
    "`<` `<=` `>` `>=` on NumericTypes::Int (i64)         ↦ Int order of Int64.toInt    (Prelude: Rs.POrd Int64)",
    "`+ - * /`, unary `-`, comparisons on f64            ↦ Lean Float                  (Prelude: Rs.Add / Rs.Arith / Rs.POrd Float)",
    "`%` on f64                                          ↦ Evalexpr.F64.fmod           (Prelude: Rs.Arith Float)",
]

# ---- std vocabulary rendered by the Prelude: method (name, nargs) -> (Lean function, effect)
STD_METHODS = {
    ("clone", 0): ("Rs.clone", None), ("cloned", 0): ("Rs.cloned", None), ("to_string", 0): ("Rs.to_string", None),
    ("to_owned", 0): ("Rs.clone", None), ("into", 0): ("Rs.into", None),
    ("len", 0): ("Rs.len", None), ("is_empty", 0): ("Rs.is_empty", None), ("first", 0): ("Rs.first", None),
    ("last", 0): ("Rs.last", None), ("get", 1): ("Rs.get", None), ("unwrap_or", 1): ("Rs.unwrap_or", None),
    ("map", 1): ("Rs.map", None), ("unwrap", 0): ("Rs.unwrap", "panic"),
    ("chars", 0): ("Rs.chars", None), ("peekable", 0): ("Rs.iter", None), ("peek", 0): ("Rs.peek", None),
    ("is_whitespace", 0): ("Evalexpr.isWhitespace", None), ("is_ascii_digit", 0): ("Evalexpr.F64.isDigit", None),
    ("strip_prefix", 1): ("Rs.strip_prefix", None), ("ok", 0): ("Rs.ok", None), ("flatten", 0): ("Rs.flatten", None),
    ("then", 1): ("Rs.bool_then", None), ("starts_with", 1): ("Rs.starts_with", None),
    ("filter_map", 1): ("Rs.filter_map", None),        # phase 6
    ("iter", 0): ("Rs.iter", None), ("iter_mut", 0): ("Rs.iter", None), ("into_iter", 0): ("Rs.iter", None), ("keys", 0): ("Rs.keys", None),
    ("to_lowercase", 0): ("Rs.to_lowercase", None), ("to_uppercase", 0): ("Rs.to_uppercase", None), ("trim", 0): ("Rs.trim", None),
    ("contains", 1): ("Rs.contains", None), ("ok_or", 1): ("Rs.ok_or", None), ("as_str", 0): ("Rs.clone", None),
    ("map_err", 1): ("Rs.map_err", None), ("ok_or_else", 1): ("Rs.ok_or_else", None), ("try_into", 0): ("Rs.try_into", None),
    ("copied", 0): ("Rs.copied", None),   # (tree-builder extension)
}
# ---- tree-builder extension: mutators that return a value: (name, nargs) -> Prelude function returning (value, new container)
VALUE_MUTATORS = {("pop", 0): "Rs.pop"}
STD_MUTATORS = {("push_str", 1): "Rs.push_str", ("push", 1): "Rs.push", ("clear", 0): "Rs.clear", ("insert", 2): "Rs.insert",
                ("extend", 1): "Rs.extend"}
UNIT_MUTATORS = {"push_str", "push", "clear", "extend"}
STD_PATHS = {("String", "new"): (0, "Rs.Vec.new"),
             ("iter", "empty"): (0, "Rs.iter_empty"), ("Default", "default"): (0, "Rs.default"), ("From", "from"): (1, "Rs.into"),
             ("BitAnd", "bitand"): (2, "Rs.bitand"), ("BitOr", "bitor"): (2, "Rs.bitor"), ("BitXor", "bitxor"): (2, "Rs.bitxor"),
             ("Not", "not"): (1, "Rs.bitnot"),
             ("Vec", "new"): (0, "Rs.Vec.new"), ("String", "with_capacity"): (1, "Rs.String.with_capacity"),
             ("String", "new"): (0, "Rs.Vec.new"),
             ("mem", "discriminant"): (1, "Rs.discriminant")}   # (tree-builder extension: mem::discriminant)
BINOPS = {"==": "Rs.eq", "!=": "Rs.ne", "<": "Rs.lt", "<=": "Rs.le", ">": "Rs.gt", ">=": "Rs.ge",
          "+": "Rs.add", "-": "Rs.sub", "*": "Rs.mul", "/": "Rs.div", "%": "Rs.rem"}

# source file -> generated module (in dependency order)
MODULES = [("value/value_type.rs", "FnValueType"), ("error/mod.rs", "FnError"), ("value/mod.rs", "FnValue"),
           ("value/numeric_types/default_numeric_types.rs", "FnNumeric"), ("function/builtin.rs", "FnBuiltin"),
           ("token/mod.rs", "FnLexer"), ("context/mod.rs", "FnContext"),
           ("operator/mod.rs", "FnOperator"), ("tree/mod.rs", "FnTree"), ("tree/iter.rs", "FnIter"), ("interface/mod.rs", "FnInterface")]
# finer than per file where the call graph needs it: `impl EvalexprNumericTypes for DefaultNumericTypes` (the casts) is used by
# value/mod.rs, whose `Value::from_int` is used by the `impl EvalexprInt for i64` of the same file
MODULE_OVERRIDES = {("value/numeric_types/default_numeric_types.rs", "DefaultNumericTypes"): "FnNumericTypes"}
MODULE_ORDER = ["FnValueType", "FnNumericTypes", "FnError", "FnValue", "FnNumeric", "FnBuiltin", "FnLexer", "FnContext",
                "FnOperatorTables", "FnToken",   # (tree-builder extension)
                "FnOperator", "FnTree",
                "FnTreeBuild",   # (tree-builder extension)
                "FnIter", "FnInterface",
                "FnSweep"]   # phase 6: the remaining API projections (own module: the existing modules stay byte-identical)
T2_MODULES = ("FnOperatorTables", "FnToken", "FnTreeBuild")
# ---- tree-builder extension: per-function module overrides (file, owner, fn name) -> module
TREE_BUILD_FNS = {("tree/mod.rs", "Node", n): "FnTreeBuild" for n in
                  ("new", "root_node", "has_enough_children", "has_too_many_children", "insert_back_prioritized")}
TREE_BUILD_FNS.update({("tree/mod.rs", None, n): "FnTreeBuild" for n in
                       ("collapse_root_stack_to", "collapse_all_sequences", "tokens_to_operator_tree")})
# (the three token predicates the tree builder uses; the rest of token/mod.rs is the lexer, module FnLexer, phase 5)
TREE_BUILD_FNS.update({("token/mod.rs", "Token", n): "FnToken" for n in ("is_leftsided_value", "is_rightsided_value", "is_assignment")})
TREE_BUILD_FNS.update({("operator/mod.rs", "Operator", n): "FnOperatorTables" for n in
                       ("value", "variable_identifier_write", "variable_identifier_read", "function_identifier", "precedence",
                        "is_left_to_right", "is_sequence", "is_leaf", "max_argument_amount", "is_unary")})


# =============================================================================== tree-builder extension: data
class Place:
    """a place path: a root (local variable / parameter / `self` / alias) and steps ("field", struct, name) | ("last",) | ("index", term)"""

    def __init__(self, root, steps):
        self.root, self.steps = root, steps


class Thread:
    """the outer variables the branches of a statement assign (None: discovery pass, anything goes); want_value: the statement's value is used"""

    def __init__(self, muts, want_value):
        self.muts, self.want_value = muts, want_value


class Loop:
    def __init__(self, kind, muts):
        self.kind, self.muts = kind, muts


class Disc:
    def __init__(self, base, loop_depth):
        self.base, self.loop_depth, self.found = base, loop_depth, []


ALL = object()
BRANCHING = ("if", "iflet", "match", "block")
LOOPS = ("loop", "while", "whilelet")


def diverging(e):
    return e is not None and (e.kind in ("return", "break", "continue") or (e.kind == "macro" and e.name in ("unreachable", "panic")))


def all_diverge(e):
    """control never leaves the expression `e` normally (syntactic check): its type is `!`"""
    if e is None:
        return False
    if diverging(e):
        return True
    if e.kind == "block":
        last = e.tail if e.tail is not None else (e.stmts[-1].e if e.stmts and e.stmts[-1].kind == "exprstmt" else None)
        return all_diverge(last)
    if e.kind in ("if", "iflet"):
        return e.els is not None and all_diverge(e.then) and all_diverge(e.els)
    if e.kind == "match":
        return bool(e.arms) and all(all_diverge(a.body) for a in e.arms)
    return False
# =============================================================================== end of the tree-builder extension: data


# =============================================================================== the translator

class GenFn:
    def __init__(self, item, lean_name, module):
        self.item, self.lean_name, self.module = item, lean_name, module
        self.is_ctx = False
        self.ctx_index = None     # position of the context parameter among the non-self parameters
        self.params = []          # [(lean name, lean type)] without the context parameter
        self.ret = None           # Lean type
        self.text = None
        self.deps = []
        self.done = False
        self.recursive = False
        self.instance = None
        self.mut_params, self.muts, self.conv, self.res0, self.has_loop, self.mut_self = [], [], None, False, False, False
        # free functions are referenced through the namespace, so that a method of the same name cannot capture them
        self.ref_name = lean_name if "." in lean_name else "Gen." + lean_name
        # ---- tree-builder extension
        self.outs = []            # names of the `&mut` places the function returns next to its result: `self` (&mut self), `&mut` parameters
        self.out_idx = []         # positions of the `&mut` parameters among the non-self parameters
        self.res_out = False      # outs and a `Result` return type: `?` / panics return (error, current outs)
        self.div = False          # may diverge: `Option`-valued (contains a loop, is recursive through a place, or calls such a function)


class World:
    def __init__(self):
        self.items = []           # every FnItem of the crate files we index
        self.enums = {}
        self.gen = {}             # id(item) -> GenFn
        self.order = []           # GenFn in emission order
        self.stack = []
        self.skipped_arms = []    # (function, cargo feature, pattern) of match arms under #[cfg(feature = …)]
        files = ["error/mod.rs", "value/mod.rs", "value/value_type.rs", "operator/mod.rs", "tree/mod.rs", "context/mod.rs",
                 "function/mod.rs", "function/builtin.rs", "value/numeric_types/default_numeric_types.rs",
                 "token/mod.rs", "interface/mod.rs", "tree/iter.rs"]
        files += ["value/display.rs"]     # phase 7
        files += ["feature_serde/mod.rs"]     # phase 8
        for f in files:
            try:
                fns, enums = parse_items(f)
            except Untranslatable as e:
                raise Untranslatable("cannot index the items of the file: " + e.what, e.where or f)
            self.items += fns
            for k, v in enums.items():
                self.enums[k] = (f, v)
        self.check_enum_tables()

    def is_fuel(self, item):
        """does the function contain a loop that needs fuel (`loop`, `while`), or call a free function that does"""
        if not hasattr(self, "_fuel"):
            def has(it, words):
                return any(t.kind == "id" and t.text in words for t in it.body_toks)
            # (tree-builder extension: the functions of the tree-builder modules are not fuel-indexed — `Rs.loopFix` — and calls of
            # them do not make the caller fuel-indexed)
            t2 = {id(it) for it in self.items if (it.file, it.impl_type, it.name) in TREE_BUILD_FNS}
            fuel = {id(it) for it in self.items if has(it, ("loop", "while")) and id(it) not in t2}
            names = {it.name for it in self.items if id(it) in fuel and it.impl_type is None}
            changed = True
            while changed:
                changed = False
                for it in self.items:
                    if id(it) in fuel or id(it) in t2:
                        continue
                    tk = it.body_toks
                    for i, t in enumerate(tk):
                        bnd = (i >= 2 and tk[i - 1].text == "::" and (tk[i - 2].text, t.text) in BOUNDARY_PATHS) or \
                            (it.file != "token/mod.rs" and any(t.text == n_ for _, n_ in FUEL_CALLS))   # (tree-builder extension: FUEL_CALLS)
                        if t.kind == "id" and t.text in names and i + 1 < len(tk) and tk[i + 1].text in ("(", "::") \
                                and not (i > 0 and tk[i - 1].text == ".") and not bnd:
                            fuel.add(id(it))
                            if it.impl_type is None:
                                names.add(it.name)
                            changed = True
                            break
            self._fuel = fuel
        return id(item) in self._fuel

    def check_enum_tables(self):
        """the constructor table must agree with the enum declarations of this source tree"""
        for enum, table in ENUM_MAP.items():
            if enum not in self.enums:
                raise Untranslatable(f"enum {enum} not found", ENUM_FILES[enum])
            f, variants = self.enums[enum]
            decl = {v: (k, fields) for v, k, fields in variants}
            for v, (lean, kind, fields) in table.items():
                if v not in decl:
                    raise Untranslatable(f"variant {enum}::{v} of the constructor table is not declared", f)
                dk, dfields = decl[v]
                if dk != kind or len(dfields) != len(fields) or (kind == "struct" and dfields != fields):
                    raise Untranslatable(f"variant {enum}::{v}: declared as {dk} {dfields}, constructor table has {kind} {fields}", f)
            if enum != "EvalexprError":
                extra = set(decl) - set(table)
                if extra:
                    raise Untranslatable(f"enum {enum} has variants unknown to the constructor table: {sorted(extra)}", f)

    # ---- lookup
    def find(self, file, owner, name, trait=None, trait_arg=None):
        res = []
        for it in self.items:
            if it.file == file and it.impl_type == owner and it.name == name:
                if trait is not None and it.impl_trait != trait:
                    continue
                if trait_arg is not None and not (it.trait_args and type_head(it.trait_args[0]) == trait_arg):
                    continue
                res.append(it)
        return res

    def module_of(self, item):
        if getattr(item, "phase6", False):      # phase 6
            return "FnSweep"
        if (item.file, item.impl_type, item.name) in TREE_BUILD_FNS:   # (tree-builder extension)
            return TREE_BUILD_FNS[(item.file, item.impl_type, item.name)]
        # (tree-builder extension) a helper that is not a root (e.g. extracted from a tree-builder function): the module of its caller
        if (self.stack and self.stack[-1].module in T2_MODULES and item.file == self.stack[-1].item.file
                and (item.file, item.impl_type, item.name) not in ROOT_KEYS):
            return self.stack[-1].module
        if (item.file, item.impl_type) in MODULE_OVERRIDES:
            return MODULE_OVERRIDES[(item.file, item.impl_type)]
        for f, m in MODULES:
            if f == item.file:
                return m
        raise Untranslatable("the file is not assigned to a generated module", item.where)

    def require(self, item, from_where=None):
        """GenFn of a crate function, translating it (and what it calls) on first use"""
        g = self.gen.get(id(item))
        if g is not None:
            if not g.done:
                if self.stack[-1] is not g:
                    raise Untranslatable("mutual recursion with " + self.stack[-1].item.where, item.where)
                g.recursive = True
            return g
        if item.sig_error:
            raise Untranslatable("signature: " + item.sig_error, item.where)
        owner = item.impl_type
        if owner == "()":
            owner = "Unit"          # phase 6: `impl … for ()`
        if item.impl_trait == "From":
            lean_name = f"{owner}.from_{from_desc(item.trait_args[0])[1]}".replace("()", "Unit")
        elif item.impl_trait == "TryFrom" and item.name == "try_from":     # phase 6
            lean_name = f"{owner}.try_from"
        elif item.impl_trait == "Default" and item.name == "default":
            lean_name = f"{owner}.default"
        elif item.impl_trait not in (None, "<trait>", "Context", "ContextWithMutableVariables", "ContextWithMutableFunctions") + TRANSLATED_TRAITS:
            raise Untranslatable(f"method of `impl {item.impl_trait} for {owner}`", item.where)
        else:
            lean_name = (owner + "." if owner else "") + lname(item.name)
        g = GenFn(item, lean_name, self.module_of(item))
        self.gen[id(item)] = g
        FnTr(self, g).signature()
        self.stack.append(g)
        FnTr(self, g).translate()
        self.stack.pop()
        g.done = True
        self.order.append(g)
        return g


class FnTr:
    def __init__(self, world, g):
        self.w, self.g, self.item = world, g, g.item
        self.ntemp = 0
        self.frames = []
        self.globs = []           # enums whose variants are in scope through `use Enum::*`
        self.ctx_name = None
        self.div = []             # per open block: does it end with `return`?
        self.entry_refs = {}      # local name -> (field of self, key term): `&mut` into a map entry obtained by get_mut
        self.dead_refs = set()
        self.in_closure = False
        self.nlit = 0
        self.in_value_branch = False
        self.loopb = []           # phase 5: the state tuples of the enclosing `Rs.loopB` loops
        self.cursors = set()      # phase 5: locals / parameters that are character-iterator cursors
        self.places = {}          # phase 5: name -> (vector local, constructor) for `&mut` into the payload of its last element
        self.last_call_muts = None
        self.rank = 0
        self.order_of = {}        # local name -> declaration rank (the loop / branch state tuple is in declaration order)
        self.loop_depth = 0
        self.attach = False       # loops run over `List.attach` (membership proofs for the termination of a recursive fn)
        self.nloops = 0
        # ---- tree-builder extension: the functions of the tree-builder modules are translated with the place discipline (aliases,
        # discovery of assigned variables, `Option`-valued loops); every other function keeps the phase-4 rules (syntactic
        # `assigned_locals`, `over` tuples, fuel-indexed `loop`), so that its generated text and its proofs are unchanged
        self.t2 = g.module in T2_MODULES
        # ---- tree-builder extension
        self.aliases = {}         # local name -> Place: a `&mut` into a place (copy-in, write-through)
        self.alias_saves = []     # per frame: aliases shadowed by the names of the frame
        self.alias_decl = []      # per frame: aliases declared in the frame
        self.thread_sets = []     # per open block: outer variables the block may assign (their final values are part of its value)
        self.pending_thread = None
        self.discs = []           # active discovery passes
        self.mut_cache = {}       # id(AST node) -> outer variables the node assigns
        self.loops = []           # open loops: Loop
        self.iters = {}           # iterator variable -> Lean term of the list it runs over
        self.cur_iters = {}       # iterator variable of an open `while let … next()` loop -> name of the lookahead variable
        self.uses_div = False

    def fail(self, what):
        raise Untranslatable(what, self.item.where)

    def temp(self):
        self.ntemp += 1
        return TEMP + str(self.ntemp)

    # ---- types
    def generic_bound(self, name):
        for g, bound in self.item.generics:
            if g == name:
                return bound
        return None

    def is_ctx_type(self, ty):
        if ty.kind == "tref" and ty.inner.kind == "tpath" and len(ty.inner.segs) == 1:
            b = self.generic_bound(ty.inner.segs[0][0])
            return b is not None and ("Context" in b or "ContextWithMutableVariables" in b)
        return False

    def ltype(self, ty, paren=False):
        if ty is None:
            return "Unit"
        if ty.kind == "tref":
            return self.ltype(ty.inner, paren)
        if ty.kind == "tslice":
            s = "List " + self.ltype(ty.inner, True)
            return "(" + s + ")" if paren else s
        if ty.kind == "tfn":
            s_ = " → ".join([self.ltype(x, True) for x in ty.params] + [self.ltype(ty.ret, True)])
            return "(" + s_ + ")"
        if ty.kind == "ttuple":
            if not ty.items:
                return "Unit"
            s = " × ".join(self.ltype(x, True) for x in ty.items)
            return "(" + s + ")"
        segs = ty.segs
        name, args = segs[-1]
        if len(segs) == 2 and segs[0][0] == "<qself>":
            if name in ("Int", "Float") and type_head(segs[0][1][0]) in ("NumericTypes", "DefaultNumericTypes"):
                return TYPE_MAP[name]
            self.fail("qualified type <… as …>::" + name)
        if len(segs) == 2 and segs[0][0] in ("NumericTypes", "Self", "C") and name in ("Int", "Float"):
            return TYPE_MAP[name]
        if len(segs) == 2 and segs[0][0] == "Self" and (self.item.file, self.item.impl_type, name) in ASSOC_DECL:
            return self.ltype(ASSOC_DECL[(self.item.file, self.item.impl_type, name)], paren)
        if len(segs) == 2 and segs[0][0] == "Self" and name in ASSOC_TYPE_MAP:
            s_ = ASSOC_TYPE_MAP[name]
            return "(" + s_ + ")" if paren else s_
        if len(segs) == 2 and name == "NumericTypes":
            self.fail("type " + name)
        if len(segs) > 1 and segs[0][0] not in ("crate", "self", "super", "std"):
            self.fail("qualified type " + "::".join(s for s, _ in segs))
        if name == "Self":
            if self.item.impl_type in TYPE_MAP:
                return TYPE_MAP[self.item.impl_type]
            if self.item.impl_type == "EvalexprResultValue":      # phase 6: `impl From<Value> for EvalexprResultValue`
                return "(Res Value)" if paren else "Res Value"
            self.fail("Self type " + str(self.item.impl_type))
        if name in ("Int", "Float", "NumericTypes"):
            self.fail("bare type " + name)
        if name in TYPE_MAP:
            return TYPE_MAP[name]
        if name == "ImplIterator" and len(args) == 1:       # phase 6
            s_ = "List " + self.ltype(args[0], True)
            return "(" + s_ + ")" if paren else s_
        if name in GENERIC_TYPE_MAP and len(args) == 1:
            s = GENERIC_TYPE_MAP[name] + " " + self.ltype(args[0], True)
            return "(" + s + ")" if paren else s
        if name == "Result" and len(args) == 2 and args[1].kind == "ttuple" and not args[1].items:
            s_ = "Except Unit " + self.ltype(args[0], True)        # phase 5: `Result<T, ()>`
            return "(" + s_ + ")" if paren else s_
        if name in ("EvalexprResult", "Result") and args:
            serde_err = (name == "Result" and len(args) == 2 and self.generic_bound(type_head(args[1])) is not None
                         and "Error" in self.generic_bound(type_head(args[1])))     # phase 8: `E: de::Error` (see Rs.de_custom)
            if name == "Result" and not serde_err and not (len(args) == 2 and type_head(args[1]) in ("EvalexprError", "Error")):
                self.fail("Result with a foreign error type")
            s = "Res " + self.ltype(args[0], True)
            return "(" + s + ")" if paren else s
        if name == "EvalexprResultValue":
            return "(Res Value)" if paren else "Res Value"
        self.fail("type `" + "::".join(s for s, _ in segs) + "` has no Model counterpart")

    def param_mutated(self, name):
        """is the `&mut` parameter `name` (possibly) written through in the body: assigned, receiver of a mutating method,
        or passed on to a call"""
        body = Parser(self.item.body_toks, self.item.where).block()
        muta = {k[0] for k in STD_MUTATORS} | {"pop", "swap_remove", "next", "extend", "insert", "remove", "get_mut", "last_mut"}

        def root(e):
            while e.kind in ("field", "index", "paren", "ref", "unary"):
                e = e.e if e.kind != "index" else e.a
            return e.segs[0] if e.kind == "path" and len(e.segs) == 1 else None

        def walk(n):
            if isinstance(n, N):
                if n.kind == "assign" and root(n.lhs) == name:
                    return True
                if n.kind == "mcall" and n.name in muta and root(n.recv) == name:
                    return True
                if n.kind in ("call", "mcall") and any(root(a) == name for a in n.args):
                    return True
                return any(walk(v) for v in n.__dict__.values())
            if isinstance(n, (list, tuple)):
                return any(walk(v) for v in n)
            return False
        return walk(body)

    def is_cursor_type(self, ty):
        """`&mut Iter` (Iter: Iterator<Item = char>), `&mut Peekable<Chars>`"""
        if not (ty.kind == "tref" and ty.mut and ty.inner.kind == "tpath"):
            return False
        name = ty.inner.segs[-1][0]
        if name in ("Peekable", "Chars"):
            return True
        if name == "Formatter" and self.item.impl_trait == "Display":     # phase 7: see fmt_translate
            return True
        b = self.generic_bound(name)
        return b is not None and "Iterator" in b and "char" in b

    def signature(self):
        it, g = self.item, self.g
        g.mut_params = []
        params = []
        out_params = []
        if it.self_kind:
            if it.impl_type not in TYPE_MAP:
                self.fail(f"`self` of type {it.impl_type}")
            params.append(("self", TYPE_MAP[it.impl_type]))
        k = 0
        for pat, ty in it.params:
            if self.is_ctx_type(ty):
                if g.is_ctx:
                    self.fail("two context parameters")
                if pat.kind not in ("pident", "ppath"):
                    self.fail("context parameter pattern")
                g.is_ctx, g.ctx_index = True, k
                g.ctx_param = pat.name if pat.kind == "pident" else pat.segs[0]
            else:
                if pat.kind == "ppath" and len(pat.segs) == 1:
                    nm = lname(pat.segs[0])
                elif pat.kind == "pident":
                    nm = lname(pat.name)
                elif pat.kind == "pwild":
                    nm = "_"
                else:
                    self.fail("parameter pattern")
                if self.is_cursor_type(ty):
                    # phase 5: `&mut` char iterator: a cursor (the remaining characters), handed back with the result
                    params.append((nm, "(List Char)"))
                    g.mut_params.append(nm)
                elif self.t2 and ty.kind == "tref" and ty.mut and it.impl_trait != "From":   # (tree-builder extension, tree-builder modules only: a `&mut` parameter is also returned)
                    if nm == "_":
                        self.fail("`&mut` parameter without a name")
                    params.append((nm, self.ltype(ty, False)))
                    g.out_idx.append(k)
                    out_params.append((nm, self.ltype(ty, True)))
                elif ty.kind == "tref" and ty.mut and it.impl_trait != "From" and self.param_mutated(nm):
                    self.fail("`&mut` parameter that is neither the context nor a character iterator")
                else:
                    params.append((nm, self.ltype(ty, False)))
            k += 1
        g.params = params
        if it.ret is not None and it.ret.kind == "tref" and it.ret.mut:   # (tree-builder extension)
            self.fail("the function returns a `&mut` reference (an alias that escapes: not expressible by copy-in / write-through)")
        g.ret = self.ltype(it.ret, False)
        g.ret_is_res = g.ret.startswith("Res ")
        g.mut_self = it.self_kind == "&mut"
        g.outs = ["self"] if g.mut_self else []   # (tree-builder extension)
        # (tree-builder extension: in the tree-builder modules loops are `Rs.loopFix`, not fuel-indexed)
        g.has_loop = (not self.t2) and self.w.is_fuel(it)
        # ---- phase 5: the return convention. `muts` = what the function hands back besides its value: `self` of a
        # `&mut self` method, then the `&mut` cursor parameters
        g.muts = (["self"] if g.mut_self else []) + list(g.mut_params)
        mut_types = ([TYPE_MAP[it.impl_type]] if g.mut_self else []) + [t for n, t in params if n in g.mut_params]
        g.res0 = g.ret_is_res                      # the Rust return type is a Result
        g.conv = None
        if g.has_loop or g.mut_params:
            if g.is_ctx:
                self.fail("`loop` / `&mut` parameter in a function with a context parameter")
            if g.has_loop:
                # fuel-indexed: `.error (.panic …)` when the fuel runs out (or on a panic)
                params.insert(0, ("fuel", "Nat"))
            payload = self.ltype(it.ret.segs[-1][1][0], True) if g.res0 and it.ret.kind == "tpath" and it.ret.segs[-1][1] else \
                ("Value" if g.res0 else self.ltype(it.ret, True))
            if g.muts:
                payload = "(" + " × ".join([payload] + mut_types) + ")"
            if g.res0 or g.has_loop:
                g.ret, g.ret_is_res = "Res " + payload, True
                g.conv = "attach" if g.res0 else "ok"
            else:
                g.ret, g.ret_is_res = payload, False
                g.conv = "pair"
            g.params = params
            return
        if g.mut_self:
            if g.is_ctx:
                self.fail("`&mut self` method with a context parameter")
            # `&mut self`: the function also returns the new `self`; no `?` / panics inside (no Model image)
            g.ret = f"{self.ltype(it.ret, True)} × {TYPE_MAP[it.impl_type]}"
            g.ret_is_res = False
            g.conv = "pair"
        # ---- tree-builder extension: `&mut` parameters (and `&mut self`) are returned next to the result, in parameter order
        if out_params and g.is_ctx:
            self.fail("`&mut` parameters in a function with a context parameter")
        g.outs = (["self"] if g.mut_self else []) + [n for n, _ in out_params]
        if out_params:
            tys = ([TYPE_MAP[it.impl_type]] if g.mut_self else []) + [t for _, t in out_params]
            g.ret = " × ".join([self.ltype(it.ret, True)] + tys)
            g.ret_is_res = False
        g.res_out = bool(g.outs) and self.ltype(it.ret, False).startswith("Res ")
        if self.t2:
            g.conv = None       # the tree-builder modules use `g.outs` (see e_return / translate), not phase 5's convention

    def ret_value(self, a):
        """the Lean value of the function for the Rust return value `a` (an L node), with the current `muts`"""
        g = self.g
        if g.conv is None:
            return a
        tup = [Atom(lname(m)) for m in g.muts]
        if g.conv == "pair":
            return Tup([a] + tup)
        if g.conv == "ok":
            return App("Except.ok", [Tup([a] + tup) if tup else a])
        return App("Rs.attach", [a, Tup(tup) if len(tup) > 1 else tup[0]]) if tup else a

    # ---- scopes
    def push(self, names=()):
        self.frames.append(set(names))
        for n in names:
            if n not in self.order_of:
                self.rank += 1
                self.order_of[n] = self.rank
        # ---- tree-builder extension: the names of the frame shadow aliases of the same name
        self.alias_saves.append({})
        self.alias_decl.append(set())
        for n in names:
            self.shadow(n)

    def pop(self):
        self.frames.pop()
        # ---- tree-builder extension: aliases declared in the frame end with it, shadowed ones are visible again
        for n in self.alias_decl.pop():
            self.aliases.pop(n, None)
        for n, (pl, dead) in self.alias_saves.pop().items():
            if pl is not None:
                self.aliases[n] = pl
            if dead:
                self.dead_refs.add(n)

    def declare(self, name):
        self.dead_refs.discard(name)      # a new variable of that name
        self.frames[-1].add(name)
        self.shadow(name)   # (tree-builder extension)
        self.rank += 1
        self.order_of[name] = self.rank

    def is_local(self, name):
        return any(name in f for f in self.frames)

    # ---- enum / variant resolution
    def variant(self, segs):
        """(enum, variant) if the path names an enum variant in scope"""
        if len(segs) >= 2 and segs[-2] in ENUM_MAP and segs[-1] in ENUM_MAP[segs[-2]]:
            return segs[-2], segs[-1]
        if len(segs) >= 2 and segs[-2] == "Self" and self.item.impl_type in ENUM_MAP and segs[-1] in ENUM_MAP[self.item.impl_type]:
            return self.item.impl_type, segs[-1]
        if len(segs) == 1:
            for e in self.globs:
                if segs[0] in ENUM_MAP[e]:
                    return e, segs[0]
        if len(segs) >= 2 and segs[-2] in self.w.enums and segs[-2] not in ENUM_MAP:
            self.fail(f"enum {segs[-2]} has no constructor table")
        if len(segs) >= 2 and segs[-2] in ENUM_MAP and segs[-1][0].isupper():
            self.fail(f"variant {segs[-2]}::{segs[-1]} is not in the constructor table")
        return None

    # ---- patterns: (lean text, bound names)
    def pat(self, p, bound):
        k = p.kind
        if k == "pwild":
            return "_"
        if k == "pident":
            bound.append(p.name)
            return lname(p.name)
        if k == "plit":
            t = p.tok
            if t.kind == "num" and t.text.isdigit():
                return t.text
            if t.kind == "id":
                return t.text
            self.fail("literal pattern " + t.text)
        if k == "ptuple":
            return "(" + ", ".join(self.pat(x, bound) for x in p.items) + ")"
        if k == "por":
            self.fail("nested `|` pattern")
        if k == "ppath":
            if len(p.segs) == 1 and p.segs[0] == "None":
                return "none"
            v = self.variant(p.segs)
            if v:
                lean, kind, fields = ENUM_MAP[v[0]][v[1]]
                if kind != "unit":
                    self.fail(f"pattern {v[0]}::{v[1]} without its fields")
                return lean
            if len(p.segs) == 1 and not p.segs[0][0].isupper():
                bound.append(p.segs[0])
                return lname(p.segs[0])
            self.fail("unresolved path pattern " + "::".join(p.segs))
        if k == "ptuplestruct":
            if len(p.segs) == 1 and p.segs[0] in ("Ok", "Err", "Some"):
                if len(p.items) != 1:
                    self.fail("arity of " + p.segs[0])
                head = {"Ok": "Except.ok", "Err": "Except.error", "Some": "some"}[p.segs[0]]
                return "(" + head + " " + self.pat(p.items[0], bound) + ")"
            v = self.variant(p.segs)
            if not v:
                self.fail("unresolved tuple-struct pattern " + "::".join(p.segs))
            lean, kind, fields = ENUM_MAP[v[0]][v[1]]
            if kind != "tuple" or len(fields) != len(p.items):
                self.fail(f"pattern shape of {v[0]}::{v[1]}")
            return "(" + lean + " " + " ".join(self.pat(x, bound) for x in p.items) + ")"
        if k == "pstruct":
            v = self.variant(p.segs)
            if not v:
                self.fail("unresolved struct pattern " + "::".join(p.segs))
            lean, kind, fields = ENUM_MAP[v[0]][v[1]]
            if kind != "struct":
                self.fail(f"pattern shape of {v[0]}::{v[1]}")
            given = dict(p.fields)
            for name in given:
                if name not in fields:
                    self.fail(f"field {name} of {v[0]}::{v[1]}")
            if not p.rest and set(given) != set(fields):
                self.fail(f"missing fields in the pattern of {v[0]}::{v[1]}")
            return "(" + lean + " " + " ".join(self.pat(given[f], bound) if f in given else "_" for f in fields) + ")"
        self.fail("pattern kind " + k)

    def pats(self, p, bound):
        """alternatives of a (possibly `|`) pattern"""
        if p.kind == "por":
            res, first = [], None
            for a in p.alts:
                b = []
                res.append(self.pat(a, b))
                if first is None:
                    first = b
                elif sorted(b) != sorted(first):
                    self.fail("alternatives bind different names")
            bound.extend(first)
            return res
        return [self.pat(p, bound)]

    @staticmethod
    def irrefutable(p):
        if p.kind in ("pwild", "pident"):
            return True
        if p.kind == "ppath":
            return len(p.segs) == 1 and not p.segs[0][0].isupper()
        if p.kind == "ptuple":
            return all(FnTr.irrefutable(x) for x in p.items)
        return False

    # ---- expressions
    def site(self, what):
        return Atom('cl!"' + self.item.name + ": " + what + '"')

    def atomize(self, e, stmts):
        """translate `e`; if it has effects, bind it to a temporary in `stmts` and return the temporary"""
        n = self.expr(e)
        # ---- tree-builder extension: a sub-expression that mutates a place: its rebindings go to the statement level
        if isinstance(n, PureM) and has_rebind(n.term):
            n = n.term
        if has_rebind(n):
            if not flat_ok(n):
                self.fail("a mutation inside an expression that also binds names")
            stmts.extend(n.stmts)
            n = n.final
        # ---- end of the tree-builder extension
        if not n.eff:
            if isinstance(n, Seq) and any(st[0] in ("mut", "mutbind") for st in n.stmts) and all(hoistable(st) for st in n.stmts):
                stmts.extend(n.stmts)       # the rebindings of a mutating expression stay visible
                return n.final
            return n
        if isinstance(n, PureM):
            return n.term
        if isinstance(n, Seq) and isinstance(n.final, PureM) and all(hoistable(st) for st in n.stmts):
            # the effects are hoisted, the (used-once) value term stays in place
            stmts.extend(n.stmts)
            return n.final.term
        t = self.temp()
        stmts.extend(bind_stmts(t, n))
        return Atom(t)

    def with_args(self, exprs, build):
        stmts = []
        atoms, marks = [], []
        for x in exprs:
            atoms.append(self.atomize(x, stmts))
            marks.append(len(stmts))
        if self.last_call_muts is not None:
            self.fail("a call with `&mut` cursor arguments whose `Result` is not unwrapped by `?`")
        self.check_eval_order(atoms, marks, stmts)   # (tree-builder extension)
        return mkseq(stmts, build(atoms))

    def check_eval_order(self, atoms, marks, stmts):
        """(tree-builder extension) an operand that reads a variable which a LATER operand of the same expression mutates would see the
        new value in the rendering (operands are terms, mutations are hoisted statements): rejected"""
        import re as _re
        for a, m in zip(atoms, marks):
            later = {str(p) for _, p, _ in stmts[m:] if isinstance(p, Rebind)}
            if later and not (isinstance(a, Atom) and a.text.startswith(TEMP)):
                text = render(a, 0)
                for name in later:
                    if _re.search(r"(?<![\w.«])" + _re.escape(name) + r"(?![\w»])", text):
                        self.fail(f"evaluation order: an operand reads `{name}`, which a later operand of the same expression mutates")

    def need_res(self, what):
        if self.g.res_out:   # (tree-builder extension: the `_out` variants return (error, current `&mut` values))
            return
        if not self.g.ret_is_res:
            self.fail(what + " in a function that does not return a Result (a panic has no Model image there)")

    def is_ctx_expr(self, e):
        while e.kind in ("ref", "paren"):
            e = e.e
        if self.in_closure and self.g.is_ctx and e.kind == "path" and e.segs == [self.g.ctx_param]:
            self.fail("the context parameter captured by a closure")
        return self.g.is_ctx and e.kind == "path" and e.segs == [self.g.ctx_param] and not self.is_shadowed_ctx()

    def is_shadowed_ctx(self):
        # the context parameter lives in frame 0; a later `let` of the same name would shadow it
        return any(self.g.ctx_param in f for f in self.frames[1:]) or self.ctx_shadowed

    def expr(self, e):
        k = e.kind
        m = getattr(self, "e_" + k, None)
        if m is None:
            self.fail("expression kind `" + k + "`")
        return m(e)

    def e_paren(self, e):
        return self.expr(e.e)

    def e_ref(self, e):        # `&e`, `&mut e`: the identity
        if self.is_ctx_expr(e.e):
            self.fail("the context parameter used as a value")
        return self.expr(e.e)

    def e_lit(self, e):
        if e.lk == "num":
            txt = e.text.replace("_", "")
            if txt.isdigit():
                return Atom(txt)
            self.fail("numeric literal " + e.text)
        if e.lk == "bool":
            return Atom(e.text)
        if e.lk == "str":
            return Atom(self.str_lit(e.text))
        if e.lk == "char":
            return Atom(self.char_lit(e.text))
        self.fail("literal " + e.text)

    # ---- phase 5: character and string literals
    def char_lit(self, text):
        if text.startswith("\\"):
            if text[1:] not in ("n", "t", "r", "\\", "'", '"', "0"):
                self.fail("character escape " + text)
            return {"\\0": "(Char.ofNat 0)"}.get(text, "'" + text + "'")
        if len(text) != 1 or ord(text) > 126 or ord(text) < 32:
            self.fail("character literal " + text)
        return "'" + text + "'"

    def str_lit(self, text):
        i = 0
        while i < len(text):
            if text[i] == "\\":
                if i + 1 >= len(text) or text[i + 1] not in ('\\', '"', "n", "t", "r"):
                    self.fail("string literal escape in " + text)
                i += 2
            else:
                if text[i] == '"' or ord(text[i]) > 126:
                    self.fail("string literal " + text)
                i += 1
        return 'cl!"' + text + '"'        # Rust's escapes \\ \" \n \t \r are Lean's

    def e_tuple(self, e):
        self.no_bare_alias(e.items, "a tuple")   # (tree-builder extension)
        return self.with_args(e.items, lambda a: Tup(a))

    def e_unary(self, e):
        if e.op == "*":
            return self.expr(e.e)
        head = {"!": "Rs.not", "-": "Rs.neg"}[e.op]
        return self.with_args([e.e], lambda a: App(head, a))

    def e_binary(self, e):
        if e.op in ("&&", "||"):
            stmts = []
            a = self.atomize(e.l, stmts)
            r = self.expr(e.r)
            if not r.eff:
                return mkseq(stmts, App("and" if e.op == "&&" else "or", [a, r]))
            if e.op == "&&":
                return mkseq(stmts, If(a, r, PureM(Atom("false")), True, r.ctx))
            return mkseq(stmts, If(a, PureM(Atom("true")), r, True, r.ctx))
        if e.op not in BINOPS:
            self.fail("binary operator " + e.op)
        return self.with_args([e.l, e.r], lambda a: App(BINOPS[e.op], a))

    def src_tokens(self, e):
        """tokens of a simple `path[path..]` expression (for the panic site of a slice)"""
        def name(x):
            while x.kind in ("paren", "ref"):
                x = x.e
            if x.kind == "path" and len(x.segs) == 1:
                return x.segs[0]
            self.fail("slice indexing of something that is not a plain variable")
        return [T.Tok("id", name(e.a), 0), T.Tok("p", "[", 0), T.Tok("id", name(e.i.lo), 0), T.Tok("p", "..", 0), T.Tok("p", "]", 0)]

    def e_range(self, e):
        head = "Rs.RangeInclusive.mk" if e.inclusive else "Rs.Range.mk"
        return self.with_args([e.lo, e.hi], lambda a: App(head, a))

    def e_cast(self, e):
        # `x as T`: the numeric conversion fixed by the two types (Prelude class `Rs.Cast`)
        ty = self.ltype(e.ty, False)
        if ty not in ("Float", "Int64", "UInt64", "UInt32"):
            self.fail("`as` cast to " + ty)
        return self.with_args([e.e], lambda a: Atom("(" + render(App("Rs.cast", a), 0) + " : " + ty + ")"))

    def proj_rebinds(self, t, names):
        """rebindings of the cursors from the tuple `t` = (value, c1, …, cn)"""
        out = []
        proj = t + ".2"
        for k, nm in enumerate(names):
            last = k == len(names) - 1
            out.append(("mut", lname(nm), Atom(proj if last else proj + ".1")))
            proj += ".2"
        return out

    def e_try(self, e):
        self.need_res("`?`")
        if self.t2:   # (tree-builder extension: `?` that returns the current `&mut` values)
            return self.with_args([e.e], lambda a: self.flow_app("Rs.try", a))
        self.last_call_muts = None
        stmts = []
        a = self.atomize(e.e, stmts)
        muts, self.last_call_muts = self.last_call_muts, None
        if muts:
            # phase 5: a callee with `&mut` cursor parameters: its result carries the advanced cursors
            t = self.temp()
            stmts.append(("bind", t, App("Rs.try", [a], eff=True)))
            stmts.extend(self.proj_rebinds(t, muts))
            return Seq(stmts, PureM(Atom(t + ".1")), True, False)
        return mkseq(stmts, App("Rs.try", [a], eff=True))

    def e_return(self, e):
        if self.t2:   # (tree-builder extension: all outs; aliases must not escape)
            wrap_t2 = (lambda a: Tup([a] + [Atom(lname(o)) for o in self.g.outs])) if self.g.outs else (lambda a: a)
            if e.e is None:
                return App("Rs.ret", [wrap_t2(Tup([]))], eff=True)
            self.no_bare_alias([e.e], "`return`")
            return self.with_args([e.e], lambda a: App("Rs.ret", [wrap_t2(a[0])], eff=True))

        def wrap(a):
            v = a if self.in_closure else self.ret_value(a)
            for _ in self.loopb:            # inside `while` / `for`-over-cursor bodies the return leaves the loop(s) first
                v = App("Rs.LoopOut.ret", [v])
            return v
        if e.e is None:
            return App("Rs.ret", [wrap(Tup([]))], eff=True)
        return self.with_args([e.e], lambda a: App("Rs.ret", [wrap(a[0])], eff=True))

    def e_index(self, e):
        self.need_res("indexing")
        if e.i.kind == "range":
            # phase 5: `v[a..]`: the rest from `a` (panics when `a > len`); the panic site is the source text
            if e.i.hi is not None or e.i.inclusive:
                self.fail("slice indexing other than `v[a..]`")
            src = T.text_of(self.src_tokens(e)).replace(" ", "")
            return self.with_args([e.a, e.i.lo], lambda a: App("Rs.slice_from", [Atom(self.site(src).text)] + a, eff=True))
        return self.with_args([e.a, e.i], lambda a: self.flow_app("Rs.index", [self.site("index out of bounds")] + a))

    def e_macro(self, e):
        if e.name == "vec":
            items = split_commas(e.toks)
            exprs = []
            for toks in items:
                p = Parser(toks, self.item.where)
                exprs.append(p.expr())
                if not p.eof():
                    p.fail("trailing tokens in vec!")
            self.no_bare_alias(exprs, "vec![…]")   # (tree-builder extension)
            return self.with_args(exprs, lambda a: ListLit(a))
        if e.name == "unreachable":
            self.need_res("unreachable!")
            return self.flow_app("Rs.panic", [self.site("unreachable!()")])
        if e.name == "matches":
            items = split_commas(e.toks)
            if len(items) != 2:
                self.fail("matches! with a guard or a trailing comma")
            p = Parser(items[0], self.item.where)
            scrut = p.expr()
            p2 = Parser(items[1], self.item.where)
            pat = p2.pattern()
            if not p2.eof():
                self.fail("matches! with a guard")
            arms = [N("arm", pat=pat, guard=None, body=N("lit", lk="bool", text="true")),
                    N("arm", pat=N("pwild"), guard=None, body=N("lit", lk="bool", text="false"))]
            return self.e_match(N("match", scrut=scrut, arms=arms))
        if e.name == "format":
            # phase 5: `format!("…{}…", a, b)`: the literal pieces and the `Display` of the arguments, concatenated
            items = split_commas(e.toks)
            if not items or len(items[0]) != 1 or items[0][0].kind != "str":
                self.fail("format! without a literal format string")
            fmt = items[0][0].text
            pieces = fmt.split("{}")
            if "{" in "".join(pieces).replace("{{", "") or "}" in "".join(pieces).replace("}}", ""):
                self.fail("format! with a placeholder other than `{}`")
            args = []
            for toks in items[1:]:
                pz = Parser(toks, self.item.where)
                args.append(pz.expr())
                if not pz.eof():
                    pz.fail("trailing tokens in format!")
            if len(args) != len(pieces) - 1:
                self.fail("format!: number of arguments")

            def build(a):
                parts = []
                for k, piece in enumerate(pieces):
                    if piece:
                        parts.append(Atom(self.str_lit(piece)))
                    if k < len(a):
                        parts.append(App("Rs.to_string", [a[k]]))
                if not parts:
                    return Atom("([] : Str)")
                node = parts[-1]
                for x in reversed(parts[:-1]):
                    node = App("Rs.push_str", [x, node])
                return node
            return self.with_args(args, build)
        macros = MACROS.get(self.item.file, {})
        if e.name in macros:
            return self.expr(self.expand_macro(e.name, macros[e.name], e.toks))
        self.fail("macro " + e.name + "!")

    def expand_macro(self, name, arms, toks):
        """`macro_rules!` expansion: first arm whose pattern (literal tokens and `$x:ident` metavariables) matches"""
        for pat, body in arms:
            binds, i, j, ok = {}, 0, 0, True
            while i < len(pat):
                if pat[i].kind == "p" and pat[i].text == "$":
                    if not (i + 3 < len(pat) + 1 and pat[i + 2].text == ":" ):
                        self.fail(f"macro {name}!: malformed metavariable")
                    kind = pat[i + 3].text
                    if kind != "ident":
                        self.fail(f"macro {name}!: metavariable kind `{kind}` (only `ident` is supported)")
                    if j >= len(toks) or toks[j].kind != "id":
                        ok = False
                        break
                    binds[pat[i + 1].text] = toks[j]
                    i, j = i + 4, j + 1
                elif pat[i].kind == "p" and pat[i].text in ("(", "[", "{", ")", "]", "}"):
                    self.fail(f"macro {name}!: nested delimiters / repetitions in a pattern")
                else:
                    if j >= len(toks) or (toks[j].kind, toks[j].text) != (pat[i].kind, pat[i].text):
                        ok = False
                        break
                    i, j = i + 1, j + 1
            if not ok or j != len(toks):
                continue
            out, k = [], 0
            while k < len(body):
                t = body[k]
                if t.kind == "p" and t.text == "$":
                    nm = body[k + 1].text
                    if nm not in binds:
                        self.fail(f"macro {name}!: `${nm}` is not bound by the pattern (repetitions are not supported)")
                    out.append(binds[nm])
                    k += 2
                else:
                    out.append(t)
                    k += 1
            p = Parser(out, self.item.where + "::" + name + "!")
            x = p.expr()
            if not p.eof():
                p.fail("trailing tokens in the expansion of " + name + "!")
            return x
        self.fail(f"macro {name}!({T.text_of(toks)}) matches no arm")

    def e_closure(self, e):
        names, extra = [], []
        for p in e.params:
            if p.kind == "pwild":
                names.append("_")
            elif p.kind == "ppath" and len(p.segs) == 1:
                names.append(lname(p.segs[0]))
            elif p.kind == "pident":
                names.append(lname(p.name))
            elif p.kind == "ptuple" and self.irrefutable(p):
                bound = []
                names.append(self.pat(p, bound))
                extra += bound
            else:
                self.fail("closure parameter pattern")
        self.push([n for n in names if n != "_" and not n.startswith("(")] + extra)
        body = self.expr(e.body)
        self.pop()
        if body.eff:
            self.fail("closure with `?` / `return` / panic / context access in its body")
        return Lam(names if names else ["(_ : Unit)"], body)

    def result_closure(self, c):
        """a closure that returns a `Result` (the argument of `Function::new`): translated like a function body —
        `?` and `return` inside it belong to the closure"""
        p = c.params[0]
        if p.kind == "ppath" and len(p.segs) == 1:
            name = p.segs[0]
        elif p.kind == "pident":
            name = p.name
        else:
            self.fail("closure parameter pattern")
        saved = (self.g.ret_is_res, self.g.mut_self, self.div, self.in_closure, set(self.dead_refs))
        self.g.ret_is_res, self.g.mut_self, self.div, self.in_closure = True, False, [], True
        self.push([name])
        body = self.expr(c.body)
        self.pop()
        self.g.ret_is_res, self.g.mut_self, self.div, self.in_closure, self.dead_refs = saved
        if body.ctx:
            self.fail("context access inside a closure")
        if body.eff:
            body = App("Rs.Flow.run", [body])
        return Lam([lname(name)], body)

    def e_structlit(self, e):
        v = self.variant(e.segs)
        sname = self.item.impl_type if e.segs == ["Self"] else e.segs[-1]
        if not v and sname in STRUCT_MAP:
            lean, fields = STRUCT_MAP[sname]
            decl = [st[sname] for st in STRUCTS.values() if sname in st]
            if decl != [fields]:
                self.fail(f"struct {sname}: declared fields {decl}, struct table has {fields}")
            v, kind = (sname, "<struct>"), "struct"
        elif not v:
            self.fail("struct literal " + "::".join(e.segs))
        else:
            lean, kind, fields = ENUM_MAP[v[0]][v[1]]
        if kind != "struct":
            self.fail(f"{v[0]}::{v[1]} is not a struct variant")
        given = dict(e.fields)
        if sorted(given) != sorted(fields) or len(given) != len(e.fields):
            self.fail(f"fields of {v[0]}::{v[1]}: {sorted(given)} vs {sorted(fields)}")
        # evaluation order = source order of the field initialisers; argument order = constructor order
        self.no_bare_alias([x for _, x in e.fields], "a struct literal")   # (tree-builder extension)
        stmts = []
        atoms = {}
        for name, x in e.fields:
            atoms[name] = self.atomize(x, stmts)
        return mkseq(stmts, App(lean, [atoms[f] for f in fields]))

    def e_path(self, e):
        segs = e.segs
        if len(segs) == 1:
            name = segs[0]
            if name == "self":
                if not self.item.self_kind:
                    self.fail("`self` outside a method")
                return Atom("self")
            if self.is_local(name):
                if self.g.is_ctx and name == self.g.ctx_param and not self.is_shadowed_ctx():
                    self.fail("the context parameter used as a value")
                if name in self.dead_refs:
                    self.fail(f"`{name}` is used after it was consumed (assignment through a map-entry reference / swap_remove / a `&mut` alias whose place was assigned otherwise)")
                if name in self.iters:   # (tree-builder extension)
                    self.fail(f"the iterator `{name}` is used other than by `while let … = {name}.next()` / `{name}.peek()`")
                return Atom(lname(name))
            if name == "None":
                return Atom("none")
            if name in ("Ok", "Err", "Some"):
                return Atom({"Ok": "Except.ok", "Err": "Except.error", "Some": "some"}[name])
        v = self.variant(segs)
        if v:
            lean, kind, fields = ENUM_MAP[v[0]][v[1]]
            if kind == "struct":
                self.fail(f"struct variant {v[0]}::{v[1]} used as a value")
            return Atom(lean)     # unit variant, or a tuple variant used as a function
        if len(segs) == 1 and segs[0].isupper():
            # a `const` item of the crate: its initialiser, translated in place
            found = [(f, c[segs[0]]) for f, c in CONSTS.items() if segs[0] in c]
            if len(found) == 1:
                p = Parser(found[0][1], found[0][0] + "::const " + segs[0])
                init = p.expr()
                if not p.eof():
                    self.fail("const initialiser of " + segs[0])
                saved = self.frames
                self.frames = [set()]
                n = self.expr(init)
                self.frames = saved
                if n.eff:
                    self.fail("const initialiser with effects")
                return n
        if segs == ["usize", "MAX"]:
            return Atom("Rs.usize_MAX")
        if len(segs) == 2 and segs[1] == "from" and segs[0] in TYPE_MAP:
            return Atom("(fun x => (Rs.into x : " + TYPE_MAP[segs[0]] + "))")
        f = self.resolve_path_fn(segs, None)
        if f is None:
            self.fail("unresolved path " + "::".join(segs))
        kind, lean, g = f
        if kind == "gen" and g.is_ctx:
            self.fail("a context function used as a value")
        return Atom(g.ref_name if kind == "gen" else lean)

    def resolve_path_fn(self, segs, nargs):
        """('std'|'boundary'|'gen', lean name, GenFn|None) for a function path"""
        if len(segs) >= 3 and segs[-3] in ("NumericTypes", "DefaultNumericTypes") and segs[-2] in ("Float", "Int"):
            # an item of the associated numeric type: the `impl … for f64 / i64` of the default numeric types
            owner = "f64" if segs[-2] == "Float" else "i64"
            cands = [it for it in self.w.items if it.impl_type == owner and it.name == segs[-1] and it.impl_trait in TRANSLATED_TRAITS]
            if not cands and (owner, segs[-1]) in PRIM_PATHS and (nargs is None or PRIM_PATHS[(owner, segs[-1])][0] == nargs):
                return "std", PRIM_PATHS[(owner, segs[-1])][1], None      # phase 5: std trait fns of the primitive (FromStr)
            if len(cands) != 1:
                self.fail(f"{owner}::{segs[-1]}: {len(cands)} candidates")
            g = self.w.require(cands[0])
            self.g.deps.append(g)
            return "gen", g.lean_name, g
        key = tuple(segs[-2:]) if len(segs) >= 2 else tuple(segs)
        if key in STD_PATHS and (nargs is None or STD_PATHS[key][0] == nargs):
            return "std", STD_PATHS[key][1], None
        for bk, (n, lean) in BOUNDARY_PATHS.items():
            if tuple(segs[-len(bk):]) == bk and len(segs) >= len(bk) and (nargs is None or n == nargs):
                if len(bk) == 1 and len(segs) > 1 and segs[-2][0].isupper():
                    continue
                return "boundary", lean, None
        if len(segs) == 2 and segs[0] == "Self" and self.item.impl_type in ("i64", "f64") \
                and (self.item.impl_type, segs[1]) in PRIM_PATHS and (nargs is None or PRIM_PATHS[(self.item.impl_type, segs[1])][0] == nargs) \
                and not any(it.impl_type == self.item.impl_type and it.name == segs[1] for it in self.w.items):
            return "std", PRIM_PATHS[(self.item.impl_type, segs[1])][1], None     # phase 5: `Self::from_str_radix` in `impl … for i64`
        if len(segs) >= 2 and (segs[-2] == "Self" or segs[-2][0].isupper()):
            owner = self.item.impl_type if segs[-2] == "Self" else segs[-2]
            if owner == "NumericTypes":
                owner = "DefaultNumericTypes"      # the generic parameter is fixed to the default numeric types
            cands = [it for it in self.w.items if it.impl_type == owner and it.name == segs[-1] and it.self_kind is None
                     and it.impl_trait in (None,) + TRANSLATED_TRAITS]
            if len(cands) == 1:
                g = self.w.require(cands[0])
                self.g.deps.append(g)
                return "gen", g.lean_name, g
            if len(cands) > 1:
                self.fail(f"ambiguous associated function {owner}::{segs[-1]}")
            return None
        cands = [it for it in self.w.items if it.impl_type is None and it.name == segs[-1]]
        if len(cands) == 1:
            g = self.w.require(cands[0])
            self.g.deps.append(g)
            return "gen", g.lean_name, g
        if len(cands) > 1:
            self.fail(f"ambiguous free function {segs[-1]}")
        return None

    def call_gen(self, g, recv, args):
        """call of a translated function; `args` are the Rust argument expressions (without self)"""
        fuel_arg = FUEL_CALLS.get((g.item.file, g.item.name)) if (g.has_loop and not self.g.has_loop) else None   # (tree-builder extension)
        if g.has_loop and not self.g.has_loop and fuel_arg is None:
            self.fail(f"call of the fuel-indexed function {g.lean_name} from a function that is not fuel-indexed")
        if g.mut_self and g.conv != "pair" and not g.module in T2_MODULES:   # (tree-builder extension: those callees use `g.outs`)
            self.fail(f"call of {g.lean_name} (`&mut self` with a loop)")
        exprs = list(args)
        if recv is None and g.item.self_kind is not None and len(exprs) == len(g.item.params) + 1:
            recv, exprs = exprs[0], exprs[1:]      # `Type::method(receiver, …)`
        if len(exprs) != len(g.item.params):
            self.fail(f"arity of the call to {g.lean_name}")
        if g.outs or g.div:   # (tree-builder extension: `&mut` places / may-diverge callee)
            return self.call_gen_places(g, recv, exprs)
        fresh = None
        if g.is_ctx:
            c = exprs.pop(g.ctx_index)
            if not self.is_ctx_expr(c):
                # a temporary context built in place (`&mut HashMapContext::new()`): the callee runs on a state of its own
                if c.kind == "ref" and c.e.kind == "call":
                    fresh = c.e
                else:
                    self.fail(f"the context argument of {g.lean_name} is neither the context parameter nor a temporary built in place")
            elif not self.g.is_ctx:
                self.fail(f"call of the context function {g.lean_name} from a function without a context parameter")
        # ---- phase 5: `&mut` cursor arguments, fuel
        rebind = []
        if g.mut_params:
            names = [n for n, _ in g.params if n not in ("fuel", "self")]
            for k, (pn, _) in enumerate([p for p in g.params if p[0] not in ("fuel", "self")]):
                if pn in g.mut_params:
                    a = exprs[k]
                    while a.kind == "paren":
                        a = a.e
                    if not (a.kind == "ref" and a.mut):
                        self.fail(f"argument `{pn}` of {g.lean_name} must be `&mut <cursor>`")
                    x = a.e
                    while x.kind in ("paren", "ref"):
                        x = x.e
                    if not self.is_cursor_expr(x):
                        self.fail(f"argument `{pn}` of {g.lean_name} is not a cursor variable")
                    self.check_local_mut(x.segs[0])
                    rebind.append(x.segs[0])
                    exprs[k] = x
        allx = ([recv] if recv is not None else []) + exprs
        name = g.ref_name
        if g.has_loop:
            name = g.ref_name + " fuel"
        if fuel_arg is not None:   # (tree-builder extension: FUEL_CALLS)
            if rebind or g.is_ctx or recv is not None:
                self.fail(f"{g.lean_name} is in FUEL_CALLS but is not a plain free function")
            return self.with_args(allx, lambda a: App(g.ref_name, [App("Rs.fuel_chars", [a[fuel_arg]])] + a))
        if rebind:
            node = self.with_args(allx, lambda a: App(name, a))
            if g.conv == "pair":
                t = self.temp()
                st, fin = (node.stmts, node.final) if isinstance(node, Seq) else ([], node)
                st = st + [("let", t, fin)] + self.proj_rebinds(t, rebind)
                return Seq(st, Atom(t + ".1"), any(k == "bind" for k, _, _ in st), False)
            self.last_call_muts = rebind            # a `Res (value × cursors)`: must be consumed by `?`
            return node
        # ---- end phase 5
        if fresh is not None:
            return self.with_args([fresh] + allx, lambda a: App("Rs.call_fresh", [a[0], App(name, a[1:])]))

        if g.is_ctx:
            return self.with_args(allx, lambda a: App("Rs.call", [App(name, a)], eff=True, ctx=True))
        return self.with_args(allx, lambda a: App(name, a))

    def e_call(self, e):
        f = e.f
        if f.kind != "path":
            self.fail("call of a computed function value")
        segs = f.segs
        n = len(e.args)
        if len(segs) == 1 and segs[0] in ("Ok", "Err", "Some") and not self.is_local(segs[0]):
            if n != 1:
                self.fail("arity of " + segs[0])
            head = {"Ok": "Except.ok", "Err": "Except.error", "Some": "some"}[segs[0]]
            self.no_bare_alias(e.args, segs[0] + "(…)")   # (tree-builder extension)
            return self.with_args(e.args, lambda a: App(head, a))
        if len(segs) == 1 and self.is_local(segs[0]):
            # a local variable of function type (`fn(..) -> ..` parameter): application
            return self.with_args(e.args, lambda a: App(lname(segs[0]), a))
        # ---- phase 6: `Self(PhantomData)` in an impl whose type is a unit struct over PhantomData (modelled as Unit)
        if (segs == ["Self"] and n == 1 and e.args[0].kind == "path" and e.args[0].segs == ["PhantomData"]
                and TYPE_MAP.get(self.item.impl_type) == "Unit"):
            return Atom("()")
        # ---- end phase 6
        # ---- phase 8: `E::custom(error)` with `E: de::Error` (serde): boundary Rs.de_custom (the error value is kept; see Prelude)
        if len(segs) == 2 and segs[1] == "custom" and n == 1 and "Error" in (self.generic_bound(segs[0]) or []):
            return self.with_args(e.args, lambda a: App("Rs.de_custom", a))
        # ---- end phase 8
        if segs[-2:] == ["Function", "new"] and n == 1:
            c = e.args[0]
            if c.kind != "closure" or len(c.params) != 1:
                self.fail("Function::new of something that is not a one-parameter closure")
            return App("Rs.Function_new", [self.result_closure(c)])
        v = self.variant(segs)
        if v:
            lean, kind, fields = ENUM_MAP[v[0]][v[1]]
            if kind != "tuple" or len(fields) != n:
                self.fail(f"constructor call shape of {v[0]}::{v[1]}")
            return self.with_args(e.args, lambda a: App(lean, a))
        if len(segs) == 2 and segs[1] == "from" and n == 1 and segs[0] in TYPE_MAP:
            # `T::from(x)`: the `From` conversion into T (same instances as `.into()`), the target type made explicit
            ty = TYPE_MAP[segs[0]]
            return self.with_args(e.args, lambda a: Atom("(" + render(App("Rs.into", a), 0) + " : " + ty + ")"))
        r = self.resolve_path_fn(segs, n)
        if r is None:
            self.fail("unresolved function " + "::".join(segs))
        kind, lean, g = r
        if kind == "gen":
            return self.call_gen(g, None, e.args)
        if n == 0:
            return Atom(lean)
        return self.with_args(e.args, lambda a: App(lean, a))

    def e_mcall(self, e):
        name, n = e.name, len(e.args)
        # 1. the context parameter
        if self.is_ctx_expr(e.recv):
            if name not in CTX_METHODS or CTX_METHODS[name][0] != n:
                self.fail(f"method `{name}` on the context parameter is not in the boundary table")
            head = CTX_METHODS[name][1]
            if n == 0:
                return App(head, [], eff=True, ctx=True)
            return self.with_args(e.args, lambda a: App(head, a, eff=True, ctx=True))
        # ---- tree-builder extension: iterators, `pop`, `last_mut().unwrap()` as a place read
        r = self.e_mcall_ext(e) if self.t2 else None
        if r is not None:
            return r
        # ---- end of the tree-builder extension
        if (name, n) in STD_MUTATORS:
            self.fail(f"`{name}` (a mutation) in expression position")
        prim = self.item.impl_type if self.item.impl_type in ("i64", "f64") else None
        on_value = False
        if prim:
            r = e.recv
            while r.kind == "paren":
                r = r.e
            on_value = r.kind == "unary" and r.op == "*" and r.e.kind == "path" and r.e.segs == ["self"]
            in_trait = any(it.name == name and it.impl_type == prim and it.impl_trait == self.item.impl_trait for it in self.w.items)
            on_self = r.kind == "path" and r.segs == ["self"] and not in_trait
            if on_value or on_self:
                # Rust's method lookup: on a receiver of the primitive type itself (`(*self)`) the inherent std method is found
                # before the trait's; on `self: &prim` a name the trait does not define can only be the std one
                if (prim, name, n) not in PRIM_METHODS:
                    self.fail(f"std method `{prim}::{name}`/{n} is not in the table of primitive methods")
                return self.with_args([e.recv] + e.args, lambda a: App(PRIM_METHODS[(prim, name, n)], a))
        crate = [it for it in self.w.items if it.name == name and it.self_kind is not None and len(it.params) == n]
        # ---- phase 5
        if (name, n) == ("next", 0) and e.recv.kind == "path" and len(e.recv.segs) == 1 and e.recv.segs[0] in self.cursors \
                and self.is_local(e.recv.segs[0]):
            # `iter.next()` on a cursor: the first remaining character; the cursor becomes the rest
            c = e.recv.segs[0]
            self.check_local_mut(c)
            t = self.temp()
            st = [("let", t, App("Rs.iter_next", [Atom(lname(c))])), ("mut", lname(c), Atom(t + ".2"))]
            return Seq(st, Atom(t + ".1"), False, False)
        if name == "parse" and n == 0:
            targs = getattr(e, "targs", [])
            if len(targs) != 1:
                self.fail("`parse` without an explicit target type")
            ty = self.ltype(targs[0], False)
            if ty not in ("Float", "Bool"):
                self.fail("`parse::<" + ty + ">`")
            head = {"Float": "Rs.parse_f64", "Bool": "Rs.parse_bool"}[ty]
            return self.with_args([e.recv], lambda a: App(head, a))
        # ---- end phase 5
        if (name, n) == ("next", 0) and e.recv.kind == "path" and len(e.recv.segs) == 1 and e.recv.segs[0] in self.entry_refs:
            # `r.next()` with `r` the `&mut` to a slice iterator stored in `self`: the first remaining item; the stored
            # iterator (and `r`) become the rest
            self.check_self_mut()
            r = e.recv.segs[0]
            fld, key = self.entry_refs[r]
            t = self.temp()
            st = [("let", t, App("Rs.iter_next", [Atom(lname(r))])),
                  ("mut", "self", self.set_entry(fld, key, Atom(t + ".2"))),
                  ("mut", lname(r), Atom(t + ".2"))]
            return Seq(st, Atom(t + ".1"), False, False)
        if (name, n) == ("pop", 0) and self.g.mut_self and self.self_field(e.recv):
            # `self.<vec>.pop()`: the last element (if any); the field loses it
            self.check_self_mut()
            fld = self.self_field(e.recv)
            owner = self.item.impl_type
            cur = App(FIELD_MAP[(owner, fld)], [Atom("self")])
            t = self.temp()
            st = [("let", t, App("Rs.last", [cur])),
                  ("mut", "self", Atom("{ self with " + FIELD_UPDATE[(owner, fld)] + " := " + render(App("Rs.pop_back", [cur]), 0) + " }"))]
            return Seq(st, Atom(t), False, False)
        if (name, n) == ("swap_remove", 1):
            # `v.swap_remove(i)` in expression position: the removed element; the changed vector is not modelled, so the
            # variable must not be used again (checked: later references are rejected) and this must not be inside a loop
            r = e.recv
            if not (r.kind == "path" and len(r.segs) == 1 and self.is_local(r.segs[0])) or self.loop_depth:
                self.fail("swap_remove on something that is not a local variable, or inside a loop")
            self.need_res("swap_remove")
            node = self.with_args([e.recv] + e.args, lambda a: App("Rs.swap_remove", [self.site("swap_remove out of bounds")] + a, eff=True))
            self.dead_refs.add(r.segs[0])
            return node
        # ---- phase 6: `Node::iter` / `Node::iter_operators_mut` (src/tree/iter.rs, `impl Iterator` built from NodeIter /
        # OperatorIterMut) are BOUNDARY calls: the Model's `Node.iter` / `Node.iterOperatorsMut` (the lists they yield)
        if n == 0 and name in PHASE6_ITER and e.recv.kind == "path" and e.recv.segs == ["self"] and self.item.impl_type == "Node":
            return App(PHASE6_ITER[name], [Atom("self")])
        # ---- end phase 6
        if (name, n) in CLASS_TRAIT_METHODS and not (prim and on_value):
            return self.with_args([e.recv] + e.args, lambda a: App(CLASS_TRAIT_METHODS[(name, n)][0], a))
        if (name, n) in STD_METHODS:
            head, effect = STD_METHODS[(name, n)]
            if effect == "panic":
                self.need_res("`" + name + "()`")
                return self.with_args([e.recv] + e.args, lambda a: self.flow_app(head, [self.site(name + " on None")] + a))
            return self.with_args([e.recv] + e.args, lambda a: App(head, a))
        if (name, n) in BOUNDARY_METHODS:
            head = BOUNDARY_METHODS[(name, n)]
            return self.with_args([e.recv] + e.args, lambda a: App(head, a))
        # crate methods: inherent and trait-default ones; must be unique by (name, arity)
        cands = [it for it in crate if it.impl_trait in (None,) + TRANSLATED_TRAITS]
        # (tree-builder extension: a `&mut self` method called on a place is handled by call_gen -> call_gen_places)
        if len(cands) == 1:
            g = self.w.require(cands[0])
            self.g.deps.append(g)
            return self.call_gen(g, e.recv, e.args)
        if len(cands) > 1:
            self.fail(f"method `{name}`/{n} is defined by several types: " + ", ".join(sorted(c.where for c in cands)))
        self.fail(f"method `{name}`/{n}: neither in the Prelude vocabulary, nor in the boundary table, nor a method of the crate")

    def e_field(self, e):
        r = e.e
        while r.kind in ("paren", "ref"):
            r = r.e
        if r.kind == "path" and r.segs == ["self"] and self.item.self_kind and (self.item.impl_type, e.name) in FIELD_MAP:
            return App(FIELD_MAP[(self.item.impl_type, e.name)], [Atom("self")])
        owners = [o for (o, f) in FIELD_MAP if f == e.name]
        if len(set(FIELD_MAP[(o, e.name)] for o in owners)) == 1:
            # a field name that belongs to one struct of the field table: the projection (Lean checks the receiver's type)
            return self.with_args([e.e], lambda a: App(FIELD_MAP[(owners[0], e.name)], a))
        self.fail("field access ." + e.name + " (not a field of the field table, or ambiguous)")

    def e_assign(self, e):
        self.fail("assignment in expression position")

    def e_for(self, e):
        self.fail("`for` loop in expression position")

    # ---- control flow
    def arm_body(self, body, bound):
        self.push(bound)
        n = self.expr(body)
        self.pop()
        return n

    def e_block(self, e):
        return self.block(e, thread=self.take_thread())   # (tree-builder extension: thread)

    def e_if(self, e, over=None):
        if over is None and not self.t2:
            vb = self.value_branch(e)
            if vb is not None:
                return vb
        tc = self.take_thread()   # (tree-builder extension: the branches return the variables they assign)
        stmts = []
        c = self.atomize(e.cond, stmts)
        t = self.block(e.then, over, thread=tc)
        if over is not None:
            el = self.with_tail(e.els, over)
        elif e.els is None:
            el = Tup([]) if tc is None else self.block(N("block", stmts=[], tail=None), thread=tc)
        elif tc is not None:
            el = self.arm_threaded(e.els, tc)
        else:
            el = self.expr(e.els)
        eff = t.eff or el.eff
        if eff:
            t, el = lift(t), lift(el)
        res = mkseq(stmts, If(c, t, el, eff, t.ctx or el.ctx))
        if tc is not None and isinstance(res, Seq):
            res.blockscope = True
        return res

    def e_iflet(self, e, over=None):
        if over is None and not self.t2:
            vb = self.value_branch(e)
            if vb is not None:
                return vb
        arms = [N("arm", pat=e.pat, guard=None, body=e.then)]
        if not self.irrefutable(e.pat):
            arms.append(N("arm", pat=N("pwild"), guard=None, body=e.els if e.els is not None else N("tuple", items=[])))
        return self.e_match(N("match", scrut=e.scrut, arms=arms), over)

    def get_mut_scrutinee(self, e):
        """`self.<field>.get_mut(key)` as the scrutinee of `if let Some(r) = …` / `match`: (field, key term) or None"""
        sc = e.scrut
        while sc.kind == "paren":
            sc = sc.e
        if not (sc.kind == "mcall" and ((sc.name == "get_mut" and len(sc.args) == 1) or (sc.name == "last_mut" and not sc.args))):
            return None
        fld = self.self_field(sc.recv)
        if not (self.g.mut_self and fld):
            self.fail(f"`{sc.name}` on something that is not a field of `&mut self`")
        if sc.name == "get_mut":
            k = sc.args[0]
            while k.kind in ("ref", "paren"):
                k = k.e
            if not (k.kind == "path" and len(k.segs) == 1 and self.is_local(k.segs[0])):
                self.fail("`get_mut` with a key that is not a local variable")
        for a in e.arms:
            p = a.pat
            ok = (p.kind == "ptuplestruct" and p.segs == ["Some"] and len(p.items) == 1 and self.irrefutable(p.items[0])
                  and p.items[0].kind in ("ppath", "pident")) or p.kind == "pwild" or (p.kind == "ppath" and p.segs == ["None"])
            if not ok or a.guard is not None:
                self.fail("`get_mut` must be matched by `Some(r)` / `None` / `_` arms")
        return (fld, Atom(lname(k.segs[0]))) if sc.name == "get_mut" else (fld, None)

    def e_match(self, e, over=None):
        if over is None and not self.t2 and not getattr(e, "synthetic", False):
            vb = self.value_branch(e)
            if vb is not None:
                return vb
        tc = self.take_thread()   # (tree-builder extension: the arms return the variables they assign)
        if not self.t2:
            e = self.rewrite_last_mut(e)
        stmts = []
        live = []
        for a in e.arms:
            if getattr(a, "cfg", None) is not None:
                # an arm under `#[cfg(feature = …)]`: not part of the build that is modelled (default features)
                if a.cfg not in ("regex", "rand"):
                    self.fail("match arm under cfg(feature = \"" + a.cfg + "\")")
                self.w.skipped_arms.append((self.item.where, a.cfg, render_pat_src(a.pat)))
            else:
                live.append(a)
        if len(live) != len(e.arms):
            e2 = N("match", scrut=e.scrut, arms=live)
            e2.places = getattr(e, "places", {})
            e = e2
        if any(a.pat.kind == "plit" and a.pat.tok.kind in ("str", "char") for a in e.arms):
            if over is not None:
                return self.string_match(e, over)
            return self.string_match(e)
        e = self.lift_nested_literals(e)
        lm = self.last_mut_scrutinee(e, stmts) if self.t2 else None   # (tree-builder extension: `match X.last_mut() { Some(r) … }`)
        gm = self.get_mut_scrutinee(e) if lm is None else None
        if lm is not None:
            s = lm[1]
        elif gm is not None:
            # the reference is read as the current value of the entry; writes through it are `insert`s (see self_stmt)
            cur = App(FIELD_MAP[(self.item.impl_type, gm[0])], [Atom("self")])
            s = App("Rs.get", [cur, gm[1]]) if gm[1] is not None else App("Rs.last", [cur])
        else:
            s = self.atomize(e.scrut, stmts)
        if not is_simple(s) and any(a.guard is not None for a in e.arms):
            t = self.temp()
            stmts.append(("let", t, s))
            s = Atom(t)
        arms = []
        for a in e.arms:
            bound = []
            pats = self.pats(a.pat, bound)
            self.push(bound)
            saved_refs = dict(self.entry_refs)
            saved_places = dict(self.places)
            for b in bound:
                if b in getattr(e, "places", {}):
                    self.places[b] = e.places[b]
                else:
                    self.places.pop(b, None)
            if gm is not None:
                for b in bound:
                    self.entry_refs[b] = gm
            if lm is not None:   # (tree-builder extension: the bound name is an alias of the last element)
                for b in bound:
                    self.new_alias(b, Place(lm[0].root, lm[0].steps + [("last",)]))
            guard = self.expr(a.guard) if a.guard is not None else None
            if over is not None:
                body = self.with_tail(a.body, over)
            # (tree-builder extension: a block body shares the frame of the pattern's names, so that it may assign them)
            elif a.body.kind == "block" and self.t2:
                body = self.block(a.body, thread=tc, merge=True)
            elif tc is not None:
                body = self.arm_threaded(a.body, tc)
            else:
                body = self.expr(a.body)
            self.entry_refs = saved_refs
            self.places = saved_places
            self.pop()
            arms.append((pats, guard, body, self.irrefutable(a.pat), a.pat))
        res = mkseq(stmts, self.build_match(s, arms))
        if tc is not None and isinstance(res, Seq):
            res.blockscope = True
        return res

    def string_match(self, e, over=None):
        """`match s { "lit" | 'c' => e, …, x => d }` on strings / characters: a chain of `if s == lit` (literals are not
        constructors); the last arm is `_` or a binding"""
        stmts = []
        s = self.atomize(e.scrut, stmts)
        if not is_simple(s):
            t = self.temp()
            stmts.append(("let", t, s))
            s = Atom(t)
        body_of = (lambda b: self.expr(b)) if over is None else (lambda b: self.with_tail(b, over))
        arms = []
        default = None
        for k, a in enumerate(e.arms):
            if a.guard is not None:
                self.fail("guard in a literal match")
            alts = a.pat.alts if a.pat.kind == "por" else [a.pat]
            if a.pat.kind == "pwild" or (a.pat.kind in ("ppath", "pident") and self.irrefutable(a.pat)):
                if k != len(e.arms) - 1:
                    self.fail("catch-all arm that is not the last arm of a literal match")
                if a.pat.kind == "pwild":
                    default = body_of(a.body)
                else:
                    nm = a.pat.name if a.pat.kind == "pident" else a.pat.segs[0]
                    self.push([nm])
                    d = body_of(a.body)
                    self.pop()
                    default = mkseq([("let", lname(nm), s)], d)
            elif all(x.kind == "plit" and x.tok.kind in ("str", "char") for x in alts):
                lits = [self.e_lit(N("lit", lk=x.tok.kind, text=x.tok.text)) for x in alts]
                arms.append((lits, body_of(a.body)))
            else:
                self.fail("pattern in a literal match")
        if default is None:
            self.fail("literal match without a catch-all arm")
        eff = default.eff or any(b.eff for _, b in arms)
        node = lift(default) if eff else default
        for lits, body in reversed(arms):
            cond = App("Rs.eq", [s, lits[0]])
            for l in lits[1:]:
                cond = App("or", [cond, App("Rs.eq", [s, l])])
            node = If(cond, lift(body) if eff else body, node, eff, False)
        return mkseq(stmts, node)

    def rewrite_last_mut(self, e):
        """phase 5: `V.last_mut()` (V a local vector) inside the scrutinee: read as `V.last()`; a variable bound by the
        pattern `Some(Ctor(r))` at that position is a place: writes through it rebuild the last element of `V`"""
        sc = e.scrut
        items = sc.items if sc.kind == "tuple" else [sc]
        hit = None
        for k, it in enumerate(items):
            x = it
            while x.kind in ("paren", "ref"):
                x = x.e
            if x.kind == "mcall" and x.name == "last_mut" and not x.args and x.recv.kind == "path" and len(x.recv.segs) == 1 \
                    and self.is_local(x.recv.segs[0]) and not self.self_field(x.recv):
                if hit is not None:
                    self.fail("two `last_mut()` in one scrutinee")
                hit = (k, x.recv.segs[0])
        if hit is None:
            return e
        k, vec = hit
        new_items = list(items)
        new_items[k] = N("mcall", recv=N("path", segs=[vec]), name="last", args=[], targs=[])
        scrut = N("tuple", items=new_items) if sc.kind == "tuple" else new_items[0]
        places = {}
        for a in e.arms:
            p = a.pat
            if sc.kind == "tuple":
                if p.kind != "ptuple":
                    continue
                p = p.items[k]
            if p.kind == "ptuplestruct" and p.segs == ["Some"] and len(p.items) == 1:
                q = p.items[0]
                if q.kind == "ptuplestruct" and len(q.items) == 1 and q.items[0].kind in ("ppath", "pident"):
                    v = self.variant(q.segs)
                    if v:
                        r = q.items[0]
                        places[r.name if r.kind == "pident" else r.segs[0]] = (vec, ENUM_MAP[v[0]][v[1]][0])
                        continue
                if not self.irrefutable(q):
                    self.fail("pattern under `last_mut()`: only `Some(Variant(r))` binds a place")
        m = N("match", scrut=scrut, arms=e.arms)
        m.places = places
        return m

    def lift_nested_literals(self, e):
        """literal sub-patterns (`Some('"')`) become fresh variables compared in a guard: `Some(ℓ) if ℓ == '"'`"""
        counter = [0]

        def walk(p, conds):
            if p.kind == "plit" and p.tok.kind in ("str", "char"):
                counter[0] += 1
                self.nlit += 1
                nm = "ℓ" + str(self.nlit)
                conds.append(N("binary", op="==", l=N("path", segs=[nm]), r=N("lit", lk=p.tok.kind, text=p.tok.text)))
                return N("pident", name=nm)
            if p.kind in ("ptuple", "ptuplestruct"):
                q = N(p.kind, **{k: v for k, v in p.__dict__.items() if k != "kind"})
                q.items = [walk(x, conds) for x in p.items]
                return q
            return p
        arms = []
        for a in e.arms:
            conds = []
            pat = walk(a.pat, conds) if a.pat.kind != "por" else a.pat
            if not conds:
                arms.append(a)
                continue
            g = a.guard
            for c in reversed(conds):
                g = c if g is None else N("binary", op="&&", l=c, r=g)
            arms.append(N("arm", pat=pat, guard=g, body=a.body, cfg=getattr(a, "cfg", None)))
        if not counter[0]:
            return e
        m = N("match", scrut=e.scrut, arms=arms)
        m.places = getattr(e, "places", {})
        return m

    @staticmethod
    def covers(p, q):
        """does pattern `p` match everything pattern `q` matches (syntactic approximation; False when unsure)"""
        if FnTr.irrefutable(p):
            return True
        if q.kind == "por":
            return all(FnTr.covers(p, x) for x in q.alts)
        if p.kind == "por":
            return any(FnTr.covers(x, q) for x in p.alts)
        if p.kind != q.kind:
            return False
        if p.kind == "ppath":
            return p.segs[-1] == q.segs[-1]
        if p.kind == "ptuplestruct":
            return p.segs[-1] == q.segs[-1] and len(p.items) == len(q.items) and all(FnTr.covers(a, b) for a, b in zip(p.items, q.items))
        if p.kind == "ptuple":
            return len(p.items) == len(q.items) and all(FnTr.covers(a, b) for a, b in zip(p.items, q.items))
        return False

    def build_match(self, s, arms):
        gi = next((i for i, a in enumerate(arms) if a[1] is not None), None)
        if gi is None:
            eff = any(a[2].eff for a in arms)
            ctx = any(a[2].ctx for a in arms)
            return Match([s], [(a[0], lift(a[2]) if eff else a[2]) for a in arms], eff, ctx)
        # `p if g => e`: match p, test g, else continue with the remaining arms (shared through a thunk)
        pats, guard, body, irref, gpat = arms[gi]
        if not arms[gi + 1:]:
            self.fail("a guarded arm is the last arm")
        # the arms before the guarded one are repeated in the continuation: they cannot match there (same scrutinee), but
        # Lean needs them to see that the continuation's match is exhaustive
        rest = self.build_match(s, arms[:gi] + arms[gi + 1:])
        eff = rest.eff or body.eff or guard.eff or any(a[2].eff for a in arms[:gi])
        ctx = rest.ctx or body.ctx or guard.ctx or any(a[2].ctx for a in arms[:gi])
        k = "κ" + str(self.ntemp + 1)
        self.ntemp += 1
        up = (lambda n: lift(n)) if eff else (lambda n: n)
        kcall = App(k, [Tup([])], eff=eff, ctx=rest.ctx)
        gst = []
        if guard.eff:
            t = self.temp()
            gst = bind_stmts(t, guard)
            gatom = Atom(t)
        else:
            gatom = guard
        garm = mkseq(gst, If(gatom, up(body), kcall, eff, ctx))
        marms = [(a[0], up(a[2])) for a in arms[:gi]] + [(pats, garm)]
        # a catch-all arm that continues with the later arms — unless every later arm is already covered by the guarded
        # pattern or an earlier arm (then, by Rust's exhaustiveness, nothing else can reach it and Lean would reject it)
        earlier = [a[4] for a in arms[:gi]] + [gpat]
        if not irref and any(not any(self.covers(p, a[4]) for p in earlier) for a in arms[gi + 1:]):
            marms.append((["_"], kcall))
        return mkseq([("let", k, Lam(["(_ : Unit)"], up(rest)))], Match([s], marms, eff, ctx))

    # ---- blocks and statements
    # ---- phase 5: a branching EXPRESSION whose arms assign locals of the enclosing block: the arms return (value, locals…)
    class Over(list):
        value = True

    def value_branch(self, e):
        if self.in_value_branch:
            return None
        muts = []
        self.assigned_locals(e, muts)
        if not muts:
            return None
        for m in muts:
            if not self.assignable(m):
                self.fail(f"a branch assigns `{m}`, which is not a variable of the enclosing block")
        muts.sort(key=lambda m: self.order_of[m])
        ov = FnTr.Over(muts)
        self.in_value_branch = True
        n = {"if": self.e_if, "iflet": self.e_iflet, "match": self.e_match}[e.kind](e, ov)
        self.in_value_branch = False
        t = self.temp()
        pat = "(" + ", ".join([t] + [lname(m) for m in muts]) + ")"
        return Seq([("mutbind" if n.eff else "mut", pat, n)], Atom(t), False, False)

    def state_text(self, muts):
        if getattr(muts, "value", False):
            self.fail("internal: state_text of a value branch")
        if not muts:
            return "()"
        return lname(muts[0]) if len(muts) == 1 else "(" + ", ".join(lname(m) for m in muts) + ")"

    def over_final(self, over, value):
        """what a branch returns: the tuple of the assigned locals, preceded by the branch's value for a value branch"""
        if getattr(over, "value", False):
            return PureM(Tup([value] + [Atom(lname(m)) for m in over]))
        return PureM(Atom(self.state_text(over)))

    def with_tail(self, e, over):
        """translate a branch of a statement that assigns the outer locals `over`: every path ends with their tuple"""
        if e is None:
            return self.over_final(over, Tup([]))
        if e.kind == "block":
            return self.block(e, over)
        if e.kind == "if":
            return self.e_if(e, over)
        if e.kind == "iflet":
            return self.e_iflet(e, over)
        if e.kind == "match":
            return self.e_match(e, over)
        self.push(over)
        st = []
        if getattr(over, "value", False):
            v = self.atomize(e, st)
            self.pop()
            return mkseq(st, self.over_final(over, v))
        self.stmt(N("exprstmt", e=e), st)       # an arm `=> expr` of a statement-level branch: `expr` is a statement
        self.pop()
        return mkseq(st, self.over_final(over, Tup([])))

    def block(self, b, over=None, thread=None, merge=False):
        # (tree-builder extension: `thread`: the outer variables the block may assign — their final values become part of the block's
        # value; `merge`: the block shares the frame pushed by the caller, i.e. the names of a pattern)
        if thread is not None and b.tail is None and b.stmts and b.stmts[-1].kind == "exprstmt" and diverging(b.stmts[-1].e):
            # `…; return e;` / `…; break;` at the end of a branch: the block has the type of the other branches (`!` coerces)
            b = N("block", stmts=b.stmts[:-1], tail=b.stmts[-1].e)
        if not merge:
            self.push(over or ())
        self.thread_sets.append(set() if thread is None else ALL if thread.muts is None else set(thread.muts))
        last = b.tail if b.tail is not None else (b.stmts[-1].e if b.stmts and b.stmts[-1].kind == "exprstmt" else None)
        # (tree-builder extension: was `last.kind == "return"`; now also unreachable! ("exit") and break / continue ("loop"))
        self.div.append(False if last is None else "exit" if (last.kind == "return" or (self.t2 and diverging(last) and last.kind == "macro"))
                        else "loop" if (self.t2 and diverging(last)) else False)
        saved_refs, saved_dead = dict(self.entry_refs), set(self.dead_refs)
        saved_globs = list(self.globs)
        stmts = []
        for st in b.stmts:
            self.stmt(st, stmts)
        tail = b.tail
        if tail is not None and tail.kind == "mcall" and (tail.name, len(tail.args)) in STD_MUTATORS and tail.name in UNIT_MUTATORS:
            # a `()`-valued mutation in tail position: a statement, then `()`
            self.stmt(N("exprstmt", e=tail), stmts)
            tail = None
        if over is not None and getattr(over, "value", False):
            if tail is not None and tail.kind in ("if", "iflet", "match"):
                final = self.with_tail(tail, over)
            else:
                v = self.atomize(tail, stmts) if tail is not None else Tup([])
                final = self.over_final(over, v)
        elif over is not None:
            if tail is not None:
                self.stmt(N("exprstmt", e=tail), stmts)
            final = PureM(Atom(self.state_text(over)))
        else:
            # ---- tree-builder extension: a branching tail expression whose branches assign outer variables
            final = None
            if tail is not None:
                self.no_bare_alias([tail], "the value of a block")
            if self.t2 and tail is not None and tail.kind in BRANCHING:
                if thread is not None and not thread.want_value:
                    # the value of this block is not used (a statement-position branch / a loop body): so is the value of its tail, `()`
                    if self.threaded(tail, stmts, False) is not None:
                        final = Tup([])
                else:
                    final = self.threaded(tail, stmts, True)
            if final is None:
                final = self.expr(tail) if tail is not None else Tup([])
            if thread is not None and thread.muts is not None and not diverging(tail):
                names = [Atom(lname(m)) for m in thread.muts]
                if thread.want_value:
                    if final.eff or isinstance(final, Seq):
                        t = self.temp()
                        stmts.extend(bind_stmts(t, final))
                        final = Atom(t)
                    final = Tup([final] + names)
                else:
                    if not (isinstance(final, Tup) and not final.items):
                        stmts.extend(bind_stmts("_", final))
                    final = names[0] if len(names) == 1 else Tup(names)
            # ---- end of the tree-builder extension
        self.thread_sets.pop()
        self.globs = saved_globs
        if self.div.pop():
            # control does not leave a block that ends with `return`: what it did to the references is not visible after it
            self.entry_refs, self.dead_refs = saved_refs, saved_dead
        if not merge:
            self.pop()
        res = mkseq(stmts, final)
        if isinstance(res, Seq):
            res.blockscope = True   # (tree-builder extension: the statements of a block are a scope for rebindings)
        return res

    def local_target(self, e):
        """name of the local variable `e` denotes (for a mutation), if it lives in the innermost frame"""
        while e.kind in ("paren",):
            e = e.e
        if e.kind == "path" and len(e.segs) == 1 and self.is_local(e.segs[0]):
            name = e.segs[0]
            if not (self.can_mutate(name) if self.t2 else self.assignable(name)):   # (tree-builder extension: can_mutate)
                self.fail(f"mutation of `{name}` from a nested block / branch (the rebinding would not escape)")
            return name
        return None

    def stmt(self, st, stmts):
        if st.kind == "use":
            if not st.glob:
                self.fail("`use` of a single name inside a body")
            enum = st.segs[-1]
            if enum not in ENUM_MAP:
                self.fail("`use " + "::".join(st.segs) + "::*`: not an enum of the constructor table")
            self.globs.append(enum)
            return
        if st.kind == "let":
            if st.init is None:
                self.fail("`let` without initialiser")
            if self.t2 and self.let_ext(st, stmts):   # (tree-builder extension: iterators, aliases, branching initialisers that assign)
                return
            init = self.expr(st.init)
            bound = []
            if not self.irrefutable(st.pat):
                self.fail("refutable `let` pattern")
            ptxt = self.pat(st.pat, bound)
            if self.g.is_ctx and self.g.ctx_param in bound:
                self.ctx_shadowed = True
            if st.ty is not None and init.eff and not isinstance(init, (PureM, Seq)):
                ptxt = ptxt + " : " + self.ltype(st.ty, False)     # the Rust ascription helps the elaboration of `let x ← match …`
            stmts.extend(bind_stmts(ptxt, init))
            for b in bound:
                self.declare(b)
                if b in self.g.outs:   # (tree-builder extension)
                    self.fail(f"`let {b}` shadows a `&mut` parameter")
                self.cursors.discard(b)
            x = st.init
            if len(bound) == 1 and x.kind == "mcall" and x.name in ("peekable", "chars") and not x.args:
                self.cursors.add(bound[0])          # phase 5: `let mut iter = s.chars().peekable()`: a cursor
            return
        e = st.e
        if self.t2 and self.stmt_ext(e, stmts):   # (tree-builder extension: loops, branching statements that assign, mutations of places)
            return
        if self.g.mut_self and self.self_stmt(e, stmts):
            self.after_rebind("self", stmts)   # (tree-builder extension)
            return
        # ---- phase 5
        if e.kind == "mcall" and e.recv.kind == "path" and len(e.recv.segs) == 1 and e.recv.segs[0] in self.places \
                and (e.name, len(e.args)) in STD_MUTATORS:
            # `r.push_str(x)` with `r` the `&mut` into the payload of the last element of a vector: that element rebuilt
            r = e.recv.segs[0]
            vec, ctor = self.places[r]
            self.check_local_mut(vec)
            head = STD_MUTATORS[(e.name, len(e.args))]
            n = self.with_args(e.args, lambda a: App("Rs.set_last", [Atom(lname(vec)), App(ctor, [App(head, [Atom(lname(r))] + a)])]))
            stmts.extend(bind_stmts(lname(vec), n) if not isinstance(n, Seq) else n.stmts + [("mut", lname(vec), n.final)])
            self.dead_refs.add(r)
            return
        if e.kind in ("while", "whilelet") or (e.kind == "for" and self.is_cursor_expr(e.iter)):
            self.loopb_stmt(e, stmts)
            return
        if not self.t2 and e.kind in ("break", "continue"):   # (tree-builder extension: there `break` / `continue` are `Rs.brk` / `Rs.cont`)
            if not self.loopb:
                self.fail(f"`{e.kind}` outside a `while` / `for`-over-iterator loop")
            out = "Rs.LoopOut.brk" if e.kind == "break" else "Rs.LoopOut.cont"
            stmts.append(("bind", "_ : Unit", App("Rs.ret", [App(out, [Atom(self.state_text(self.loopb[-1]))])], eff=True)))
            return
        # ---- end phase 5
        if e.kind == "mcall" and (e.name, len(e.args)) in STD_MUTATORS:
            name = self.local_target(e.recv)
            if name is None:
                self.fail(f"`{e.name}` on something that is not a local variable")
            head = STD_MUTATORS[(e.name, len(e.args))]
            n = self.with_args(e.args, lambda a: App(head, [Atom(lname(name))] + a))
            stmts.extend(bind_stmts(lname(name), n))
            self.after_rebind(name, stmts)   # (tree-builder extension)
            return
        if e.kind == "assign":
            name = self.local_target(e.lhs)
            if name is None or e.op != "=":
                self.fail("assignment to something that is not a local variable")
            self.no_bare_alias([e.rhs], "an assignment")   # (tree-builder extension)
            stmts.extend(bind_stmts(lname(name), self.expr(e.rhs)))
            self.after_rebind(name, stmts)   # (tree-builder extension)
            return
        if e.kind == "for":
            self.for_stmt(e, stmts)
            return
        if e.kind == "loop":
            stmts.append(("bind", "_ : Unit", self.loop_node(e)))
            return
        if not self.t2 and e.kind in ("if", "iflet", "match"):   # (tree-builder extension: the tree-builder modules use `threaded`, see stmt_ext)
            muts = []
            self.assigned_locals(e, muts)
            if muts:
                # a branching statement that assigns locals of the enclosing block: the branches return their new values
                for m in muts:
                    if not self.assignable(m):
                        self.fail(f"a branch assigns `{m}`, which is not a variable of the enclosing block")
                muts.sort(key=lambda m: self.order_of[m])
                n = self.with_tail(e, muts)
                stmts.append(("bind" if n.eff else "let", self.state_text(muts), n))
                return
        n = self.expr(e)
        diverges = e.kind in ("return", "break", "continue") or (e.kind == "macro" and e.name == "unreachable") or (self.t2 and all_diverge(e))   # (tree-builder extension: break, continue, branching statements all of whose branches diverge)
        stmts.extend(bind_stmts("_ : Unit" if diverges else "_", n))

    def self_field(self, e):
        """field name if `e` is `self.<field>` with a known field"""
        while e.kind in ("paren", "ref"):
            e = e.e
        if e.kind == "field" and e.e.kind == "path" and e.e.segs == ["self"] and (self.item.impl_type, e.name) in FIELD_UPDATE:
            return e.name
        return None

    def assignable(self, name):
        """may `name` be rebound here: a variable of the innermost block (or a parameter, in the function's body block)"""
        return name in self.frames[-1] or (len(self.frames) == 2 and name in self.frames[0]) or (name == "self" and self.g.mut_self)

    def check_local_mut(self, name):
        if not self.assignable(name):
            self.fail(f"mutation of `{name}` from a nested block / branch (the rebinding would not escape)")

    def check_self_mut(self):
        # directly in the body block, in a block that ends with `return` (which carries the current `self`), or in a branch /
        # loop body whose state tuple contains `self`
        if (len(self.frames) != 2 and not (self.div and self.div[-1]) and "self" not in self.frames[-1]
                and not (self.t2 and self.can_mutate("self"))):   # (tree-builder extension: can_mutate)
            self.fail("`self` is changed from a nested block / branch that can fall through (the rebinding would not escape)")

    def set_entry(self, fld, key, val):
        """`self` with the entry (`key`: of a map; None: the last element of a Vec) of field `fld` replaced by `val`"""
        owner = self.item.impl_type
        cur = App(FIELD_MAP[(owner, fld)], [Atom("self")])
        new = App("Rs.insert", [cur, key, val]) if key is not None else App("Rs.set_last", [cur, val])
        return Atom("{ self with " + FIELD_UPDATE[(owner, fld)] + " := " + render(new, 0) + " }")

    def self_stmt(self, e, stmts):
        """statements that change `*self` in a `&mut self` method; only directly in the body block"""
        check_level = self.check_self_mut
        owner = self.item.impl_type
        if (e.kind == "assign" and e.op == "=" and e.lhs.kind == "unary" and e.lhs.op == "*" and e.lhs.e.kind == "path"
                and len(e.lhs.e.segs) == 1 and e.lhs.e.segs[0] in self.entry_refs):
            # `*r = v` with `r` the `&mut` into the entry of `key` obtained from `self.<field>.get_mut(key)`:
            # the map with the entry of `key` replaced, i.e. `insert(key, v)`; `r` must not be used afterwards
            check_level()
            r = e.lhs.e.segs[0]
            fld, key = self.entry_refs.pop(r)
            self.dead_refs.add(r)
            n = self.with_args([e.rhs], lambda a: self.set_entry(fld, key, a[0]))
            stmts.extend(bind_stmts("self", n))
            return True
        if e.kind == "assign" and e.op == "=" and self.self_field(e.lhs):
            check_level()
            f = FIELD_UPDATE[(owner, self.self_field(e.lhs))]
            n = self.with_args([e.rhs], lambda a: Atom("{ self with " + f + " := " + render(a[0], 0) + " }"))
            stmts.extend(bind_stmts("self", n))
            return True
        if e.kind == "mcall" and (e.name, len(e.args)) in STD_MUTATORS and self.self_field(e.recv):
            check_level()
            fld = self.self_field(e.recv)
            f = FIELD_UPDATE[(owner, fld)]
            head = STD_MUTATORS[(e.name, len(e.args))]
            cur = App(FIELD_MAP[(owner, fld)], [Atom("self")])
            n = self.with_args(e.args, lambda a: Atom("{ self with " + f + " := " + render(App(head, [cur] + a), 0) + " }"))
            stmts.extend(bind_stmts("self", n))
            return True
        if e.kind == "mcall" and e.recv.kind == "path" and e.recv.segs == ["self"]:
            cands = [it for it in self.w.items if it.name == e.name and it.self_kind == "&mut" and len(it.params) == len(e.args)
                     and it.impl_type == owner]
            if len(cands) == 1:
                check_level()
                g = self.w.require(cands[0])
                self.g.deps.append(g)
                t = self.temp()
                n = self.with_args(e.args, lambda a: App(g.lean_name, [Atom("self")] + a))
                stmts.extend(bind_stmts(t, n))
                stmts.append(("let", "self", Atom(t + ".2")))
                return True
        return False

    def assigned_locals(self, node, acc):
        """names of local variables (of the enclosing scopes) that the AST `node` mutates"""
        if isinstance(node, N):
            if self.g.mut_self and "self" not in acc:
                hits_self = (
                    (node.kind == "mcall" and self.self_field(node.recv) and ((node.name, len(node.args)) in STD_MUTATORS or (node.name, len(node.args)) == ("pop", 0)))
                    or (node.kind == "assign" and (self.self_field(node.lhs) or (node.lhs.kind == "unary" and node.lhs.op == "*")))
                    or (node.kind == "mcall" and (node.name, len(node.args)) == ("next", 0) and node.recv.kind == "path" and len(node.recv.segs) == 1)
                    or (node.kind == "mcall" and node.recv.kind == "path" and node.recv.segs == ["self"] and
                        any(it.name == node.name and it.self_kind == "&mut" and it.impl_type == self.item.impl_type for it in self.w.items)))
                if hits_self:
                    acc.append("self")
            # phase 5: cursor advanced, `&mut x` handed to a call, vector reached through `last_mut()`
            def loc(x):
                while x.kind in ("paren",):
                    x = x.e
                return x.segs[0] if x.kind == "path" and len(x.segs) == 1 and self.is_local(x.segs[0]) else None
            if node.kind == "mcall" and node.name == "next" and not node.args and loc(node.recv) in self.cursors:
                if loc(node.recv) not in acc:
                    acc.append(loc(node.recv))
            if node.kind in ("call", "mcall"):
                for a in node.args:
                    if a.kind == "ref" and a.mut and loc(a.e) and loc(a.e) not in acc:
                        acc.append(loc(a.e))
            if node.kind == "mcall" and node.name == "last_mut" and loc(node.recv) and loc(node.recv) not in acc:
                acc.append(loc(node.recv))
            if node.kind == "for" and loc(node.iter) in self.cursors and loc(node.iter) not in acc:
                acc.append(loc(node.iter))
            if node.kind == "mcall" and (node.name, len(node.args)) in STD_MUTATORS and node.recv.kind == "path" and len(node.recv.segs) == 1:
                if self.is_local(node.recv.segs[0]) and node.recv.segs[0] not in acc:
                    acc.append(node.recv.segs[0])
            if node.kind == "assign" and node.lhs.kind == "path" and len(node.lhs.segs) == 1:
                if self.is_local(node.lhs.segs[0]) and node.lhs.segs[0] not in acc:
                    acc.append(node.lhs.segs[0])
            if node.kind == "closure":
                return
            for v in node.__dict__.values():
                self.assigned_locals(v, acc)
        elif isinstance(node, (list, tuple)):
            for v in node:
                self.assigned_locals(v, acc)

    # ---- phase 5: `while`, `while let`, `for` over a cursor: `Rs.loopB` with `break` / `continue`
    def is_cursor_expr(self, x):
        while x.kind in ("paren", "ref"):
            x = x.e
        return x.kind == "path" and len(x.segs) == 1 and x.segs[0] in self.cursors and self.is_local(x.segs[0])

    def loopb_stmt(self, e, stmts):
        if not self.g.has_loop or self.in_closure:
            self.fail("loop outside a fuel-indexed function body")
        brk = N("block", stmts=[N("exprstmt", e=N("break"))], tail=None)
        if e.kind == "while":
            step = N("if", cond=e.cond, then=e.body, els=brk)
        elif e.kind == "whilelet":
            step = N("iflet", pat=e.pat, scrut=e.scrut, then=e.body, els=brk)
        else:   # `for x in cursor`: `while let Some(x) = cursor.next()`
            it = e.iter
            while it.kind in ("paren", "ref"):
                it = it.e
            nxt = N("mcall", recv=it, name="next", args=[], targs=[])
            step = N("iflet", pat=N("ptuplestruct", segs=["Some"], items=[e.pat]), scrut=nxt, then=e.body, els=brk)
        muts = []
        self.assigned_locals(step, muts)
        for m in muts:
            if not self.assignable(m):
                self.fail(f"the loop assigns `{m}`, which is not a variable of the enclosing block")
        muts.sort(key=lambda m: self.order_of[m])
        state = self.state_text(muts)
        self.loop_depth += 1
        self.loopb.append(muts)
        self.push(muts)
        saved_div = self.div
        self.div = []
        body_stmts = []
        self.stmt(N("exprstmt", e=step), body_stmts)
        self.div = saved_div
        self.pop()
        self.loopb.pop()
        self.loop_depth -= 1
        body = mkseq(body_stmts, PureM(App("Rs.LoopOut.cont", [Atom(state)])))
        loop = App("Rs.loopB", [Atom(self.site("loop: out of fuel").text), Atom("fuel"), Atom(state),
                                Lam([state if muts else "_"], App("Rs.Flow.run", [body]))], eff=True)
        stmts.append(("bind", state if muts else "_", loop))

    def e_loop(self, e):
        if self.t2:   # (tree-builder extension: loops are statements there, see loop_stmt)
            self.fail("a loop in expression position")
        return self.loop_node(e)

    def loop_node(self, e):
        """`loop { BODY }` (left only by `return`): iterate BODY on the tuple of the variables it assigns, at most `fuel` times"""
        if not getattr(self.g, "has_loop", False) or self.in_closure:
            self.fail("`loop` outside a fuel-indexed function body")
        muts = []
        self.assigned_locals(e.body, muts)
        for m in muts:
            if m not in self.frames[-1] and m != "self":
                self.fail(f"the loop assigns `{m}`, which is not a variable of the enclosing block")
        muts.sort(key=lambda m: self.order_of[m])
        state = self.state_text(muts)
        self.loop_depth += 1
        body = self.block(e.body, muts)
        self.loop_depth -= 1
        if body.ctx:
            self.fail("context access in a `loop`")
        return App("Rs.loop", [Atom(self.site("loop: out of fuel").text), Atom("fuel"), Atom(state), Lam([state if muts else "_"], lift(body))], eff=True)

    def for_stmt(self, e, stmts):
        """`for PAT in ITER { BODY }`: a fold over the list; the loop state is the tuple of the locals BODY assigns"""
        it = self.atomize(e.iter, stmts)
        muts = []
        self.assigned_locals(e.body, muts)
        for m in muts:
            if not self.can_mutate(m) and m != "self":   # (tree-builder extension: can_mutate; was `m not in self.frames[-1]`)
                self.fail(f"the loop assigns `{m}`, which is not a variable of the enclosing block")
        muts.sort(key=lambda m: self.order_of[m])
        self.loop_depth += 1
        bound = []
        if not self.irrefutable(e.pat):
            self.fail("refutable `for` pattern")
        ptxt = self.pat(e.pat, bound)
        for m in muts:
            if m in bound:
                self.fail("loop variable shadows a mutated variable")
        state = "(" + ", ".join(lname(m) for m in muts) + ")" if len(muts) != 1 else lname(muts[0])
        if not muts:
            state = "()"
        self.push(bound + muts)
        self.loops.append(Loop("for", None))   # (tree-builder extension: `break` / `continue` do not address a `for`)
        self.thread_sets.append(set())
        saved_globs = list(self.globs)
        body_stmts = []
        for st in e.body.stmts:
            self.stmt(st, body_stmts)
        if e.body.tail is not None:
            self.stmt(N("exprstmt", e=e.body.tail), body_stmts)
        self.globs = saved_globs
        self.thread_sets.pop()
        self.loops.pop()
        self.pop()
        body = mkseq(body_stmts, PureM(Atom(state)))
        if self.attach:
            self.nloops += 1
            ptxt = "⟨" + ptxt + ", h_loop" + str(self.nloops) + "⟩"
            it = App("List.attach", [it])
        self.loop_depth -= 1
        spat = state if muts else "_"
        loop = App("Rs.forIn", [it, Atom(state), Lam([ptxt, spat], body)], eff=True, ctx=body.ctx)
        stmts.append(("bind", spat, loop))
        for m in muts:
            self.after_rebind(m, stmts)   # (tree-builder extension)

    # =========================================================================== tree-builder extension: methods
    # ---- tree-builder extension: small helpers
    def take_thread(self):
        tc, self.pending_thread = self.pending_thread, None
        return tc

    def cur_outs(self):
        """the current values of the `&mut` places the function returns"""
        outs = [Atom(lname(o)) for o in self.g.outs]
        return outs[0] if len(outs) == 1 else Tup(outs)

    def flow_app(self, head, args):
        """`?` / panic / unwrap / index: in a function that returns `&mut` places, the early exit carries their current values"""
        if self.g.res_out:
            return App(head + "_out", args + [self.cur_outs()], eff=True)
        return App(head, args, eff=True)

    def field_struct(self, fname):
        """the struct of the field table that has a field `fname`, if the name identifies it among the structs of the crate"""
        cands = [st for (st, f) in FIELD_MAP if f == fname]
        decls = {st for table in STRUCTS.values() for st, fields in table.items() if fname in fields}
        if len(cands) == 1 and decls <= {cands[0]}:
            return cands[0]
        return None

    def mut_key(self, name):
        """order of the components of a threaded tuple / loop state: declaration order (phase 4's `order_of`)"""
        return (self.frame_index(name), self.order_of.get(name, 0), name)

    def frame_index(self, name):
        for i in range(len(self.frames) - 1, -1, -1):
            if name in self.frames[i]:
                return i
        return 0

    def can_mutate(self, name):
        """may the current block rebind `name`? (its own variables; the parameters in the body block; the variables it threads)"""
        ts = self.thread_sets[-1] if self.thread_sets else set()
        if ts is ALL or name in ts:
            return True
        if self.div and self.div[-1]:
            return True         # the block ends with `return`: control does not leave it, the rebinding need not escape
        if name in self.frames[-1]:
            return True
        return len(self.frames) == 2 and name in self.frames[0]

    def note_mut(self, name):
        k = self.div[-1] if self.div else False
        if k == "exit":
            return              # inside a block that ends with `return` / a panic: nothing to thread out
        if self.discs:
            fi = self.frame_index(name)
            for d in self.discs:
                if k == "loop" and d.loop_depth >= len(self.loops):
                    continue    # inside a block that ends with `break` / `continue`: only the loop (and what encloses it) sees the value
                if fi < d.base and name not in d.found:
                    d.found.append(name)

    # ---- tree-builder extension: places and aliases
    def bare_alias(self, e):
        """the alias name if `e` is a bare use of a `&mut` alias as a value (`a`, `&mut *a`, `(a)`)"""
        while e.kind in ("paren", "ref") or (e.kind == "unary" and e.op == "*"):
            e = e.e
        if e.kind == "path" and len(e.segs) == 1 and e.segs[0] in self.aliases and self.is_local(e.segs[0]):
            return e.segs[0]
        return None

    def no_bare_alias(self, exprs, where):
        """a `&mut` alias stored somewhere (returned, put into a tuple / struct / Option, yielded by a block) would live on as a second
        reference to the place; the copy-in / write-through discipline cannot express that"""
        for x in exprs:
            a = self.bare_alias(x)
            if a is not None:
                self.fail(f"the `&mut` alias `{a}` escapes into {where}")

    def shadow(self, n):
        pl, dead = self.aliases.pop(n, None), n in self.dead_refs
        if (pl is not None or dead) and self.alias_saves and n not in self.alias_saves[-1]:
            self.alias_saves[-1][n] = (pl, dead)
        self.dead_refs.discard(n)

    def new_alias(self, name, pl):
        """`name` (already declared, holding a copy of the place's value) is a `&mut` into `pl`"""
        for a, q in list(self.aliases.items()):
            if q.root == pl.root and a != pl.root:
                self.kill_alias(a)      # two live `&mut` into one root cannot both be used (borrow rules): the older one ends
        self.aliases[name] = pl
        self.alias_decl[-1].add(name)

    def kill_alias(self, a):
        self.aliases.pop(a, None)
        self.dead_refs.add(a)
        for b, q in list(self.aliases.items()):
            if q.root == a:
                self.kill_alias(b)

    def place_of(self, e):
        """the place a Rust expression denotes: a local variable / parameter / `self` / alias, followed by fields,
        `.last_mut().unwrap()`, `[i]` — or None"""
        while e.kind in ("paren", "ref") or (e.kind == "unary" and e.op == "*"):
            e = e.e
        if e.kind == "path" and len(e.segs) == 1:
            name = e.segs[0]
            if name == "self":
                return Place("self", []) if self.item.self_kind else None
            if self.is_local(name) and not (self.g.is_ctx and name == self.g.ctx_param and not self.is_shadowed_ctx()):
                if name in self.dead_refs:
                    self.fail(f"`{name}` (a `&mut` alias) is used after the place it refers to was assigned otherwise")
                if name in self.iters:
                    return None
                return Place(name, [])
            return None
        if e.kind == "field":
            p = self.place_of(e.e)
            if p is None:
                return None
            if p.root == "self" and not p.steps and (self.item.impl_type, e.name) in FIELD_UPDATE:
                st = self.item.impl_type
            else:
                st = self.field_struct(e.name)
            if st is None or (st, e.name) not in FIELD_UPDATE:
                return None
            return Place(p.root, p.steps + [("field", st, e.name)])
        if e.kind == "mcall" and e.name == "unwrap" and not e.args and e.recv.kind == "mcall" and e.recv.name == "last_mut" and not e.recv.args:
            p = self.place_of(e.recv.recv)
            return None if p is None else Place(p.root, p.steps + [("last",)])
        if e.kind == "index":
            p = self.place_of(e.a)
            if p is None:
                return None
            i = e.i
            while i.kind == "paren":
                i = i.e
            if i.kind == "lit" and i.lk == "num" and i.text.isdigit():
                return Place(p.root, p.steps + [("index", Atom(i.text))])
            if i.kind == "path" and len(i.segs) == 1 and self.is_local(i.segs[0]):
                return Place(p.root, p.steps + [("index", Atom(lname(i.segs[0])))])
            self.fail("a place `X[i]` whose index is neither a literal nor a local variable")
        return None

    def access(self, pl, stmts, upto=None):
        """the chain of values along the place path: [root, …, value of the place]; `unwrap` / index checks go to `stmts`"""
        t = Atom("self" if pl.root == "self" else lname(pl.root))
        chain = [t]
        for st in (pl.steps if upto is None else pl.steps[:upto]):
            if st[0] == "field":
                t = App(FIELD_MAP[(st[1], st[2])], [t])
            elif st[0] == "last":
                self.need_res("`last_mut().unwrap()`")
                tmp = self.temp()
                stmts.extend(bind_stmts(tmp, self.flow_app("Rs.unwrap", [self.site("unwrap on None"), App("Rs.last", [t])])))
                t = Atom(tmp)
            else:
                self.need_res("indexing")
                tmp = self.temp()
                stmts.extend(bind_stmts(tmp, self.flow_app("Rs.index", [self.site("index out of bounds"), t, st[1]])))
                t = Atom(tmp)
            chain.append(t)
        return chain

    def store(self, pl, chain, val, stmts, via=None):
        """the functional update of the place path: rebinds the root"""
        new = val
        for i in range(len(pl.steps) - 1, -1, -1):
            st, c = pl.steps[i], chain[i]
            if st[0] == "field":
                new = Atom("{ " + render(c, 0, True) + " with " + FIELD_UPDATE[(st[1], st[2])] + " := " + render(new, 0) + " }")
            elif st[0] == "last":
                new = App("Rs.set_last", [c, new])
            else:
                new = App("Rs.set_index", [c, st[1], new])
        self.rebind(pl.root, new, stmts, via)

    def rebind(self, root, new, stmts, via=None):
        if not self.can_mutate(root):
            self.fail(f"mutation of `{root}` from a nested block / branch / closure that does not return it (the rebinding would not escape)")
        stmts.append(("let", Rebind("self" if root == "self" else lname(root)), new))
        self.after_rebind(root, stmts, via)

    def after_rebind(self, root, stmts, via=None):
        """`root` has just been rebound: record it, end the aliases that hold a stale copy, write through if it is an alias"""
        self.note_mut(root)
        for a, q in list(self.aliases.items()):
            if q.root == root and a != via:
                self.kill_alias(a)
        if root in self.aliases:
            pl = self.aliases[root]
            chain = self.access(pl, stmts, upto=max(len(pl.steps) - 1, 0))
            self.store(pl, chain, Atom(lname(root)), stmts, via=root)

    def mutate_place(self, pl, f, stmts):
        """read-modify-write of a place: the new value is `f(current value)`"""
        chain = self.access(pl, stmts)
        self.store(pl, chain, f(chain[-1]), stmts)

    # ---- tree-builder extension: threading of assigned variables through branches and loops
    def snapshot(self):
        return (self.ntemp, dict(self.entry_refs), set(self.dead_refs), dict(self.aliases), [dict(x) for x in self.alias_saves],
                [set(x) for x in self.alias_decl], [set(f) for f in self.frames], list(self.globs), self.ctx_shadowed, list(self.div),
                self.nloops, list(self.thread_sets), list(self.loops), dict(self.iters), dict(self.cur_iters), self.uses_div,
                len(self.g.deps))

    def restore(self, snap):
        (self.ntemp, self.entry_refs, self.dead_refs, self.aliases, self.alias_saves, self.alias_decl, self.frames, self.globs,
         self.ctx_shadowed, self.div, self.nloops, self.thread_sets, self.loops, self.iters, self.cur_iters, self.uses_div, ndeps) = snap
        del self.g.deps[ndeps:]

    def reset_pass(self):
        self.ntemp, self.nloops, self.frames, self.globs, self.ctx_shadowed = 0, 0, [], [], False
        self.rank, self.order_of, self.loop_depth, self.in_closure = 0, {}, 0, False
        self.entry_refs, self.dead_refs, self.aliases, self.alias_saves, self.alias_decl = {}, set(), {}, [], []
        self.thread_sets, self.pending_thread, self.discs, self.loops, self.iters, self.cur_iters = [], None, [], [], {}, {}
        self.div = []

    def discover(self, e):
        """the variables declared outside the statement `e` that `e` assigns (directly, through an alias, by `pop`, by passing
        them as `&mut`): found by a dry run of the translation of `e` whose output is dropped"""
        key = id(e)
        if key in self.mut_cache:
            return self.mut_cache[key]
        snap = self.snapshot()
        d = Disc(len(self.frames), len(self.loops))
        self.discs.append(d)
        try:
            if e.kind in LOOPS:
                self.loop_core(e, None)
            else:
                self.pending_thread = Thread(None, False)
                self.expr(e)
        finally:
            self.discs.pop()
            self.pending_thread = None
            self.restore(snap)
        muts = sorted(d.found, key=self.mut_key)
        self.mut_cache[key] = muts
        return muts

    def threaded(self, e, stmts, want_value):
        """the branching expression `e` (if / if let / match / block) at statement level: if its branches assign outer variables,
        every branch returns their final values (next to its own value if `want_value`) and the statement rebinds them.
        Returns the value (want_value) / True, or None if `e` assigns nothing (the caller translates it as before)."""
        muts = self.discover(e)
        if not muts:
            return None
        for m in muts:
            if not self.can_mutate(m):
                self.fail(f"mutation of `{m}` from a nested block / branch / closure that does not return it (the rebinding would not escape)")
        self.pending_thread = Thread(muts, want_value)
        n = self.expr(e)
        if self.pending_thread is not None:
            raise AssertionError("thread context not consumed")
        names = [("self" if m == "self" else lname(m)) for m in muts]
        v = self.temp() if want_value else None
        pat = names[0] if (len(names) == 1 and not want_value) else "(" + ", ".join(([v] if want_value else []) + names) + ")"
        stmts.extend(bind_stmts(pat, n))
        for m in muts:
            self.note_mut(m)
            for a, q in list(self.aliases.items()):
                if q.root == m and a not in muts:
                    self.kill_alias(a)
        return Atom(v) if want_value else True

    def arm_threaded(self, body, tc):
        """a branch / arm body that is not a block, in a threaded statement"""
        if body.kind == "block":
            return self.block(body, thread=tc)
        if body.kind in BRANCHING:
            self.pending_thread = tc
            return self.expr(body)
        return self.block(N("block", stmts=[], tail=body), thread=tc)

    def last_mut_scrutinee(self, e, stmts):
        """`X.last_mut()` (X a place) as the scrutinee of `match` / `if let`: (place X, the scrutinee term `Rs.last X`) or None.
        A name bound by a `Some(r)` arm is an alias of the last element."""
        sc = e.scrut
        while sc.kind == "paren":
            sc = sc.e
        if not (sc.kind == "mcall" and sc.name == "last_mut" and not sc.args):
            return None
        pl = self.place_of(sc.recv)
        if pl is None:
            self.fail("`last_mut()` on something that is not a place")
        for a in e.arms:
            p = a.pat
            ok = (p.kind == "ptuplestruct" and p.segs == ["Some"] and len(p.items) == 1 and p.items[0].kind in ("ppath", "pident")
                  and self.irrefutable(p.items[0])) or p.kind == "pwild" or (p.kind == "ppath" and p.segs == ["None"])
            if not ok:
                self.fail("`last_mut()` must be matched by `Some(r)` / `None` / `_` arms")
        chain = self.access(pl, stmts)
        return pl, App("Rs.last", [chain[-1]])

    def let_ext(self, st, stmts):
        init = st.init
        while init.kind == "paren":
            init = init.e
        simple = st.pat.kind == "pident" or (st.pat.kind == "ppath" and len(st.pat.segs) == 1 and not st.pat.segs[0][0].isupper())
        name = (st.pat.name if st.pat.kind == "pident" else st.pat.segs[0]) if simple else None
        # 1. `let mut it = xs.iter().peekable();` / `let mut it = xs.iter();`: an iterator over a list
        x = init
        if x.kind == "mcall" and x.name == "peekable" and not x.args:
            x = x.recv
        if x.kind == "mcall" and x.name == "iter" and not x.args and x is not init or (init.kind == "mcall" and init.name == "iter" and st.pat.kind == "pident"):
            if not simple:
                self.fail("iterator bound by a pattern")
            lst = self.atomize(x.recv, stmts)
            if not isinstance(lst, Atom):
                t = self.temp()
                stmts.append(("let", t, lst))
                lst = Atom(t)
            self.declare(name)
            self.iters[name] = lst
            return True
        # 2. `let r = X.last_mut().unwrap();` / `let r = &mut P;` / `let r = a;` (a an alias): an alias of a place (copy-in, write-through)
        is_alias = (init.kind == "ref" and init.mut) or (init.kind == "mcall" and init.name == "unwrap" and init.recv.kind == "mcall"
                                                        and init.recv.name == "last_mut") or self.bare_alias(init) is not None
        if is_alias:
            pl = self.place_of(init)
            if pl is None:
                self.fail("`&mut` of something that is not a place")
            if not simple:
                self.fail("`&mut` alias bound by a pattern")
            chain = self.access(pl, stmts)
            stmts.append(("let", lname(name), chain[-1]))
            self.declare(name)
            if name in self.g.outs:
                self.fail(f"`let {name}` shadows a `&mut` parameter")
            self.new_alias(name, pl)
            return True
        # 3. a branching initialiser whose branches assign outer variables
        if init.kind in BRANCHING:
            v = self.threaded(init, stmts, True)
            if v is None:
                return False
            if not self.irrefutable(st.pat):
                self.fail("refutable `let` pattern")
            bound = []
            ptxt = self.pat(st.pat, bound)
            stmts.append(("let", ptxt, v))
            for b in bound:
                self.declare(b)
                if b in self.g.outs:
                    self.fail(f"`let {b}` shadows a `&mut` parameter")
            return True
        return False

    def stmt_ext(self, e, stmts):
        if e.kind in LOOPS:
            self.loop_stmt(e, stmts)
            return True
        if e.kind in BRANCHING:
            return self.threaded(e, stmts, False) is not None
        if e.kind == "mcall" and (e.name, len(e.args)) in STD_MUTATORS:
            pl = self.place_of(e.recv)
            if pl is None or (pl.root == "self" and self.g.mut_self and self.self_field(e.recv)):
                return False
            if not pl.steps and pl.root not in self.aliases:
                return False        # a plain local variable: the existing rule
            head = STD_MUTATORS[(e.name, len(e.args))]
            args = [self.atomize(x, stmts) for x in e.args]
            self.mutate_place(pl, lambda cur: App(head, [cur] + args), stmts)
            return True
        if e.kind == "assign":
            pl = self.place_of(e.lhs)
            if pl is None or (pl.root == "self" and self.g.mut_self and self.self_field(e.lhs)):
                return False
            if not pl.steps and pl.root not in self.aliases:
                return False
            if pl.root == "self" and not pl.steps:
                return False
            if e.op != "=":
                self.fail("compound assignment to a place")
            self.no_bare_alias([e.rhs], "an assignment")
            val = self.atomize(e.rhs, stmts)
            chain = self.access(pl, stmts, upto=max(len(pl.steps) - 1, 0))
            self.store(pl, chain, val, stmts)
            return True
        return False

    # ---- tree-builder extension: loops
    def iter_header(self, e):
        """`while let Some(p) = it.next()[.cloned()]` over a registered iterator: (iterator name, list term, pattern p) or None"""
        if e.kind != "whilelet":
            return None
        sc = e.scrut
        while sc.kind == "paren" or (sc.kind == "mcall" and sc.name in ("cloned", "copied") and not sc.args):
            sc = sc.e if sc.kind == "paren" else sc.recv
        if not (sc.kind == "mcall" and sc.name == "next" and not sc.args and sc.recv.kind == "path" and len(sc.recv.segs) == 1
                and sc.recv.segs[0] in self.iters):
            return None
        p = e.pat
        if not (p.kind == "ptuplestruct" and p.segs == ["Some"] and len(p.items) == 1 and self.irrefutable(p.items[0])):
            self.fail("`while let` over an iterator must bind `Some(<irrefutable pattern>)`")
        return sc.recv.segs[0], self.iters[sc.recv.segs[0]], p.items[0]

    def loop_body(self, e):
        """the body of `loop` / `while` / `while let` as the body of a `loop`"""
        b = getattr(e, "_desugared", None)
        if b is None:
            if e.kind == "loop" or self.iter_header(e) is not None:
                b = e.body
            elif e.kind == "while":
                brk = N("block", stmts=[], tail=N("break"))
                b = N("block", stmts=[N("exprstmt", e=N("if", cond=e.cond, then=e.body, els=brk))], tail=None)
            else:
                arms = [N("arm", pat=e.pat, guard=None, body=e.body), N("arm", pat=N("pwild"), guard=None, body=N("block", stmts=[], tail=N("break")))]
                b = N("block", stmts=[N("exprstmt", e=N("match", scrut=e.scrut, arms=arms))], tail=None)
            e._desugared = b
        return b

    def loop_core(self, e, muts):
        """the loop body as a function of the loop's variables `muts` (None: discovery pass); returns (body, header, pattern, lookahead)"""
        hdr = self.iter_header(e)
        body = self.loop_body(e)
        self.loops.append(Loop("loop", muts))
        ptxt, nxt = None, None
        if hdr is not None:
            bound = []
            ptxt = self.pat(hdr[2], bound)
            nxt = self.temp()
            self.push(bound)
            saved = dict(self.cur_iters)
            self.cur_iters[hdr[0]] = nxt
            n = self.block(body, thread=Thread(muts, False), merge=True)
            self.cur_iters = saved
            self.pop()
        else:
            n = self.block(body, thread=Thread(muts, False))
        self.loops.pop()
        return n, hdr, ptxt, nxt

    def state_term(self, muts):
        if muts is None or not muts:
            return Tup([])
        names = [Atom("self" if m == "self" else lname(m)) for m in muts]
        return names[0] if len(names) == 1 else Tup(names)

    def loop_stmt(self, e, stmts):
        muts = self.discover(e)
        for m in muts:
            if not self.can_mutate(m):
                self.fail(f"the loop assigns `{m}`, which the enclosing block does not return (the rebinding would not escape)")
        n, hdr, ptxt, nxt = self.loop_core(e, muts)
        state = render(self.state_term(muts), 0)
        spat = state if muts else "(_ : Unit)"
        self.uses_div = True
        if hdr is not None:
            loop = App("Rs.forPeek", [hdr[1], Atom(state), Lam([ptxt, nxt, spat], lift(n))], eff=True)
            del self.iters[hdr[0]]          # the iterator is exhausted (or the function has returned)
            self.frames[self.frame_index(hdr[0])].discard(hdr[0])
        else:
            loop = App("Rs.loopFix", [Lam([spat], lift(n)), Atom(state)], eff=True)
        if self.loops:
            loop = App("Rs.liftD", [loop], eff=True)
        stmts.append(("bind", state if muts else "_", loop))
        for m in muts:
            self.note_mut(m)
            for a, q in list(self.aliases.items()):
                if q.root == m and a not in muts:
                    self.kill_alias(a)

    def e_while(self, e):
        self.fail("a loop in expression position")

    e_whilelet = e_while

    def e_break(self, e):
        if not self.loops or self.loops[-1].kind != "loop":
            self.fail("`break` outside a `loop` / `while` (or inside a `for`)")
        return App("Rs.brk", [self.state_term(self.loops[-1].muts)], eff=True)

    def e_continue(self, e):
        if not self.loops or self.loops[-1].kind != "loop":
            self.fail("`continue` outside a `loop` / `while` (or inside a `for`)")
        return App("Rs.cont", [self.state_term(self.loops[-1].muts)], eff=True)

    # ---- tree-builder extension: method calls on iterators and places
    def e_mcall_ext(self, e):
        name, n = e.name, len(e.args)
        recv = e.recv
        while recv.kind == "paren":
            recv = recv.e
        if recv.kind == "path" and len(recv.segs) == 1 and recv.segs[0] in self.iters:
            it = recv.segs[0]
            if name == "peek" and n == 0 and it in self.cur_iters:
                return Atom(self.cur_iters[it])
            self.fail(f"the iterator `{it}` is used other than by `while let … = {it}.next()` / `{it}.peek()` inside that loop")
        if (name, n) in VALUE_MUTATORS:
            pl = self.place_of(recv)
            if pl is None:
                self.fail(f"`{name}` on something that is not a place")
            stmts = []
            args = [self.atomize(x, stmts) for x in e.args]
            chain = self.access(pl, stmts)
            t = self.temp()
            stmts.append(("let", t, App(VALUE_MUTATORS[(name, n)], [chain[-1]] + args)))
            self.store(pl, chain, Atom(t + ".2"), stmts)
            return mkseq(stmts, Atom(t + ".1"))
        if name == "unwrap" and n == 0 and recv.kind == "mcall" and recv.name == "last_mut" and not recv.args:
            pl = self.place_of(e)
            if pl is None:
                self.fail("`last_mut()` on something that is not a place")
            stmts = []
            chain = self.access(pl, stmts)
            return mkseq(stmts, chain[-1])
        if name == "last_mut" and n == 0:
            self.fail("`last_mut()` other than `X.last_mut().unwrap()` or the scrutinee of a `match` / `if let`")
        return None

    def call_gen_places(self, g, recv, args):
        """call of a translated function that returns `&mut` places and / or may diverge"""
        if g.is_ctx:
            self.fail(f"{g.lean_name}: `&mut` places / divergence in a function with a context parameter")
        stmts, terms, places = [], [], []
        if recv is not None:
            if g.mut_self:
                pl = self.place_of(recv)
                if pl is None:
                    self.fail(f"`&mut self` method `{g.item.name}` called on something that is not a place")
                chain = self.access(pl, stmts)
                places.append((pl, chain))
                terms.append(chain[-1])
            else:
                terms.append(self.atomize(recv, stmts))
        for k, x in enumerate(args):
            if k in g.out_idx:
                pl = self.place_of(x)
                if pl is None:
                    self.fail(f"the `&mut` argument {k + 1} of {g.lean_name} is not a place")
                chain = self.access(pl, stmts)
                places.append((pl, chain))
                terms.append(chain[-1])
            else:
                terms.append(self.atomize(x, stmts))
        if len({pl.root for pl, _ in places}) != len(places):
            self.fail(f"two `&mut` arguments of {g.lean_name} are places inside the same variable")
        call = App(g.ref_name, terms)
        t = self.temp()
        if g.div and (g.item.file, g.item.name) in CONVERGED_CALLS:
            if g.outs or not g.ret.startswith("Res "):
                self.fail(f"{g.lean_name} is in CONVERGED_CALLS but does not return a plain Result")
            stmts.append(("let", t, App("Rs.converged", [Atom('cl!"' + g.item.name + ': diverges"'), call])))
        elif g.div:
            self.uses_div = True
            stmts.append(("bind", t, App("Rs.callD", [call], eff=True)))
        else:
            stmts.append(("let", t, call))
        if not g.outs:
            return mkseq(stmts, Atom(t))
        k = len(places)
        for j, (pl, chain) in enumerate(places):
            proj = t + ".2" + ".2" * j + (".1" if j < k - 1 else "")
            self.store(pl, chain, Atom(proj), stmts)
        return mkseq(stmts, Atom(t + ".1"))

    def verify_rebinds(self, n, ok):
        """safety net: every rebinding of a place must sit in the statement list of a block (or of a threaded branch); one that
        was left inside a sub-expression (`a && v.pop()…`, a closure, a guard) would not reach the code after it"""
        if isinstance(n, Seq):
            ok = ok or getattr(n, "blockscope", False)
            if not ok and any(isinstance(p, Rebind) for _, p, _ in n.stmts):
                self.fail("a mutation of a place inside a sub-expression whose effect on the place cannot be sequenced (`&&` / `||` operand, guard, closure, argument)")
            for _, _, v in n.stmts:
                self.verify_rebinds(v, False)
            self.verify_rebinds(n.final, ok)
        elif isinstance(n, PureM):
            self.verify_rebinds(n.term, ok)
        elif isinstance(n, If):
            for x in (n.c, n.t, n.e):
                self.verify_rebinds(x, False)
        elif isinstance(n, Match):
            for x in n.scruts:
                self.verify_rebinds(x, False)
            for _, b in n.arms:
                self.verify_rebinds(b, False)
        elif isinstance(n, Lam):
            self.verify_rebinds(n.body, False)
        elif isinstance(n, App):
            for x in n.args:
                self.verify_rebinds(x, False)
        elif isinstance(n, (Tup, ListLit)):
            for x in n.items:
                self.verify_rebinds(x, False)
    # =========================================================================== end of the tree-builder extension: methods

    # ---- the function
    # ---- phase 7: `impl Display for T { fn fmt(&self, f: &mut Formatter) -> fmt::Result }`.
    # The generated function is the text `fmt` appends to the formatter (`T.fmt self : Str`): the body is executed on the state
    # `out` (the text written so far, initially empty) and the `let mut` locals in scope:
    #   write!(f, "…{}…", a, …)   ↦ out := Rs.push_str out (<pieces of format!("…{}…", a, …)>)      (never fails: `?` on it is transparent)
    #   x.fmt(f)                  ↦ out := Rs.push_str out (T.fmt x)        (Lean's type checker demands x : T)
    #   let mut x = <literal>; x = <literal>;  if <local> {..} else {..};  match <local/self> {..};  for x in <local> {..} (Rs.foldFor over List.attach)
    # anything else is UNTRANSLATABLE.
    def fmt_translate(self):
        it, g = self.item, self.g
        if len(g.mut_params) != 1 or it.self_kind != "&":
            self.fail("Display::fmt signature")
        self.fmt_f, self.fmt_rec, self.nloops = g.mut_params[0], False, 0
        self.ctx_shadowed = False
        self.cursors = set()
        ty = TYPE_MAP[it.impl_type]
        g.params, g.ret, g.deps = [("self", ty)], "Str", []
        body = Parser(it.body_toks, it.where).block()
        self.push(["self"])
        lines = self.fmt_lines(body, ["out"], 2)
        self.pop()
        text = (f"/-- `{it.impl_type}::fmt` (impl Display): the text appended to the formatter — src/{it.file} -/\n"
                f"def {g.lean_name} (self : {ty}) : Str :=\n  let out := ([] : Str);\n" + "".join(lines) + "  out\n")
        if self.fmt_rec:
            if ty != "Value":
                self.fail("recursive Display::fmt on a type without termination measure")
            text += "termination_by sizeOf self\ndecreasing_by all_goals (exact Rs.value_lt (by assumption))\n"
        g.text = text

    @staticmethod
    def fmt_tup(vars_):
        return vars_[0] if len(vars_) == 1 else "(" + ", ".join(vars_) + ")"

    def fmt_pure(self, e):
        n = self.expr(e)
        if n.eff or n.ctx:
            self.fail("effectful expression inside Display::fmt")
        return render(n, 0, False)

    def fmt_chain(self, e, vars_, ind):
        """`(<lines of e>; <vars>)`: run `e` on the state `vars_`, give the new state"""
        pad = " " * ind
        return "(\n" + "".join(self.fmt_lines(e, list(vars_), ind + 2)) + pad + "  " + self.fmt_tup(vars_) + ")"

    def fmt_lines(self, e, vars_, ind):
        pad = " " * ind
        tup = self.fmt_tup(vars_)
        while e.kind == "paren":
            e = e.e
        if e.kind == "try":
            return self.fmt_lines(e.e, vars_, ind)
        if e.kind == "macro" and e.name == "write":
            items = split_commas(e.toks)
            if len(items) < 2 or len(items[0]) != 1 or items[0][0].text != self.fmt_f:
                self.fail("write! whose destination is not the formatter")
            piece = self.e_macro(N("macro", name="format", toks=e.toks[2:]))
            if piece.eff or piece.ctx:
                self.fail("effectful write! argument")
            return [f"{pad}let out := Rs.push_str out ({render(piece, 0, False)});\n"]
        if e.kind == "mcall" and e.name == "fmt" and len(e.args) == 1 and e.args[0].kind == "path" and e.args[0].segs == [self.fmt_f]:
            self.fmt_rec = True
            return [f"{pad}let out := Rs.push_str out ({self.g.lean_name} {self.fmt_pure(e.recv)});\n"]
        if e.kind == "block":
            out, vs = [], list(vars_)
            self.push([])
            for st in e.stmts:
                if st.kind == "let":
                    if st.pat.kind == "ppath" and len(st.pat.segs) == 1:
                        st.pat = N("pident", name=st.pat.segs[0])
                    if st.pat.kind != "pident" or st.init is None or st.init.kind != "lit" or st.pat.name in vs:
                        self.fail("`let` in Display::fmt other than `let mut x = <literal>`")
                    self.frames[-1].append(st.pat.name) if isinstance(self.frames[-1], list) else self.frames[-1].add(st.pat.name)
                    out.append(f"{pad}let {lname(st.pat.name)} := {self.fmt_pure(st.init)};\n")
                    vs.append(lname(st.pat.name))
                elif st.kind == "exprstmt":
                    out += self.fmt_lines(st.e, vs, ind)
                else:
                    self.fail("statement in Display::fmt")
            if e.tail is not None:
                out += self.fmt_lines(e.tail, vs, ind)
            self.pop()
            return out
        if e.kind == "assign" and e.op == "=" and e.lhs.kind == "path" and len(e.lhs.segs) == 1 and lname(e.lhs.segs[0]) in vars_[1:] and e.rhs.kind == "lit":
            return [f"{pad}let {lname(e.lhs.segs[0])} := {self.fmt_pure(e.rhs)};\n"]
        if e.kind == "if":
            if e.cond.kind != "path" or e.els is None:
                self.fail("`if` in Display::fmt whose condition is not a local / without else")
            return [f"{pad}let {tup} := if {self.fmt_pure(e.cond)} then {self.fmt_chain(e.then, vars_, ind)} else {self.fmt_chain(e.els, vars_, ind)};\n"]
        if e.kind == "match":
            if e.scrut.kind != "path" or len(e.scrut.segs) != 1:
                self.fail("`match` in Display::fmt on something that is not a local")
            txt = f"{pad}let {tup} := (match {self.fmt_pure(e.scrut)} with\n"
            for a in e.arms:
                if a.guard is not None or getattr(a, "cfg", None):
                    self.fail("guarded / cfg arm in Display::fmt")
                bound = []
                ptxt = self.pat(a.pat, bound)
                self.push(bound)
                txt += f"{pad}  | {ptxt} => {self.fmt_chain(a.body, vars_, ind + 2)}\n"
                self.pop()
            return [txt + f"{pad}  );\n"]
        if e.kind == "for":
            itx = e.iter
            while itx.kind in ("paren", "ref"):
                itx = itx.e
            if e.pat.kind == "ppath" and len(e.pat.segs) == 1:
                e.pat = N("pident", name=e.pat.segs[0])
            if itx.kind != "path" or len(itx.segs) != 1 or e.pat.kind != "pident":
                self.fail("`for` in Display::fmt over something that is not a local vector")
            self.nloops += 1
            h = f"h_loop{self.nloops}"
            self.push([e.pat.name])
            body = self.fmt_chain(e.body, vars_, ind)
            self.pop()
            return [f"{pad}let {tup} := Rs.foldFor (List.attach {self.fmt_pure(itx)}) {tup} (fun ⟨{lname(e.pat.name)}, {h}⟩ {tup} => {body});\n"]
        self.fail("expression of kind `" + e.kind + "` in Display::fmt")
    # ---- end phase 7

    # ---- phase 8: `fn f(&self / &mut self) -> impl Iterator<Item = T> { S::new(self) }` with `S` a struct whose `Iterator::next` is
    # translated: `impl Iterator<Item = T>` is `List T` (phase 6), and the iterator value `S::new(self)` coerced to it is the list of
    # the items `next` yields until `None`: `Rs.collect_iter (S.next fuel) fuel (S.new self)` — fuel-indexed like every loop
    # (`.error (.panic …)` when `fuel` calls of `next` did not exhaust it). A `&mut self` receiver is only borrowed by `S::new`:
    # creating the iterator does not change the node, so only the list is returned.
    def impl_iter_translate(self):
        it, g = self.item, self.g
        body = Parser(it.body_toks, it.where).block()
        e = body.tail
        if (body.stmts or e is None or e.kind != "call" or e.f.kind != "path" or len(e.f.segs) != 2 or e.f.segs[1] != "new"
                or len(e.args) != 1 or e.args[0].kind != "path" or e.args[0].segs != ["self"]):
            self.fail("`impl Iterator` function whose body is not `S::new(self)`")
        sname = e.f.segs[0]
        new = [x for x in self.w.items if x.impl_type == sname and x.name == "new" and x.impl_trait is None]
        nxt = [x for x in self.w.items if x.impl_type == sname and x.name == "next" and x.impl_trait == "Iterator"]
        if len(new) != 1 or len(nxt) != 1:
            self.fail(f"`{sname}::new` / `Iterator::next for {sname}` not found")
        gn, gx = self.w.require(new[0]), self.w.require(nxt[0])
        g.deps = [gn, gx]
        if [t for _, t in gx.params] != ["Nat", TYPE_MAP[sname]] or [t for _, t in gn.params] != ["Node"]:
            self.fail(f"unexpected signature of {sname}::new / next")
        elem = self.ltype(it.ret.segs[-1][1][0], True)
        if gx.ret != f"Res ((Option {elem}) × {TYPE_MAP[sname]})":
            self.fail(f"`{sname}::next` does not yield `{elem}`: " + gx.ret)
        g.params, g.ret = [("fuel", "Nat"), ("self", "Node")], f"Res (List {elem})"
        g.text = (f"/-- `{it.impl_type}::{it.name}` (the iterator `{sname}::new(self)` as `impl Iterator`: collected) — src/{it.file} -/\n"
                  f"def {g.lean_name} (fuel : Nat) (self : Node) : Res (List {elem}) :=\n"
                  f"  Rs.collect_iter ({gx.lean_name} fuel) fuel ({gn.lean_name} self)\n")
    # ---- end phase 8

    def translate(self):
        it, g = self.item, self.g
        if it.impl_trait == "Display" and it.name == "fmt":    # phase 7
            return self.fmt_translate()
        if (getattr(it, "phase6", False) and it.file == "tree/iter.rs" and it.ret is not None and it.ret.kind == "tpath"
                and it.ret.segs[-1][0] == "ImplIterator"):    # phase 8
            return self.impl_iter_translate()
        self.ctx_shadowed = False
        p = Parser(it.body_toks, it.where)
        body = p.block()
        names = [n for n, _ in g.params if n not in ("_", "fuel")]
        self.cursors = set(g.mut_params)
        if g.is_ctx:
            names.append(g.ctx_param)
        if it.self_kind:
            names.append("self")    # (tree-builder extension: `self` is a place root like the parameters)
        self.push(names)            # frame 0: parameters
        node = self.block(body)
        self.pop()
        # ---- tree-builder extension: recursion through a `&mut` place: no structural termination argument, `partial_fixpoint`
        if self.t2 and g.recursive and g.outs and not g.div:
            g.div = True
            self.reset_pass()
            g.deps = []
            self.push(names)
            node = self.block(body)
            self.pop()
        if self.uses_div:
            g.div = True
        if g.div and g.is_ctx:
            self.fail("a function with a context parameter that may diverge (loop / recursion through a place / call of such a function)")
        if self.t2:
            self.verify_rebinds(node, True)
        # ---- end of the tree-builder extension
        if g.recursive and not g.div and not self.attach:
            # second pass: loops over `List.attach`, so that the recursive calls on the elements come with a membership proof
            self.attach, self.ntemp, self.nloops, self.frames, self.globs, self.ctx_shadowed = True, 0, 0, [], [], False
            g.deps = []
            self.push(names)
            node = self.block(body)
            self.pop()
        if node.ctx and not g.is_ctx:
            self.fail("context access in a function without a context parameter")
        params = "".join(f" ({n} : {t})" for n, t in g.params)
        owner = (it.impl_type + "::") if it.impl_type else ""
        trait = f" (impl {it.impl_trait}<{from_desc(it.trait_args[0])[0]}>)" if it.impl_trait == "From" else ""
        doc = f"/-- `{owner}{it.name}`{trait} — src/{it.file} -/\n"
        term = ""
        if g.recursive and g.div:
            term = "partial_fixpoint\n"   # (tree-builder extension)
        elif g.recursive:
            if not (g.params and g.params[0] == ("self", "Node")):
                self.fail("recursive function whose `self` is not a Node (no termination measure)")
            unfold = sorted({d.lean_name for d in g.deps if d is not g and not d.is_ctx})
            term = ("termination_by sizeOf self\ndecreasing_by all_goals ((try simp only [" + ", ".join(unfold) +
                    "] at *); exact Rs.node_lt (by assumption))\n")
        if self.t2 and g.outs:   # (tree-builder extension: the value of the body and the final values of all outs)
            st, fin = (node.stmts, node.final) if isinstance(node, Seq) else ([], node)
            node = mkseq(st + bind_stmts(TEMP + "r", fin), Tup([Atom(TEMP + "r")] + [Atom(lname(o)) for o in g.outs]))
        elif g.conv is not None:
            # the value of the body with the final `self` / cursors (their rebindings are statements of the body block)
            st, fin = (node.stmts, node.final) if isinstance(node, Seq) else ([], node)
            node = mkseq(st + bind_stmts(TEMP + "r", fin), self.ret_value(Atom(TEMP + "r")))
        if g.div:   # (tree-builder extension)
            head = f"def {g.lean_name}{params} : Option ({g.ret}) :=\n  Rs.D.run "
            text = doc + head + render(lift(node), 2, True)
        elif g.is_ctx:
            head = f"def {g.lean_name}{params} : St → {g.ret} × St :=\n  Rs.M.run "
            text = doc + head + render(lift(node), 2, True)
        elif node.eff:
            head = f"def {g.lean_name}{params} : {g.ret} :=\n  Rs.Flow.run "
            text = doc + head + render(node, 2, True)
        else:
            head = f"def {g.lean_name}{params} : {g.ret} :=\n  "
            text = doc + head + render(node, 2, False)
        g.text = text + "\n" + term
        if it.impl_trait == "From" and getattr(it, "from_instance", True):
            src_t = self.ltype(it.trait_args[0], True)
            g.instance = f"instance : Rs.Into {src_t} {TYPE_MAP[it.impl_type]} := ⟨{g.lean_name}⟩\n"
        if it.impl_type == "f64" and it.impl_trait == "EvalexprFloat" and (it.name, len(it.params)) in CLASS_TRAIT_METHODS:
            g.instance = f"instance : {CLASS_TRAIT_METHODS[(it.name, len(it.params))][1]} Float := ⟨{g.lean_name}⟩\n"
        if it.impl_trait == "Default" and not getattr(it, "phase6", False):   # phase 6: no instance for the Unit-modelled contexts
            g.instance = f"instance : Rs.Default {TYPE_MAP[it.impl_type]} := ⟨{g.lean_name}⟩\n"


def render_pat_src(p):
    return p.tok.text if p.kind == "plit" else p.kind


def is_flat(n):
    return "\n" not in render(n, 0, True)


def split_commas(toks):
    items, cur, depth = [], [], 0
    for t in toks:
        if T.isopen(t):
            depth += 1
        elif T.isclose(t):
            depth -= 1
        if depth == 0 and T.isp(t, ","):
            items.append(cur)
            cur = []
        else:
            cur.append(t)
    if cur:
        items.append(cur)
    return items


# =============================================================================== driver

# what to translate: (file, owner type, fn name); everything these call inside the crate is translated too,
# unless the call is in a boundary table
ROOTS = [
    ("operator/mod.rs", "Operator", "eval"),
    ("operator/mod.rs", "Operator", "eval_mut"),
    ("error/mod.rs", None, "expect_operator_argument_amount"),
    ("error/mod.rs", None, "expect_number_or_string"),
    ("value/mod.rs", "Value", "as_string"), ("value/mod.rs", "Value", "as_int"), ("value/mod.rs", "Value", "as_float"),
    ("value/mod.rs", "Value", "as_number"), ("value/mod.rs", "Value", "as_boolean"), ("value/mod.rs", "Value", "as_tuple"),
    ("value/mod.rs", "Value", "as_fixed_len_tuple"), ("value/mod.rs", "Value", "as_empty"),
    ("tree/mod.rs", "Node", "eval_with_context"), ("tree/mod.rs", "Node", "eval_with_context_mut"),
] + [("tree/mod.rs", "Node", "eval")] + [("tree/mod.rs", "Node", f"eval_{k}{m}") for m in ("_with_context", "_with_context_mut", "")
       for k in ("string", "int", "float", "number", "boolean", "tuple", "empty")] + [
    ("interface/mod.rs", None, n) for n in ("eval_with_context", "eval_with_context_mut", "eval", "build_operator_tree")] + [
    ("interface/mod.rs", None, f"eval_{k}{m}") for m in ("_with_context", "_with_context_mut", "")
    for k in ("string", "int", "float", "number", "boolean", "tuple", "empty")] + [
    ("context/mod.rs", "HashMapContext", "new"), ("context/mod.rs", "HashMapContext", "set_value"),
    ("context/mod.rs", "ContextWithMutableVariables", "set_value"), ("context/mod.rs", "ContextWithMutableFunctions", "set_function"),
    ("error/mod.rs", "EvalexprError", "expected_type"),
    ("tree/iter.rs", "NodeIter", "next"), ("tree/iter.rs", "OperatorIterMut", "next"),
    ("tree/iter.rs", "NodeIter", "new"), ("tree/iter.rs", "OperatorIterMut", "new"),
    ("function/builtin.rs", None, "builtin_function"),
    ("token/mod.rs", None, "char_to_partial_token"), ("token/mod.rs", None, "parse_dec_or_hex"),
    ("token/mod.rs", None, "parse_escape_sequence"), ("token/mod.rs", None, "parse_string_literal"),
    ("token/mod.rs", None, "try_skip_comment"), ("token/mod.rs", None, "str_to_partial_tokens"),
    ("token/mod.rs", None, "partial_tokens_to_tokens"), ("token/mod.rs", None, "tokenize"),
    ("value/numeric_types/default_numeric_types.rs", "i64", "from_hex_str"),
    ("value/numeric_types/default_numeric_types.rs", "i64", "bit_shift_left"),
    ("value/numeric_types/default_numeric_types.rs", "i64", "bit_shift_right"),
] + [("value/numeric_types/default_numeric_types.rs", "i64", n) for n in ['checked_add', 'checked_sub', 'checked_neg', 'checked_mul', 'checked_div', 'checked_rem', 'abs', 'bitand', 'bitor', 'bitxor', 'bitnot', 'from_usize', 'into_usize']] + [
    ("value/numeric_types/default_numeric_types.rs", "f64", n) for n in ['pow', 'ln', 'log', 'log2', 'log10', 'exp', 'exp2', 'cos', 'cosh', 'acos', 'acosh', 'sin', 'sinh', 'asin', 'asinh', 'tan', 'tanh', 'atan', 'atanh', 'atan2', 'sqrt', 'cbrt', 'hypot', 'floor', 'round', 'ceil', 'is_nan', 'is_finite', 'is_infinite', 'is_normal', 'abs', 'min', 'max']] + [
    ("value/numeric_types/default_numeric_types.rs", "DefaultNumericTypes", n) for n in ("int_as_float", "float_as_int")] + [("context/mod.rs", owner, n) for owner in ("EmptyContext", "EmptyContextWithBuiltinFunctions", "HashMapContext")
     for n in ("get_value", "call_function", "are_builtin_functions_disabled", "set_builtin_functions_disabled",
               "iter_variables", "iter_variable_names")] + [
    ("context/mod.rs", "HashMapContext", "set_function"), ("context/mod.rs", "HashMapContext", "clear_variables"),
    ("context/mod.rs", "HashMapContext", "clear_functions"), ("context/mod.rs", "HashMapContext", "clear"),
] + [("error/mod.rs", "EvalexprError", n) for n in (
    # the error constructor functions the agreement proofs name (kept as roots so that a body which stops calling one still checks)
    "wrong_operator_argument_amount", "wrong_type_combination", "expected_string", "expected_int", "expected_float",
    "expected_number", "expected_number_or_string", "expected_boolean", "expected_tuple", "expected_fixed_len_tuple",
    "expected_empty", "type_error", "wrong_function_argument_amount_range", "expected_ranged_len_tuple", "addition_error", "subtraction_error", "negation_error", "multiplication_error", "division_error",
    "modulation_error")] + [("value/mod.rs", "Value", "from_int"), ("value/mod.rs", "Value", "from_float"),
                         ("value/mod.rs", "Value", "str_from"), ("value/mod.rs", "Value", "as_ranged_len_tuple")] + [
    # ---- tree-builder extension: the operator / token predicate tables and the tree builder
    (f, o, n) for (f, o, n) in TREE_BUILD_FNS] + [("token/mod.rs", "Token", n) for n in ("is_leftsided_value", "is_rightsided_value", "is_assignment")]
# `impl From<A> for B` blocks that give `.into()` its meaning: (file, A, B); translated BEFORE the roots
# `impl Default for T` blocks that give `Default::default()` its meaning at T: (file, T); translated before the roots
DEFAULT_IMPLS = [("context/mod.rs", "HashMapContext")]
# (file, source type as written, target, register as the `Rs.Into` instance?). References are erased by the translation, so
# the three `From<&Value>`, `From<&mut Value>`, `From<&&mut Value>` impls have the same Lean type: the first one is the
# instance, the other two are translated as plain functions (and proved equal to the same Model function).
FROM_IMPLS = [
    ("value/mod.rs", "String", "Value", True),
    ("value/mod.rs", "&str", "Value", False),
    ("value/mod.rs", "bool", "Value", True),
    ("value/value_type.rs", "&Value", "ValueType", True),
    ("value/value_type.rs", "&mut Value", "ValueType", False),
    ("value/value_type.rs", "&&mut Value", "ValueType", False),
]


PHASE6_ITER = {"iter": "Evalexpr.Node.iter", "iter_operators_mut": "Evalexpr.Node.iterOperatorsMut"}
# ---- phase 6: (file, owner, fn, impl trait, trait argument as written)
PHASE6_ROOTS = [("value/mod.rs", "Value", n, None, None) for n in
                ("is_string", "is_int", "is_float", "is_number", "is_boolean", "is_tuple", "is_empty")] + [
    ("value/mod.rs", "Value", "from", "From", "TupleType"),
    ("value/mod.rs", "EvalexprResultValue", "from", "From", "Value"),
    ("value/mod.rs", "Value", "from", "From", "()"),
    ("value/mod.rs", "String", "try_from", "TryFrom", "Value"),
    ("value/mod.rs", "bool", "try_from", "TryFrom", "Value"),
    ("value/mod.rs", "TupleType", "try_from", "TryFrom", "Value"),
    ("value/mod.rs", "()", "try_from", "TryFrom", "Value"),
] + [("tree/mod.rs", "Node", f"iter_{k}identifiers{m}", None, None)
     for k in ("", "variable_", "read_variable_", "write_variable_", "function_") for m in ("", "_mut")] + [
    ("context/mod.rs", "EmptyContext", "default", "Default", None),
    ("context/mod.rs", "EmptyContextWithBuiltinFunctions", "default", "Default", None),
    ("value/display.rs", "Value", "fmt", "Display", None),      # phase 7
    ("feature_serde/mod.rs", "NodeVisitor", "visit_str", "Visitor", None),      # phase 8
    ("tree/iter.rs", "Node", "iter", None, None), ("tree/iter.rs", "Node", "iter_operators_mut", None, None),      # phase 8
]
# ---- end phase 6
SKIPPED_ARMS = []
ROOT_KEYS = set(ROOTS)


def header(module, imports):
    lines = ["/- GENERATED by /verif/translate_fn.py from the Rust sources on every run — do not edit.",
             "   Mechanical rendering of Rust function bodies (see Translate/Prelude.lean for the vocabulary).",
             "",
             "   BOUNDARY (trusted): calls that leave the translated code are mapped to Model definitions:",
             "   * methods of the context parameter (`&C` / `&mut C`, C: Context [+ ContextWithMutableVariables]):"]
    for name, (n, lean, doc) in CTX_METHODS.items():
        lines.append(f"       context.{name}/{n}  ↦ {lean} = {doc}")
    lines.append("   * trait / foreign methods, by (name, arity):")
    for (name, n), lean in BOUNDARY_METHODS.items():
        lines.append(f"       .{name}/{n}  ↦ {lean}" + ("   (Function::call = `(self.function)(argument)`: application of the stored function)" if name == "call" else ""))
    lines.append("   * inherent std methods of i64 / f64 (called on `(*self)` inside `impl EvalexprInt for i64` / `impl EvalexprFloat for f64`):")
    row = []
    for (prim, name, n), lean in PRIM_METHODS.items():
        row.append(f"{prim}::{name}/{n} ↦ {lean}")
        if len(row) == 3:
            lines.append("       " + ";  ".join(row))
            row = []
    if row:
        lines.append("       " + ";  ".join(row))
    lines.append("     `x as T` on numbers ↦ Rs.cast (Int64.toFloat, Float.toInt64, Int64.toUInt64);  usize/u64 `try_into` ↦ Rs.try_into (range check)")
    lines.append("   * functions:")
    for path, (n, lean) in BOUNDARY_PATHS.items():
        lines.append(f"       {'::'.join(path)}/{n}  ↦ {lean}")
    lines.append("   * operators on primitive types:")
    for nline in BOUNDARY_NOTES:
        lines.append("       " + nline)
    lines.append("   * std / Display methods used by the builtins, each mapped to the Model definition that stands for it:")
    lines.append("       str::to_lowercase ↦ strToLower;  str::to_uppercase ↦ strToUpper;  str::trim ↦ trimStr;  String::len ↦ utf8Len;")
    lines.append("       str::get(a..b) ↦ sliceBytes;  [Value]::contains ↦ tupleContains;  RangeInclusive::contains ↦ lo ≤ x ∧ x ≤ hi;")
    lines.append("       to_string (Display) on String / f64 / i64 / bool / Value ↦ id / F64.display / F64.intDisplay / \"true\"|\"false\" / Value.display;")
    lines.append("       Ord::min / Ord::max on i64 ↦ comparison of Int64.toInt;  i64::wrapping_shl/shr(n) ↦ BitVec shift by n mod 64;  usize::MAX ↦ 2^64-1;")
    lines.append("       Function::new(closure) ↦ the closure;  Vec::swap_remove(i) (value only, the vector is not used afterwards) ↦ element i")
    lines.append("   * `macro_rules!` invocations (simple_math!, int_function!) are expanded by the translator (literal tokens and `$x:ident` only);")
    lines.append("     `match` on string literals ↦ chain of `if s == \"lit\"`; match arms under #[cfg(feature = \"regex\" | \"rand\")] are NOT")
    lines.append("     modelled and skipped" + (": " + ", ".join(sorted({a[2] for a in SKIPPED_ARMS})) if SKIPPED_ARMS else ""))
    lines.append("   * lexer (src/token/mod.rs): char::is_whitespace ↦ isWhitespace;  char::is_ascii_digit ↦ F64.isDigit;  str::parse::<f64> ↦ F64.parse;")
    lines.append("       str::parse::<bool> ↦ parseBool;  i64::from_str ↦ F64.parseDec;  i64::from_str_radix(_, 16) ↦ F64.parseHex (other radixes: not modelled);")
    lines.append("       Display for PartialToken (token/display.rs, not translated) ↦ PartialToken.display;  derived PartialEq for Token / PartialToken ↦")
    lines.append("       Rs.tokenBeq (Prelude);  str::chars / Peekable ↦ the list of the remaining characters (next ↦ Rs.iter_next, peek ↦ head?);")
    lines.append("       strip_prefix, starts_with(closure), bool::then, Option::flatten, Result::ok, Vec::extend(Option), v[a..] ↦ Prelude definitions")
    lines.append("     `while` / `while let` / `for` over an iterator, with `break` / `continue` ↦ Rs.loopB (fuel-indexed like `loop`); a function with a")
    lines.append("     `&mut` iterator parameter returns the advanced cursor with its value (`Res (value × cursor)`, consumed by `?` at the call)")
    lines.append("   * `loop { … }` (left by `return` only) ↦ Rs.loop: the generated function takes `fuel : Nat` and returns `Res`; out of fuel ↦")
    lines.append("     .error (.panic \"… out of fuel\") (no termination assumption: the agreement theorems prove how much fuel suffices);")
    lines.append("     NodeIter / OperatorIterMut { stack: Vec<slice::Iter<Node>> } ↦ Rs.IterStack (Vec, top = last, of the remaining children);")
    lines.append("     slice iterator `next` through `stack.last_mut()` ↦ Rs.iter_next + write-back (Rs.set_last); Vec::pop ↦ Rs.last / Rs.pop_back")
    lines.append("   * may-diverge code (tree-builder extension): a function that contains `loop` / `while` / `while let`, or is recursive through a")
    lines.append("     `&mut` place, or calls such a function, is `Option`-valued (`none` = divergence; Rs.loopFix / recursion by `partial_fixpoint`, no")
    lines.append("     termination argument assumed). A call of such a function from code translated as total is rendered `Rs.converged`:")
    for f_, n_ in sorted(CONVERGED_CALLS):
        lines.append(f"       {f_}::{n_}  ↦ Rs.converged \"{n_}: diverges\" (Gen.{n_} …)   (divergence = a panic outcome no Model function produces)")
    for (f_, n_), k_ in sorted(FUEL_CALLS.items()):
        lines.append(f"     a call of the fuel-indexed {f_}::{n_} from code translated as total ↦ Gen.{n_} (Rs.fuel_chars <argument {k_ + 1}>) …  (fuel = length + 1;")
        lines.append("       sufficiency is proved by the caller's agreement theorem, not assumed)")
    lines.append("   * places (tree-builder extension): `&mut` parameters / `&mut self` are returned next to the result; a local bound to")
    lines.append("     `X.last_mut().unwrap()` / `&mut P` / the `Some(r)` of `match X.last_mut()` is a copy of the place's value that is written back")
    lines.append("     (`Rs.set_last`, `{ x with f := … }`) after every mutation through it (Rust's borrow rules: no other access while it lives);")
    lines.append("     `Vec` ↦ List with the LAST element as the top (`push` ↦ `++ [x]`, `pop` ↦ (getLast?, dropLast)); `i32` ↦ Nat;")
    lines.append("     `mem::discriminant` on Operator ↦ Operator.kind; derived `==` on Operator / Token ↦ Rs.Operator.peq / Rs.Token.peq;")
    lines.append("     `let mut it = xs.iter().peekable(); while let Some(x) = it.next() { … it.peek() … }` ↦ Rs.forPeek (list + lookahead).")
    lines.append("   * state: a context built in place (`&mut HashMapContext::new()`) passed as the context argument ↦ Rs.call_fresh: the callee runs")
    lines.append("     on the state { ctx := .hashMap h, log := [] }, result only (Model: St.fresh / Mode.fresh);")
    lines.append("     HashMap<String, T> ↦ association list (get ↦ alookup, insert ↦ ainsert, clear ↦ []; `*r = v` through the `r` of")
    lines.append("     `if let Some(r) = self.<map>.get_mut(key)` ↦ insert key v); iterators ↦ the list of their items (map order = list order)")
    lines.append("   * data: Rust enums Value, ValueType, Operator, EvalexprError ↦ Model inductives Value, ValueType, Operator, Err")
    lines.append("     (constructor table ENUM_MAP of translate_fn.py, checked against the enum declarations on every run);")
    lines.append("     usize ↦ Nat, String/&str ↦ Str, NumericTypes::Int ↦ Int64, NumericTypes::Float ↦ Float, Vec<T>/&[T] ↦ List T,")
    lines.append("     Result<T, EvalexprError> ↦ Res T; the generic parameter NumericTypes is fixed to DefaultNumericTypes.")
    lines.append("-/")
    return "\n".join(lines) + "\n" + imports + "\nnamespace Evalexpr.Gen\nopen Evalexpr\n\n"


def write_if_changed(path, text):
    old = None
    if os.path.exists(path):
        with open(path, encoding="utf-8") as f:
            old = f.read()
    if old != text:
        os.makedirs(os.path.dirname(path), exist_ok=True)
        with open(path, "w", encoding="utf-8") as f:
            f.write(text)
        return True
    return False


def run():
    w = World()
    for file, a, b, inst in FROM_IMPLS:
        c = [it for it in w.items if it.file == file and it.impl_trait == "From" and it.impl_type == b and it.name == "from"
             and it.trait_args and from_desc(it.trait_args[0])[0] == a]
        if len(c) != 1:
            raise Untranslatable(f"impl From<{a}> for {b}: {len(c)} candidates", file)
        c[0].from_instance = inst
        w.require(c[0])
    for file, owner in DEFAULT_IMPLS:
        c = [it for it in w.items if it.file == file and it.impl_trait == "Default" and it.impl_type == owner and it.name == "default"]
        if len(c) != 1:
            raise Untranslatable(f"impl Default for {owner}: {len(c)} candidates", file)
        w.require(c[0])
    top = [g for g in w.order]        # (tree-builder extension, FUEL_CALLS) the From / Default impls, in translation order
    for file, owner, name in ROOTS:
        c = [it for it in w.find(file, owner, name)
             if it.impl_trait in (None, "<trait>", "Context", "ContextWithMutableVariables", "ContextWithMutableFunctions") + TRANSLATED_TRAITS]
        if len(c) != 1:
            raise Untranslatable(f"{len(c)} items named {name}", f"{file}::{(owner + '::') if owner else ''}{name}")
        top.append(w.require(c[0]))
    # ---- phase 6: the remaining API projections, all emitted into the module FnSweep
    for file, owner, name, trait, targ in PHASE6_ROOTS:
        c = [it for it in w.items if it.file == file and it.impl_type == owner and it.name == name and it.impl_trait == trait
             and (targ is None or (it.trait_args and from_desc(it.trait_args[0])[0] == targ))]
        if len(c) != 1:
            raise Untranslatable(f"phase 6: {len(c)} items for {owner}::{name} ({trait} {targ})", file)
        c[0].phase6 = True
        c[0].from_instance = False
        top.append(w.require(c[0]))
    # ---- end phase 6
    # ---- tree-builder extension (FUEL_CALLS): the emission order is the order in which the functions would be reached from the
    # roots if the FUEL_CALLS callees were still boundary calls (depth-first, callees first) — i.e. the order of phase 5 —, so that
    # making `tokenize` a translated callee of the interface functions does not move the lexer functions inside their modules
    seen, order2 = set(), []

    def visit(g):
        if id(g) in seen:
            return
        seen.add(id(g))
        for d in g.deps:
            if (d.item.file, d.item.name) in FUEL_CALLS and not g.has_loop:
                continue
            visit(d)
        order2.append(g)
    for g in top:
        visit(g)
    if len(order2) != len(w.order):
        raise Untranslatable("internal: emission order", "run")
    w.order = order2
    SKIPPED_ARMS[:] = w.skipped_arms
    # group by module, check the module dependency order
    by_mod = {m: [] for m in MODULE_ORDER}
    for g in w.order:
        by_mod[g.module].append(g)
        for d in g.deps:
            if MODULE_ORDER.index(d.module) > MODULE_ORDER.index(g.module):
                raise Untranslatable(f"calls {d.lean_name} of a later module ({d.module})", g.item.where)
    # generated names must not capture constructor names
    ctor_names = {lean for table in ENUM_MAP.values() for lean, _, _ in table.values()}
    for g in w.order:
        if g.lean_name in ctor_names:
            raise Untranslatable("generated name collides with a Model constructor", g.item.where)
    changed = []
    prev = []
    for m in MODULE_ORDER:
        if not by_mod[m]:
            continue
        need = {d.module for g in by_mod[m] for d in g.deps if d.module != m}
        if any(any(k in g.text for k in ("Rs.into", "Rs.default", "Rs.min", "Rs.max")) for g in by_mod[m]):
            need |= {g.module for g in w.order if g.instance and g.module != m and MODULE_ORDER.index(g.module) < MODULE_ORDER.index(m)}
        imports = "import EvalexprVerif.Translate.Prelude\n" + "".join(f"import EvalexprVerif.Generated.{x}\n" for x in prev if x in need)
        if m == "FnSweep":
            imports += "import EvalexprVerif.Model.Iter\n"       # phase 6: the boundary `Node::iter ↦ Evalexpr.Node.iter`
        body = []
        for g in by_mod[m]:
            body.append(g.text)
            if g.instance:
                body.append(g.instance)
            # (tree-builder extension) a function of the tree-builder modules that is not a root has no agreement theorem of its own:
            # the agreement proofs of its callers unfold it (`simp`), so that extracting a helper is not a proof obligation
            if m in T2_MODULES and (g.item.file, g.item.impl_type, g.item.name) not in ROOT_KEYS and not g.recursive:
                body.append(f"attribute [simp] {g.lean_name}\n")
        names = "/-- the functions translated into this module -/\ndef translated" + m + " : List String := [" + \
            ", ".join('"' + g.lean_name + '"' for g in by_mod[m]) + "]\n"
        text = header(m, imports) + "set_option linter.unusedVariables false\nset_option linter.unusedSimpArgs false\n\n" + "\n".join(body) + "\n" + names + "\nend Evalexpr.Gen\n"
        if write_if_changed(os.path.join(OUT, m + ".lean"), text):
            changed.append(m)
        prev.append(m)
    return w, changed


def poison(msg):
    """after a failure the generated modules must not keep a stale (possibly agreeing) content: make them fail to
    elaborate, so that the agreement obligations are reported broken even if the exit status is ignored"""
    msg = msg.replace("-/", "- /").replace("\n", " ")
    for m in MODULE_ORDER:
        text = (f"/- GENERATED by /verif/translate_fn.py — the translation FAILED on this run:\n   {msg}\n-/\n"
                "import EvalexprVerif.Translate.Prelude\n\n"
                "theorem Evalexpr.Gen.untranslatable : False := by exact untranslatable_rust_source\n")
        write_if_changed(os.path.join(OUT, m + ".lean"), text)


def main():
    try:
        w, changed = run()
    except Untranslatable as e:
        msg = f"UNTRANSLATABLE: {e.where or '?'}: {e.what}"
        print(msg)
        poison(msg)
        return 2
    except (OSError, ValueError, IndexError) as e:   # unreadable file, unbalanced brackets, truncated token stream
        msg = f"UNTRANSLATABLE: {SRC}: cannot scan the sources: {type(e).__name__}: {e}"
        print(msg)
        poison(msg)
        return 2
    print("translate_fn: " + str(len(w.order)) + " functions; regenerated " + (", ".join(changed) if changed else "nothing (unchanged)"))
    return 0


if __name__ == "__main__":
    sys.exit(main())
