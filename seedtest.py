#!/usr/bin/env python3
"""seedtest.py <property> <A|B|…> [extra properties to check]

Confirms a seeded change produced by an independent sub-agent (in /tmp/seed_<property>/SEED/) in a
scratch worktree: (1) the existing suite passes with the change, (2) the demonstration passes without
and fails with the change; then applies it to /repo, runs ./check for the property (and any extra ones)
in quick tier (thorough if quick stays quiet), undoes it, and stores patch, demo and meta.json under
/verif/seeded/<property>-<letter>/.  Nothing is ever committed to /repo.
"""
import json, os, shutil, subprocess, sys, re

def sh(cmd, cwd=None, timeout=3600):
    p = subprocess.run(cmd, cwd=cwd, shell=True, stdout=subprocess.PIPE, stderr=subprocess.STDOUT, text=True, timeout=timeout,
                       env=dict(os.environ, CARGO_NET_OFFLINE="true"))
    return p.returncode, p.stdout

def main():
    confirm_only = "--confirm-only" in sys.argv
    args = [a for a in sys.argv[1:] if not a.startswith("--")]
    pid, letter = args[0], args[1]
    extra = args[2:]
    seed = f"/tmp/seed6_{pid}/SEED" if letter in ("K", "L") else f"/tmp/seed5_{pid}/SEED" if letter in ("I", "J") else f"/tmp/seed4_{pid}/SEED" if letter in ("G", "H") else f"/tmp/seed3_{pid}/SEED" if letter in ("E", "F") else f"/tmp/seed2_{pid}/SEED" if letter in ("C", "D") else f"/tmp/seed_{pid}/SEED"
    patch = f"{seed}/{letter}.diff"
    demo = f"{seed}/{letter}_demo.rs"
    kept = f"/verif/seeded/{pid}-{letter}"
    notes_text = None
    if not os.path.exists(patch) and os.path.exists(f"{kept}/patch.diff"):
        # re-run of a seed that is already kept
        shutil.copy(f"{kept}/patch.diff", f"/tmp/_seed_patch_{pid}{letter}.diff")
        shutil.copy(f"{kept}/demo.rs", f"/tmp/_seed_demo_{pid}{letter}.rs")
        patch, demo = f"/tmp/_seed_patch_{pid}{letter}.diff", f"/tmp/_seed_demo_{pid}{letter}.rs"
        notes_text = json.load(open(f"{kept}/meta.json")).get("what_it_needs", "")
    wt = f"/tmp/confirm_{pid}_{letter}"
    sh(f"git -C /repo worktree remove --force {wt}")
    rc, out = sh(f"git -C /repo worktree add --detach {wt} HEAD")
    meta = {"property": pid, "seed": letter, "source": "independent sub-agent given only the property text and a scratch worktree"}
    try:
        tgt = f"CARGO_TARGET_DIR={wt}/target"
        shutil.copy(demo, f"{wt}/tests/seed_demo.rs")
        rc0, out0 = sh(f"{tgt} cargo test --offline --features serde,regex --test seed_demo", cwd=wt)
        meta["demo_without_change"] = "pass" if rc0 == 0 else "FAIL"
        rc, out = sh(f"git apply {patch}", cwd=wt)
        if rc != 0:
            print("patch does not apply:", out); return 1
        rc1, out1 = sh(f"{tgt} cargo test --offline --features serde,regex --test seed_demo", cwd=wt)
        meta["demo_with_change"] = "fail" if rc1 != 0 else "PASS"
        os.unlink(f"{wt}/tests/seed_demo.rs")
        rc2, out2 = sh(f"{tgt} cargo test --offline", cwd=wt)
        meta["suite_with_change"] = "pass" if rc2 == 0 else "FAIL"
        results = re.findall(r"test result: (\w+)\. (\d+) passed; (\d+) failed", out2)
        meta["suite_counts"] = results
    finally:
        sh(f"git -C /repo worktree remove --force {wt}")
    confirmed = meta["demo_without_change"] == "pass" and meta["demo_with_change"] == "fail" and meta["suite_with_change"] == "pass"
    meta["confirmed"] = confirmed
    print(json.dumps({k: meta[k] for k in ("demo_without_change", "demo_with_change", "suite_with_change", "confirmed")}))
    if not confirmed:
        print("NOT CONFIRMED — not kept"); return 1
    if confirm_only:
        # phase 1 only (parallelisable: touches nothing but its own scratch worktree); seedmatrix.py runs the checks
        meta["what_it_needs"] = notes_text if notes_text is not None else (open(f"{seed}/notes.md").read()[:6000] if os.path.exists(f"{seed}/notes.md") else "")
        meta["ran"] = ["cargo test --offline --features serde,regex --test seed_demo (without / with the change)", "cargo test --offline (with the change)",
                       "seedmatrix.py: git -C /repo apply patch.diff; ./check <id> quick; git -C /repo checkout -- ."]
        dst = f"/verif/seeded/{pid}-{letter}"
        os.makedirs(dst, exist_ok=True)
        shutil.copy(patch, f"{dst}/patch.diff")
        shutil.copy(demo, f"{dst}/demo.rs")
        json.dump(meta, open(f"{dst}/meta.json", "w"), indent=1, ensure_ascii=False)
        return 0
    # run the checks against the change applied to /repo itself, then undo
    checks = {}
    rc, out = sh(f"git -C /repo apply {patch}")
    try:
        for prop in [pid] + extra:
            rc, out = sh(f"./check {prop} quick", cwd="/verif")
            tier = "quick"
            if rc == 0:
                rc, out = sh(f"./check {prop} thorough", cwd="/verif", timeout=7200)
                tier = "thorough"
            viol = [l for l in out.splitlines() if l.startswith("VIOLATION") or l.startswith("BROKEN")]
            checks[prop] = {"tier": tier, "exit": rc, "lines": viol[:6]}
            replay = re.search(r"replay=(\S+)", out)
            if replay and os.path.exists(replay.group(1)):
                r = json.load(open(replay.group(1)))
                checks[prop]["replay"] = {k: r.get(k) for k in ("kind", "input", "detail", "no_longer_checks") if k in r}
                if isinstance(checks[prop]["replay"].get("no_longer_checks"), list):
                    checks[prop]["replay"]["no_longer_checks"] = [x[:300] for x in checks[prop]["replay"]["no_longer_checks"][:6]]
            print(prop, tier, "exit", rc, "|", " || ".join(v[:200] for v in viol[:2]))
    finally:
        sh("git -C /repo checkout -- .")
        sh("rm -rf /verif/replays")
    meta["checks"] = checks
    meta["what_it_needs"] = notes_text if notes_text is not None else (open(f"{seed}/notes.md").read()[:6000] if os.path.exists(f"{seed}/notes.md") else "")
    meta["ran"] = [f"cargo test --offline --features serde,regex --test seed_demo (without / with the change)", "cargo test --offline (with the change)",
                   f"git -C /repo apply patch.diff; ./check {pid} quick[/thorough]; git -C /repo checkout -- ."]
    dst = f"/verif/seeded/{pid}-{letter}"
    os.makedirs(dst, exist_ok=True)
    shutil.copy(patch, f"{dst}/patch.diff")
    shutil.copy(demo, f"{dst}/demo.rs")
    json.dump(meta, open(f"{dst}/meta.json", "w"), indent=1, ensure_ascii=False)
    # restore clean evidence for the checked properties
    for prop in [pid] + extra:
        sh(f"./check {prop} quick", cwd="/verif")
    return 0

if __name__ == "__main__":
    sys.exit(main())
