//! Runs cases against the real crate (in-process) and the Lean driver (subprocess), in parallel.
use crate::server::Session;
use std::io::{BufRead, BufReader, Write};
use std::process::{Command, Stdio};

#[derive(Clone, Debug)]
pub struct Case {
    /// commands for the in-process implementation server
    pub impl_lines: Vec<String>,
    /// commands for the Lean driver (model and spec queries)
    pub drv_lines: Vec<String>,
    /// human-readable description of the input (goes into replays and samples)
    pub human: String,
    /// generator bucket, for the distribution report
    pub bucket: String,
}

#[derive(Clone, Debug)]
pub struct Outcome {
    pub impl_resp: Vec<String>,
    pub drv_resp: Vec<String>,
}

pub fn driver_path() -> String {
    std::env::var("VERIF_DRIVER").unwrap_or_else(|_| "/verif/lean/.lake/build/bin/driver".to_string())
}

pub fn run_driver(lines: &[String]) -> Result<Vec<String>, String> {
    let mut child = Command::new(driver_path())
        .stdin(Stdio::piped())
        .stdout(Stdio::piped())
        .stderr(Stdio::null())
        .spawn()
        .map_err(|e| format!("cannot start driver: {}", e))?;
    let mut stdin = child.stdin.take().unwrap();
    let payload: String = lines.iter().map(|l| format!("{}\n", l)).collect();
    let writer = std::thread::spawn(move || {
        let _ = stdin.write_all(payload.as_bytes());
    });
    let out = BufReader::new(child.stdout.take().unwrap());
    let resp: Vec<String> = out.lines().map(|l| l.unwrap_or_default()).collect();
    let _ = writer.join();
    let _ = child.wait();
    if resp.len() != lines.len() {
        return Err(format!("driver answered {} of {} lines", resp.len(), lines.len()));
    }
    Ok(resp)
}

/// Run all cases; returns one Outcome per case.
pub fn run_cases(cases: &[Case], threads: usize) -> Result<Vec<Outcome>, String> {
    if cases.is_empty() {
        return Ok(vec![]);
    }
    let chunk = ((cases.len() + threads - 1) / threads).max(1);
    let mut handles = Vec::new();
    for part in cases.chunks(chunk) {
        let part: Vec<Case> = part.to_vec();
        let h = std::thread::Builder::new()
            .stack_size(256 << 20)
            .spawn(move || -> Result<Vec<Outcome>, String> {
                // driver side first (subprocess), then impl side
                let all: Vec<String> = part.iter().flat_map(|c| c.drv_lines.iter().cloned()).collect();
                let drv = run_driver(&all)?;
                let mut outs = Vec::with_capacity(part.len());
                let mut k = 0;
                for c in &part {
                    let mut sess = Session::new();
                    let impl_resp: Vec<String> = c.impl_lines.iter().map(|l| sess.handle(l)).collect();
                    let drv_resp = drv[k..k + c.drv_lines.len()].to_vec();
                    k += c.drv_lines.len();
                    outs.push(Outcome { impl_resp, drv_resp });
                }
                Ok(outs)
            })
            .map_err(|e| e.to_string())?;
        handles.push(h);
    }
    let mut all = Vec::with_capacity(cases.len());
    for h in handles {
        let r = h.join().map_err(|_| "worker thread died".to_string())??;
        all.extend(r);
    }
    Ok(all)
}

/// Ask the driver a batch of generator / oracle questions, in parallel chunks.
pub fn ask_driver(lines: &[String], threads: usize) -> Result<Vec<String>, String> {
    if lines.is_empty() {
        return Ok(vec![]);
    }
    let chunk = ((lines.len() + threads - 1) / threads).max(1);
    let mut handles = Vec::new();
    for part in lines.chunks(chunk) {
        let part: Vec<String> = part.to_vec();
        handles.push(std::thread::spawn(move || run_driver(&part)));
    }
    let mut all = Vec::with_capacity(lines.len());
    for h in handles {
        all.extend(h.join().map_err(|_| "driver thread died".to_string())??);
    }
    Ok(all)
}
