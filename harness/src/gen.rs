//! One PRNG (xoshiro256**), seeded from VERIF_SEED, and shared value pools.
use evalexpr::Value;

pub struct Rng {
    s: [u64; 4],
}

impl Rng {
    pub fn new(seed: u64) -> Self {
        // splitmix64 to expand the seed
        let mut z = seed.wrapping_add(0x9E3779B97F4A7C15);
        let mut s = [0u64; 4];
        for x in s.iter_mut() {
            z = z.wrapping_add(0x9E3779B97F4A7C15);
            let mut y = z;
            y = (y ^ (y >> 30)).wrapping_mul(0xBF58476D1CE4E5B9);
            y = (y ^ (y >> 27)).wrapping_mul(0x94D049BB133111EB);
            *x = y ^ (y >> 31);
        }
        Rng { s }
    }
    pub fn next(&mut self) -> u64 {
        let r = self.s[1].wrapping_mul(5).rotate_left(7).wrapping_mul(9);
        let t = self.s[1] << 17;
        self.s[2] ^= self.s[0];
        self.s[3] ^= self.s[1];
        self.s[1] ^= self.s[2];
        self.s[0] ^= self.s[3];
        self.s[2] ^= t;
        self.s[3] = self.s[3].rotate_left(45);
        r
    }
    pub fn below(&mut self, n: usize) -> usize {
        (self.next() % (n as u64)) as usize
    }
    pub fn chance(&mut self, num: u64, den: u64) -> bool {
        self.next() % den < num
    }
    pub fn pick<'a, T>(&mut self, xs: &'a [T]) -> &'a T {
        &xs[self.below(xs.len())]
    }
}

pub fn int_pool() -> Vec<i64> {
    let mut v = vec![
        i64::MIN, i64::MIN + 1, -(1 << 53) - 1, -(1 << 53), -(1 << 53) + 1, -(1 << 32), -65, -64, -63, -3, -2, -1, 0, 1, 2, 3, 7,
        63, 64, 65, 1 << 31, 1 << 32, (1 << 53) - 1, 1 << 53, (1 << 53) + 1, 1 << 62, i64::MAX - 1, i64::MAX,
        3037000499, 3037000500, -3037000500, 4611686018427387904, -4611686018427387904,
    ];
    v.dedup();
    v
}

pub fn float_pool() -> Vec<f64> {
    let mut v = vec![
        0.0, -0.0, f64::from_bits(1), -f64::from_bits(1), f64::MIN_POSITIVE, -f64::MIN_POSITIVE,
        1.0, -1.0, f64::from_bits(1.0f64.to_bits() + 1), f64::from_bits(1.0f64.to_bits() - 1),
        0.5, 1.5, 2.5, -2.5, 3.0, 0.1, 9007199254740992.0, 9007199254740994.0, 9223372036854775808.0,
        -9223372036854775808.0, 9223372036854777856.0, 1e19, 2e19, -1e19, -2e19, f64::MAX, f64::MIN,
        f64::INFINITY, f64::NEG_INFINITY, f64::NAN, 1e300, 1e-300, 64.0, 63.0, 2.0,
    ];
    v.dedup_by(|a, b| a.to_bits() == b.to_bits());
    v
}

pub fn string_pool() -> Vec<&'static str> {
    vec!["", "a", "ab", "b", "A b", " a ", "ä", "äb", "ß", "😀", "\"", "\\", "//", "/*", "a\n", "Zz", "1"]
}

/// the edge-value pool `V` of DESIGN.md
pub fn value_pool() -> Vec<Value> {
    let mut v: Vec<Value> = Vec::new();
    v.extend(int_pool().into_iter().map(Value::Int));
    v.extend(float_pool().into_iter().map(Value::Float));
    v.extend(string_pool().into_iter().map(|s| Value::String(s.to_string())));
    v.push(Value::Boolean(true));
    v.push(Value::Boolean(false));
    v.push(Value::Empty);
    v.push(Value::Tuple(vec![]));
    v.push(Value::Tuple(vec![Value::Int(1)]));
    v.push(Value::Tuple(vec![Value::Int(1), Value::Float(2.0)]));
    v.push(Value::Tuple(vec![Value::Int(1), Value::Tuple(vec![Value::String("a".into()), Value::Empty])]));
    v.push(Value::Tuple(vec![Value::Boolean(true), Value::String("a".into()), Value::Int(1)]));
    v
}

/// a smaller pool with one or two representatives per type and edge
pub fn small_pool() -> Vec<Value> {
    vec![
        Value::Int(i64::MIN), Value::Int(-1), Value::Int(0), Value::Int(1), Value::Int(2), Value::Int(63), Value::Int(64), Value::Int(i64::MAX),
        Value::Float(0.0), Value::Float(-0.0), Value::Float(1.5), Value::Float(-2.5), Value::Float(f64::INFINITY), Value::Float(f64::NAN), Value::Float(1e19),
        Value::String("".into()), Value::String("a".into()), Value::String("äb".into()), Value::String(" A ".into()),
        Value::Boolean(true), Value::Boolean(false), Value::Empty,
        Value::Tuple(vec![]), Value::Tuple(vec![Value::Int(1), Value::Float(2.0)]), Value::Tuple(vec![Value::String("a".into()), Value::Int(1), Value::Boolean(true)]),
    ]
}

pub fn random_value(rng: &mut Rng, depth: usize) -> Value {
    match rng.below(if depth == 0 { 6 } else { 7 }) {
        0 => Value::Int(rng.next() as i64),
        1 => Value::Int((rng.next() % 200) as i64 - 100),
        2 => Value::Float(f64::from_bits(rng.next())),
        3 => Value::Float(((rng.next() % 2000) as f64 - 1000.0) / 8.0),
        4 => Value::String(rng.pick(&string_pool()).to_string()),
        5 => {
            if rng.chance(1, 2) {
                Value::Boolean(rng.chance(1, 2))
            } else {
                Value::Empty
            }
        },
        _ => {
            let n = rng.below(4);
            Value::Tuple((0..n).map(|_| random_value(rng, depth - 1)).collect())
        },
    }
}
