//! The line protocol of lean/Driver.lean, implemented over the real evalexpr crate, in-process.
use crate::codec::*;
use evalexpr::*;
use std::collections::HashMap;
use std::panic::{catch_unwind, AssertUnwindSafe};
use std::sync::{Arc, Mutex};

pub type Log = Arc<Mutex<Vec<(String, Value)>>>;

/// A context that reads like a HashMapContext but keeps the trait's default `set_value`.
pub struct NoStorage(pub HashMapContext);

impl Context for NoStorage {
    type NumericTypes = DefaultNumericTypes;
    fn get_value(&self, identifier: &str) -> Option<&Value> {
        self.0.get_value(identifier)
    }
    fn call_function(&self, identifier: &str, argument: &Value) -> EvalexprResult<Value> {
        self.0.call_function(identifier, argument)
    }
    fn are_builtin_functions_disabled(&self) -> bool {
        self.0.are_builtin_functions_disabled()
    }
    fn set_builtin_functions_disabled(&mut self, disabled: bool) -> EvalexprResult<()> {
        self.0.set_builtin_functions_disabled(disabled)
    }
}
impl ContextWithMutableVariables for NoStorage {}
impl ContextWithMutableFunctions for NoStorage {}

pub enum Slot {
    Hm(HashMapContext),
    Empty(EmptyContext<DefaultNumericTypes>),
    EmptyB(EmptyContextWithBuiltinFunctions<DefaultNumericTypes>),
    NoStorage(NoStorage),
}

pub struct Session {
    pub slots: HashMap<usize, Slot>,
    pub log: Log,
}

fn user_fn(spec: &str, name: String, log: Log) -> Option<Function<DefaultNumericTypes>> {
    let inner: Box<dyn Fn(&Value) -> EvalexprResult<Value> + Send + Sync> = if spec == "id" {
        Box::new(|v: &Value| Ok(v.clone()))
    } else if let Some(r) = spec.strip_prefix('k') {
        let k = dec_value(r)?;
        Box::new(move |_v: &Value| Ok(k.clone()))
    } else if spec == "notfound" {
        Box::new(|_v: &Value| Err(EvalexprError::FunctionIdentifierNotFound("zz".into())))
    } else if spec == "fail" {
        Box::new(|_v: &Value| Err(EvalexprError::CustomMessage("boom".into())))
    } else if spec == "inc" {
        Box::new(|v: &Value| {
            let i = v.as_int()?;
            match i.checked_add(1) {
                Some(r) => Ok(Value::Int(r)),
                None => Err(EvalexprError::AdditionError {
                    augend: Value::Int(i),
                    addend: Value::Int(1),
                }),
            }
        })
    } else {
        return None;
    };
    let inner = Arc::new(inner);
    Some(Function::new(move |v: &Value| {
        log.lock().unwrap().push((name.clone(), v.clone()));
        inner(v)
    }))
}

fn enc_unit(r: &EvalexprResult<()>) -> String {
    enc_res(r, |_| "()".to_string())
}

fn project(kind: &str, r: EvalexprResult<Value>) -> EvalexprResult<Value> {
    r // only used for documentation; typed entry points are called for real below
        .map(|v| {
            let _ = kind;
            v
        })
}

macro_rules! typed_calls {
    ($kind:expr, $untyped:expr, $string:expr, $int:expr, $float:expr, $number:expr, $boolean:expr, $tuple:expr, $empty:expr) => {
        match $kind {
            "value" => $untyped,
            "string" => $string.map(Value::String),
            "int" => $int.map(Value::Int),
            "float" => $float.map(Value::Float),
            "number" => $number.map(Value::Float),
            "boolean" => $boolean.map(Value::Boolean),
            "tuple" => $tuple.map(Value::Tuple),
            "empty" => $empty.map(|()| Value::Empty),
            _ => Err(EvalexprError::CustomMessage("bad kind".into())),
        }
    };
}

fn eval_string_ro<C: Context<NumericTypes = DefaultNumericTypes>>(kind: &str, src: &str, c: &C) -> EvalexprResult<Value> {
    typed_calls!(
        kind,
        eval_with_context(src, c),
        eval_string_with_context(src, c),
        eval_int_with_context(src, c),
        eval_float_with_context(src, c),
        eval_number_with_context(src, c),
        eval_boolean_with_context(src, c),
        eval_tuple_with_context(src, c),
        eval_empty_with_context(src, c)
    )
}

fn eval_string_mut<C: ContextWithMutableVariables<NumericTypes = DefaultNumericTypes>>(kind: &str, src: &str, c: &mut C) -> EvalexprResult<Value> {
    typed_calls!(
        kind,
        eval_with_context_mut(src, c),
        eval_string_with_context_mut(src, c),
        eval_int_with_context_mut(src, c),
        eval_float_with_context_mut(src, c),
        eval_number_with_context_mut(src, c),
        eval_boolean_with_context_mut(src, c),
        eval_tuple_with_context_mut(src, c),
        eval_empty_with_context_mut(src, c)
    )
}

fn eval_string_fresh(kind: &str, src: &str) -> EvalexprResult<Value> {
    typed_calls!(
        kind,
        eval(src),
        eval_string(src),
        eval_int(src),
        eval_float(src),
        eval_number(src),
        eval_boolean(src),
        eval_tuple(src),
        eval_empty(src)
    )
}

fn eval_tree_ro<C: Context<NumericTypes = DefaultNumericTypes>>(kind: &str, n: &Node, c: &C) -> EvalexprResult<Value> {
    typed_calls!(
        kind,
        n.eval_with_context(c),
        n.eval_string_with_context(c),
        n.eval_int_with_context(c),
        n.eval_float_with_context(c),
        n.eval_number_with_context(c),
        n.eval_boolean_with_context(c),
        n.eval_tuple_with_context(c),
        n.eval_empty_with_context(c)
    )
}

fn eval_tree_mut<C: ContextWithMutableVariables + Context<NumericTypes = DefaultNumericTypes>>(kind: &str, n: &Node, c: &mut C) -> EvalexprResult<Value> {
    typed_calls!(
        kind,
        n.eval_with_context_mut(c),
        n.eval_string_with_context_mut(c),
        n.eval_int_with_context_mut(c),
        n.eval_float_with_context_mut(c),
        n.eval_number_with_context_mut(c),
        n.eval_boolean_with_context_mut(c),
        n.eval_tuple_with_context_mut(c),
        n.eval_empty_with_context_mut(c)
    )
}

fn eval_tree_fresh(kind: &str, n: &Node) -> EvalexprResult<Value> {
    typed_calls!(
        kind,
        n.eval(),
        n.eval_string(),
        n.eval_int(),
        n.eval_float(),
        n.eval_number(),
        n.eval_boolean(),
        n.eval_tuple(),
        n.eval_empty()
    )
}

const ITER_KINDS: [&str; 5] = ["identifiers", "variable", "read", "write", "function"];

fn iter_ro(n: &Node, k: &str) -> Vec<String> {
    match k {
        "identifiers" => n.iter_identifiers().map(|s| s.to_string()).collect(),
        "variable" => n.iter_variable_identifiers().map(|s| s.to_string()).collect(),
        "read" => n.iter_read_variable_identifiers().map(|s| s.to_string()).collect(),
        "write" => n.iter_write_variable_identifiers().map(|s| s.to_string()).collect(),
        _ => n.iter_function_identifiers().map(|s| s.to_string()).collect(),
    }
}

fn iter_mut_apply(n: &mut Node, k: &str, f: &mut dyn FnMut(&mut String)) {
    match k {
        "identifiers" => n.iter_identifiers_mut().for_each(f),
        "variable" => n.iter_variable_identifiers_mut().for_each(f),
        "read" => n.iter_read_variable_identifiers_mut().for_each(f),
        "write" => n.iter_write_variable_identifiers_mut().for_each(f),
        _ => n.iter_function_identifiers_mut().for_each(f),
    }
}

impl Session {
    pub fn new() -> Self {
        Session { slots: HashMap::new(), log: Arc::new(Mutex::new(Vec::new())) }
    }

    pub fn handle(&mut self, line: &str) -> String {
        match catch_unwind(AssertUnwindSafe(|| self.handle_inner(line))) {
            Ok(s) => s,
            Err(p) => {
                let msg = if let Some(s) = p.downcast_ref::<&str>() {
                    s.to_string()
                } else if let Some(s) = p.downcast_ref::<String>() {
                    s.clone()
                } else {
                    "?".into()
                };
                format!("err PANIC[{}]", msg)
            },
        }
    }

    fn handle_inner(&mut self, line: &str) -> String {
        let parts: Vec<&str> = line.trim().split(' ').collect();
        match parts.as_slice() {
            ["tok", src] => {
                let r = verif_tokenize(&unx(src));
                enc_res(&r, |ts| ts.iter().map(|t| enc_hook_token(t)).collect::<Vec<_>>().join(" "))
            },
            ["tree", src] => enc_res(&build_operator_tree::<DefaultNumericTypes>(&unx(src)), enc_node),
            ["new", slot, kind] => {
                let s = match *kind {
                    "hm" => Slot::Hm(HashMapContext::new()),
                    "empty" => Slot::Empty(EmptyContext::default()),
                    "emptyb" => Slot::EmptyB(EmptyContextWithBuiltinFunctions::default()),
                    "nostorage" => Slot::NoStorage(NoStorage(HashMapContext::new())),
                    _ => return "bad-op".into(),
                };
                self.slots.insert(slot.parse().unwrap(), s);
                "ok".into()
            },
            ["setv", slot, name, value] => {
                let v = match dec_value(value) {
                    Some(v) => v,
                    None => return "bad-op".into(),
                };
                match self.slots.get_mut(&slot.parse().unwrap()) {
                    Some(Slot::Hm(c)) => enc_unit(&c.set_value(unx(name), v)),
                    Some(Slot::NoStorage(c)) => enc_unit(&c.set_value(unx(name), v)),
                    Some(_) => "err ContextNotMutable[]".into(),
                    None => "bad-op".into(),
                }
            },
            ["presetv", slot, name, value] => {
                let v = match dec_value(value) {
                    Some(v) => v,
                    None => return "bad-op".into(),
                };
                match self.slots.get_mut(&slot.parse().unwrap()) {
                    Some(Slot::NoStorage(c)) => {
                        // rebuild: the inner context is type safe, so clear the binding first
                        let mut fresh = HashMapContext::new();
                        for (k, val) in c.0.iter_variables() {
                            if k != unx(name) {
                                fresh.set_value(k, val).unwrap();
                            }
                        }
                        let _ = fresh.set_builtin_functions_disabled(c.0.are_builtin_functions_disabled());
                        // functions cannot be enumerated; presetv is only used before setf
                        fresh.set_value(unx(name), v).unwrap();
                        c.0 = fresh;
                        "ok ()".into()
                    },
                    _ => "bad-op".into(),
                }
            },
            ["setf", slot, name, spec] => {
                let f = match user_fn(spec, unx(name), self.log.clone()) {
                    Some(f) => f,
                    None => return "bad-op".into(),
                };
                match self.slots.get_mut(&slot.parse().unwrap()) {
                    Some(Slot::Hm(c)) => enc_unit(&c.set_function(unx(name), f)),
                    Some(Slot::NoStorage(c)) => enc_unit(&c.set_function(unx(name), f)),
                    Some(_) => "err ContextNotMutable[]".into(),
                    None => "bad-op".into(),
                }
            },
            ["setb", slot, flag] => {
                let d = *flag == "1";
                match self.slots.get_mut(&slot.parse().unwrap()) {
                    Some(Slot::Hm(c)) => enc_unit(&c.set_builtin_functions_disabled(d)),
                    Some(Slot::NoStorage(c)) => enc_unit(&c.set_builtin_functions_disabled(d)),
                    Some(Slot::Empty(c)) => enc_unit(&c.set_builtin_functions_disabled(d)),
                    Some(Slot::EmptyB(c)) => enc_unit(&c.set_builtin_functions_disabled(d)),
                    None => "bad-op".into(),
                }
            },
            ["clearv", slot] => match self.slots.get_mut(&slot.parse().unwrap()) {
                Some(Slot::Hm(c)) => {
                    c.clear_variables();
                    "ok".into()
                },
                _ => "bad-op".into(),
            },
            ["clearf", slot] => match self.slots.get_mut(&slot.parse().unwrap()) {
                Some(Slot::Hm(c)) => {
                    c.clear_functions();
                    "ok".into()
                },
                _ => "bad-op".into(),
            },
            ["clear", slot] => match self.slots.get_mut(&slot.parse().unwrap()) {
                Some(Slot::Hm(c)) => {
                    c.clear();
                    "ok".into()
                },
                _ => "bad-op".into(),
            },
            ["clone", src, dst] => {
                let new = match self.slots.get(&src.parse().unwrap()) {
                    Some(Slot::Hm(c)) => Slot::Hm(c.clone()),
                    Some(Slot::Empty(_)) => Slot::Empty(EmptyContext::default()),
                    Some(Slot::EmptyB(_)) => Slot::EmptyB(EmptyContextWithBuiltinFunctions::default()),
                    Some(Slot::NoStorage(c)) => Slot::NoStorage(NoStorage(c.0.clone())),
                    None => return "bad-op".into(),
                };
                self.slots.insert(dst.parse().unwrap(), new);
                "ok".into()
            },
            ["clonefrom", src, dst] => {
                // `dst.clone_from(&src)`: the allocation-reusing form must leave what `dst = src.clone()` leaves
                let (si, di): (usize, usize) = (src.parse().unwrap(), dst.parse().unwrap());
                let source = match self.slots.get(&si) {
                    Some(Slot::Hm(c)) => c.clone(),
                    _ => return "bad-op".into(),
                };
                match self.slots.get_mut(&di) {
                    Some(Slot::Hm(d)) => {
                        d.clone_from(&source);
                        "ok".into()
                    },
                    _ => "bad-op".into(),
                }
            },
            ["dump", slot] => {
                fn dump<C: IterateVariablesContext<NumericTypes = DefaultNumericTypes>>(c: &C) -> String {
                    let mut vars: Vec<String> = c
                        .iter_variables()
                        .map(|(k, v)| format!("{}={}", hex(k.as_bytes()), enc_value(&v)))
                        .collect();
                    vars.sort();
                    let mut names: Vec<String> = c.iter_variable_names().map(|k| hex(k.as_bytes())).collect();
                    names.sort();
                    format!(
                        "vars={} names={} nb={}",
                        vars.join(","),
                        names.join(","),
                        if c.are_builtin_functions_disabled() { 1 } else { 0 }
                    )
                }
                match self.slots.get(&slot.parse().unwrap()) {
                    Some(Slot::Hm(c)) => dump(c),
                    Some(Slot::Empty(c)) => dump(c),
                    Some(Slot::EmptyB(c)) => dump(c),
                    Some(Slot::NoStorage(c)) => dump(&c.0),
                    None => "bad-op".into(),
                }
            },
            ["getv", slot, name] => {
                let n = unx(name);
                let r = match self.slots.get(&slot.parse().unwrap()) {
                    Some(Slot::Hm(c)) => c.get_value(&n).cloned(),
                    Some(Slot::Empty(c)) => c.get_value(&n).cloned(),
                    Some(Slot::EmptyB(c)) => c.get_value(&n).cloned(),
                    Some(Slot::NoStorage(c)) => c.get_value(&n).cloned(),
                    None => return "bad-op".into(),
                };
                match r {
                    Some(v) => format!("some {}", enc_value(&v)),
                    None => "none".into(),
                }
            },
            ["callf", slot, name, value] => {
                let n = unx(name);
                let v = match dec_value(value) {
                    Some(v) => v,
                    None => return "bad-op".into(),
                };
                let r = match self.slots.get(&slot.parse().unwrap()) {
                    Some(Slot::Hm(c)) => c.call_function(&n, &v),
                    Some(Slot::Empty(c)) => c.call_function(&n, &v),
                    Some(Slot::EmptyB(c)) => c.call_function(&n, &v),
                    Some(Slot::NoStorage(c)) => c.call_function(&n, &v),
                    None => return "bad-op".into(),
                };
                self.log.lock().unwrap().clear();
                enc_res(&r, enc_value)
            },
            ["eval", slot, mode, level, kind, src] => {
                let src = unx(src);
                self.log.lock().unwrap().clear();
                let slot = match self.slots.get_mut(&slot.parse().unwrap()) {
                    Some(s) => s,
                    None => return "bad-op".into(),
                };
                let r: EvalexprResult<Value> = if *level == "s" {
                    match (*mode, slot) {
                        ("fresh", _) => eval_string_fresh(kind, &src),
                        ("ro", Slot::Hm(c)) => eval_string_ro(kind, &src, c),
                        ("ro", Slot::Empty(c)) => eval_string_ro(kind, &src, c),
                        ("ro", Slot::EmptyB(c)) => eval_string_ro(kind, &src, c),
                        ("ro", Slot::NoStorage(c)) => eval_string_ro(kind, &src, c),
                        ("mut", Slot::Hm(c)) => eval_string_mut(kind, &src, c),
                        ("mut", Slot::NoStorage(c)) => eval_string_mut(kind, &src, c),
                        _ => return "bad-op".into(),
                    }
                } else {
                    match build_operator_tree::<DefaultNumericTypes>(&src) {
                        Err(e) => Err(e),
                        Ok(n) => match (*mode, slot) {
                            ("fresh", _) => eval_tree_fresh(kind, &n),
                            ("ro", Slot::Hm(c)) => eval_tree_ro(kind, &n, c),
                            ("ro", Slot::Empty(c)) => eval_tree_ro(kind, &n, c),
                            ("ro", Slot::EmptyB(c)) => eval_tree_ro(kind, &n, c),
                            ("ro", Slot::NoStorage(c)) => eval_tree_ro(kind, &n, c),
                            ("mut", Slot::Hm(c)) => eval_tree_mut(kind, &n, c),
                            ("mut", Slot::NoStorage(c)) => eval_tree_mut(kind, &n, c),
                            _ => return "bad-op".into(),
                        },
                    }
                };
                let r = project(kind, r);
                let log: Vec<String> = self
                    .log
                    .lock()
                    .unwrap()
                    .iter()
                    .map(|(n, v)| format!("{}:{}", hex(n.as_bytes()), enc_value(v)))
                    .collect();
                // exercise Display/Debug of the outcome (C01: formatting returns normally)
                let _ = format!("{:?}", r);
                match &r {
                    Ok(v) => {
                        let _ = format!("{}", v);
                    },
                    Err(e) => {
                        let _ = format!("{}", e);
                    },
                }
                format!("{} ; {}", enc_res(&r, enc_value), log.join(","))
            },
            ["iter", src] => match build_operator_tree::<DefaultNumericTypes>(&unx(src)) {
                Err(e) => format!("err {}", enc_err(&e)),
                Ok(n) => {
                    let mut parts = Vec::new();
                    for k in ITER_KINDS {
                        let ro: Vec<String> = iter_ro(&n, k).iter().map(|s| hex(s.as_bytes())).collect();
                        let mut m = n.clone();
                        let mut seen = Vec::new();
                        iter_mut_apply(&mut m, k, &mut |s: &mut String| seen.push(hex(s.as_bytes())));
                        parts.push(format!("{}/{}", ro.join(","), seen.join(",")));
                    }
                    // internal iteration after a partial external one: next(), then for_each over the rest; skip(1).last()
                    let mut it = n.iter_identifiers();
                    let first = it.next().map(|s| hex(s.as_bytes())).unwrap_or_default();
                    let mut rest = Vec::new();
                    it.for_each(|s| rest.push(hex(s.as_bytes())));
                    let last = n.iter_variable_identifiers().skip(1).last().map(|s| hex(s.as_bytes())).unwrap_or_default();
                    let mut it2 = n.iter_read_variable_identifiers();
                    let _ = it2.next();
                    let _ = it2.next();
                    let folded: Vec<String> = it2.fold(Vec::new(), |mut acc, s| {
                        acc.push(hex(s.as_bytes()));
                        acc
                    });
                    parts.push(format!("{};{};{};{}", first, rest.join(","), last, folded.join(",")));
                    // exercise Display/Debug of the tree (C01)
                    let _ = format!("{:?}", n);
                    let _ = format!("{}", n);
                    format!("ok {}", parts.join(" "))
                },
            },
            ["rename", kind, suffix, src] => {
                if !ITER_KINDS.contains(kind) {
                    return "bad-op".into();
                }
                let suffix = unx(suffix);
                match build_operator_tree::<DefaultNumericTypes>(&unx(src)) {
                    Err(e) => format!("err {}", enc_err(&e)),
                    Ok(mut n) => {
                        iter_mut_apply(&mut n, kind, &mut |s: &mut String| s.push_str(&suffix));
                        format!("ok {}", enc_node(&n))
                    },
                }
            },
            ["evalrename", slot, suffix, src] => {
                let suffix = unx(suffix);
                self.log.lock().unwrap().clear();
                let mut n = match build_operator_tree::<DefaultNumericTypes>(&unx(src)) {
                    Ok(n) => n,
                    Err(e) => return format!("err {} ; ", enc_err(&e)),
                };
                n.iter_variable_identifiers_mut().for_each(|s| s.push_str(&suffix));
                let r = match self.slots.get_mut(&slot.parse().unwrap()) {
                    Some(Slot::Hm(c)) => n.eval_with_context_mut(c),
                    _ => return "bad-op".into(),
                };
                let log: Vec<String> = self.log.lock().unwrap().iter().map(|(n, v)| format!("{}:{}", hex(n.as_bytes()), enc_value(v))).collect();
                format!("{} ; {}", enc_res(&r, enc_value), log.join(","))
            },
            ["f64parse", w] => match unx(w).parse::<f64>() {
                Ok(f) => {
                    if f.is_nan() {
                        "nan".into()
                    } else {
                        format!("{:016x}", f.to_bits())
                    }
                },
                Err(_) => "none".into(),
            },
            ["f64display", bits] => {
                let f = f64::from_bits(u64::from_str_radix(bits, 16).unwrap());
                hex(format!("{}", f).as_bytes())
            },
            ["i2f", i] => enc_float(i.parse::<i64>().unwrap() as f64),
            _ => "bad-op".into(),
        }
    }
}
