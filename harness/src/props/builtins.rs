//! C10 — builtin functions compute what the documentation says.
use super::*;
use crate::codec::*;
use crate::gen::*;
use evalexpr::Value;

pub struct C10;

pub const BUILTINS: [&str; 49] = [
    "math::ln", "math::log", "math::log2", "math::log10", "math::exp", "math::exp2", "math::pow", "math::cos", "math::acos",
    "math::cosh", "math::acosh", "math::sin", "math::asin", "math::sinh", "math::asinh", "math::tan", "math::atan", "math::tanh",
    "math::atanh", "math::atan2", "math::sqrt", "math::cbrt", "math::hypot", "floor", "round", "ceil", "math::is_nan",
    "math::is_finite", "math::is_infinite", "math::is_normal", "math::abs", "typeof", "min", "max", "if", "contains", "contains_any",
    "len", "str::to_lowercase", "str::to_uppercase", "str::trim", "str::from", "str::substring", "bitand", "bitor", "bitxor", "bitnot",
    "shl", "shr",
];

pub fn builtin_case(name: &str, arg: &Value, bucket: &str) -> Case {
    let lines = vec![
        "new 0 hm".to_string(),
        format!("setv 0 {} {}", xarg("x"), enc_value(arg)),
        format!("eval 0 ro s value {}", xarg(&format!("{}(x)", name))),
    ];
    let mut drv = lines.clone();
    drv.push(format!("spec.builtin {} {}", xarg(name), enc_value(arg)));
    Case { impl_lines: lines, drv_lines: drv, human: format!("{}(x) with x = {:?}", name, arg), bucket: format!("{}:{}", bucket, name) }
}

/// the argument families aimed at each builtin's own edge (shift amounts, byte / char indices, orderings, membership)
pub fn targeted_cases() -> Vec<Case> {
    let mut cases = Vec::new();
        // shifts by every amount -70..70 on edge integers; substring over every index pair of multi-byte strings
        for a in [1i64, -1, i64::MIN, i64::MAX, 0x0123_4567_89ab_cdef, -2] {
            for k in -70i64..=70 {
                cases.push(builtin_case("shl", &Value::Tuple(vec![Value::Int(a), Value::Int(k)]), "shift"));
                cases.push(builtin_case("shr", &Value::Tuple(vec![Value::Int(a), Value::Int(k)]), "shift"));
            }
        }
        for s in ["", "abc", "äb", "a😀ß", "ßß"] {
            cases.push(builtin_case("len", &Value::String(s.into()), "substring"));
            for i in -1i64..=8 {
                cases.push(builtin_case("str::substring", &Value::Tuple(vec![Value::String(s.into()), Value::Int(i)]), "substring"));
                for j in -1i64..=8 {
                    cases.push(builtin_case("str::substring", &Value::Tuple(vec![Value::String(s.into()), Value::Int(i), Value::Int(j)]), "substring"));
                }
            }
        }
        for vs in [vec![1e19, 2e19], vec![-1e19, -2e19]] {
            cases.push(builtin_case("min", &Value::Tuple(vs.iter().map(|f| Value::Float(*f)).collect()), "named"));
            cases.push(builtin_case("max", &Value::Tuple(vs.iter().map(|f| Value::Float(*f)).collect()), "named"));
        }
        // min / max over all pairs of the integer and float edge pools (exact integer order above 2^53, mixed promotion)
        let ints = int_pool();
        let floats: Vec<f64> = float_pool().into_iter().filter(|f| !f.is_nan()).collect();
        for name in ["min", "max"] {
            for a in &ints {
                for b in &ints {
                    cases.push(builtin_case(name, &Value::Tuple(vec![Value::Int(*a), Value::Int(*b)]), "minmax-int"));
                }
                for f in &floats {
                    cases.push(builtin_case(name, &Value::Tuple(vec![Value::Int(*a), Value::Float(*f)]), "minmax-mixed"));
                    cases.push(builtin_case(name, &Value::Tuple(vec![Value::Float(*f), Value::Int(*a), Value::Int(1)]), "minmax-mixed"));
                }
            }
            for f in &floats {
                for g in &floats {
                    cases.push(builtin_case(name, &Value::Tuple(vec![Value::Float(*f), Value::Float(*g)]), "minmax-float"));
                }
            }
        }
        // contains / contains_any: haystacks and needle lists with hits, misses and invalid needles in every order
        let hay = vec![Value::Int(1), Value::String("a".into()), Value::Float(2.5), Value::Boolean(true)];
        let needles = [
            Value::Int(1), Value::Int(9), Value::String("a".into()), Value::Float(2.5), Value::Boolean(false), Value::Empty,
            Value::Tuple(vec![Value::Int(1)]), Value::Float(f64::NAN),
        ];
        for a in &needles {
            cases.push(builtin_case("contains", &Value::Tuple(vec![Value::Tuple(hay.clone()), a.clone()]), "contains"));
            for b in &needles {
                cases.push(builtin_case("contains_any", &Value::Tuple(vec![Value::Tuple(hay.clone()), Value::Tuple(vec![a.clone(), b.clone()])]), "contains"));
                for c in &needles {
                    cases.push(builtin_case(
                        "contains_any",
                        &Value::Tuple(vec![Value::Tuple(hay.clone()), Value::Tuple(vec![a.clone(), b.clone(), c.clone()])]),
                        "contains",
                    ));
                }
            }
        }
        cases
}

fn as_f64(v: &Value) -> Option<f64> {
    match v {
        Value::Int(i) => Some(*i as f64),
        Value::Float(f) => Some(*f),
        _ => None,
    }
}

/// the language's own `<=` on numbers (ints exactly, otherwise after promotion to double)
fn num_le(a: &Value, b: &Value) -> bool {
    match (a, b) {
        (Value::Int(x), Value::Int(y)) => x <= y,
        _ => as_f64(a).unwrap() <= as_f64(b).unwrap(),
    }
}

fn same_value_bits(a: &Value, b: &Value) -> bool {
    enc_value(a) == enc_value(b)
}

pub fn meets_builtin(resp: &str, reference: &str) -> bool {
    let r = eval_result(resp);
    if reference == "any" {
        return class_of(r) != "panic";
    }
    if reference == "error" {
        return r.starts_with("err") && class_of(r) != "panic";
    }
    if let Some(v) = reference.strip_prefix("value ") {
        return r == format!("ok {}", v);
    }
    for (prefix, smallest) in [("smallest ", true), ("largest ", false)] {
        if let Some(t) = reference.strip_prefix(prefix) {
            let args = match dec_value(t) {
                Some(Value::Tuple(a)) => a,
                _ => return false,
            };
            let got = match r.strip_prefix("ok ").and_then(dec_value) {
                Some(v) => v,
                None => return false,
            };
            // an argument (same type, same bits up to the sign of zero) that bounds all arguments
            let is_arg = args.iter().any(|a| same_value_bits(a, &got) || (as_f64(a) == as_f64(&got) && std::mem::discriminant(a) == std::mem::discriminant(&got)));
            let bounds = args.iter().all(|a| if smallest { num_le(&got, a) } else { num_le(a, &got) });
            return is_arg && bounds;
        }
    }
    false
}

impl Property for C10 {
    fn id(&self) -> &'static str {
        "C10"
    }
    fn rule(&self) -> String {
        "every builtin name x every pool value as the argument, x ordered pairs of a sub-pool as a 2-tuple, x triples of a smaller pool as a 3-tuple (complete matrix), plus random arguments: \
         the real result must meet Spec.refBuiltin (bit-exact value; an error where the reference says error; an argument that bounds all arguments for min/max; anything but a panic where unclaimed). \
         non-trivial = the reference is a value (not an error / unclaimed); distinct = distinct (name, argument)"
            .into()
    }
    fn cases(&self, tier: Tier, rng: &mut Rng) -> (Vec<Case>, bool) {
        let pool = value_pool();
        let pool2 = small_pool();
        let pool3: Vec<Value> = vec![
            Value::Boolean(true), Value::Boolean(false), Value::Int(0), Value::Int(2), Value::Int(-1), Value::Float(1.5),
            Value::String("äb".into()), Value::String("".into()), Value::Empty, Value::Tuple(vec![Value::Int(1)]),
        ];
        let mut cases = Vec::new();
        for name in BUILTINS {
            for v in &pool {
                cases.push(builtin_case(name, v, "arity1"));
            }
            for a in &pool2 {
                for b in &pool2 {
                    cases.push(builtin_case(name, &Value::Tuple(vec![a.clone(), b.clone()]), "arity2"));
                }
            }
            if tier == Tier::Thorough || matches!(name, "if" | "str::substring" | "min" | "max") {
                for a in &pool3 {
                    for b in &pool3 {
                        for c in &pool3 {
                            cases.push(builtin_case(name, &Value::Tuple(vec![a.clone(), b.clone(), c.clone()]), "arity3"));
                        }
                    }
                }
            }
        }
        cases.extend(targeted_cases());
        cases.push(builtin_case("math::log", &Value::Tuple(vec![Value::Int(8), Value::Int(2)]), "named"));
        cases.push(builtin_case("math::pow", &Value::Tuple(vec![Value::Int(2), Value::Int(10)]), "named"));
        cases.push(builtin_case("math::atan2", &Value::Tuple(vec![Value::Int(1), Value::Int(2)]), "named"));
        let n_rand = if tier == Tier::Quick { 20_000 } else { 1_000_000 };
        for _ in 0..n_rand {
            let name = *rng.pick(&BUILTINS);
            let arg = match rng.below(4) {
                0 => random_value(rng, 1),
                1 => Value::Tuple(vec![random_value(rng, 0), random_value(rng, 0)]),
                2 => Value::Tuple(vec![Value::Float(f64::from_bits(rng.next())), Value::Float(f64::from_bits(rng.next()))]),
                _ => Value::Float(((rng.next() % 4000) as f64 - 2000.0) / 16.0),
            };
            cases.push(builtin_case(name, &arg, "random"));
        }
        (cases, false)
    }
    fn judge(&self, case: &Case, out: &Outcome) -> Verdict {
        for i in 0..2 {
            if out.impl_resp[i] != out.drv_resp[i] {
                return Verdict::ModelMismatch(format!("setup `{}`: impl `{}` model `{}`", case.impl_lines[i], out.impl_resp[i], out.drv_resp[i]));
            }
        }
        let imp = &out.impl_resp[2];
        let model = &out.drv_resp[2];
        let reference = &out.drv_resp[3];
        if !meets_builtin(imp, reference) {
            return Verdict::SpecViolation(format!("gives `{}`, the documentation demands `{}`", eval_result(imp), reference));
        }
        // correspondence slice: values bit-exact (except where unclaimed: only the class), errors by class
        let same = if reference == "any" || reference.starts_with("smallest") || reference.starts_with("largest") {
            class_of(eval_result(imp)) == class_of(eval_result(model))
        } else {
            same_value_or_class(imp, model)
        };
        if !same {
            return Verdict::ModelMismatch(format!("impl `{}` model `{}`", eval_result(imp), eval_result(model)));
        }
        let nontrivial = if reference.starts_with("value") || reference.starts_with("smallest") || reference.starts_with("largest") { Some(case.human.clone()) } else { None };
        Verdict::Pass { nontrivial, class: class_of(eval_result(imp)) }
    }
}
