//! C04, C08, C09, C11, C12, C14 — evaluator- and context-level properties.
use super::*;
use crate::codec::*;
use crate::gen::Rng;
use crate::runner::ask_driver;
use evalexpr::Value;

// ----------------------------------------------------------------------------- programs

/// statements used to build programs with effects, calls and failures
pub const STATEMENTS: [&str; 41] = [
    "a = 2", "a += 3", "b = a * 2", "a = \"s\"", "f(a)", "g(1)", "h(1)", "1/0", "zz", "true + 1", "f(1) + g(2)", "false && f(5)",
    "(a = 4, f(6))", "b", "a", "a *= 2.5", "c = (a, b)", "f(g(7))", "a -= f(1)", "9223372036854775807 + 1", "b = f(8); a = b", "g(f(zz))",
    "zz += 1", "a /= 0", "a += true", "a = a", "true", "42",
    // compound boolean assignments whose left value already decides the result: the right operand is still evaluated and type-checked
    "t ||= f(1)", "u &&= g(\"x\")", "t &&= u", "u ||= f(t)",
    // compound assignments that do not change the value, and assignment operators that are reached but cannot be applied
    "a += 0", "a *= 1", "u ||= false", "t &&= true", "a =", "1 = 2", "(a) += 2",
    // compound assignments whose right-hand side has effects of its own: it is evaluated BEFORE the target is read
    // (an unbound target still lets the effects happen; an assignment to the target inside it is seen by the read)
    "zz += (c = 3; f(1))", "a += (a = 10; f(5))",
];

fn program_setup() -> Vec<String> {
    vec![
        "new 0 hm".to_string(),
        format!("setf 0 {} id", xarg("f")),
        format!("setf 0 {} inc", xarg("g")),
        format!("setf 0 {} fail", xarg("h")),
        format!("setv 0 {} I1", xarg("a")),
        // variables whose names are spelled like literals are legal in a context and must never be read by a literal
        format!("setv 0 {} I5", xarg("true")),
        format!("setv 0 {} I0", xarg("42")),
        format!("setv 0 {} Bt", xarg("t")),
        format!("setv 0 {} Bf", xarg("u")),
    ]
}

/// programs of up to `n` statements from the alphabet, exhaustively, joined by `; `, `, ` or nested as operands
fn small_programs(n: usize, limit: usize) -> Vec<String> {
    let mut out: Vec<String> = STATEMENTS.iter().map(|s| s.to_string()).collect();
    if n >= 2 {
        for a in STATEMENTS {
            for b in STATEMENTS {
                out.push(format!("{}; {}", a, b));
                out.push(format!("{}, {}", a, b));
                out.push(format!("({}) == ({})", a, b));
            }
        }
    }
    if n >= 3 {
        'outer: for a in STATEMENTS {
            for b in STATEMENTS {
                for c in STATEMENTS {
                    out.push(format!("{}; {}; {}", a, b, c));
                    if out.len() >= limit {
                        break 'outer;
                    }
                }
            }
        }
    }
    out
}

pub fn random_program(rng: &mut Rng, depth: usize) -> String {
    if depth == 0 || rng.chance(1, 3) {
        return rng.pick(&STATEMENTS).to_string();
    }
    match rng.below(7) {
        0 => format!("{}; {}", random_program(rng, depth - 1), random_program(rng, depth - 1)),
        1 => format!("({}, {})", random_program(rng, depth - 1), random_program(rng, depth - 1)),
        2 => format!("f({})", random_program(rng, depth - 1)),
        3 => format!("({}) + ({})", random_program(rng, depth - 1), random_program(rng, depth - 1)),
        4 => format!("d = ({})", random_program(rng, depth - 1)),
        5 => format!("({}) && ({})", random_program(rng, depth - 1), random_program(rng, depth - 1)),
        _ => format!("-({})", random_program(rng, depth - 1)),
    }
}

/// programs that (mostly) evaluate successfully: every value type occurs
pub fn pure_program(rng: &mut Rng, depth: usize) -> String {
    const ATOMS: [&str; 16] = [
        "a", "1", "2.5", "f(3)", "g(a)", "math::sqrt(16)", "len(\"äb\")", "a * 2", "\"s\"", "true", "()", "(1, 2)", "typeof(a)", "min(a, 2.5)",
        "str::from(a)", "a == 1",
    ];
    if depth == 0 || rng.chance(1, 3) {
        return rng.pick(&ATOMS).to_string();
    }
    match rng.below(8) {
        0 => format!("({}) + ({})", pure_program(rng, 0), pure_program(rng, 0)),
        1 => format!("({}, {})", pure_program(rng, depth - 1), pure_program(rng, depth - 1)),
        2 => format!("f({})", pure_program(rng, depth - 1)),
        3 => format!("({}) == ({})", pure_program(rng, depth - 1), pure_program(rng, depth - 1)),
        4 => format!("{}; {}", pure_program(rng, depth - 1), pure_program(rng, depth - 1)),
        5 => format!("typeof({})", pure_program(rng, depth - 1)),
        6 => format!("b = ({}); b", pure_program(rng, depth - 1)),
        _ => format!("if(true, {}, {})", pure_program(rng, depth - 1), pure_program(rng, depth - 1)),
    }
}

// ----------------------------------------------------------------------------- C08

pub struct C08;

impl Property for C08 {
    fn id(&self) -> &'static str {
        "C08"
    }
    fn rule(&self) -> String {
        "programs built from assignments, op-assignments, calls of three recording user functions (identity, increment, failing), failing sub-expressions (1/0, unbound variable, type error, overflow) and succeeding ones, \
         nested in chains, tuples, operators and arguments: all programs of up to 3 statements from a 41-statement alphabet plus random deeper ones. The triple (result, final variable listing, ordered call log with arguments) of the real crate must equal \
         that of the reference interpreter (the Lean evaluator proved equal to the big-step relation Spec.Eval). non-trivial = at least one user-function call or assignment took effect; distinct = distinct program"
            .into()
    }
    fn cases(&self, tier: Tier, rng: &mut Rng) -> (Vec<Case>, bool) {
        let mut progs = small_programs(if tier == Tier::Quick { 2 } else { 3 }, 20_000);
        let n_rand = if tier == Tier::Quick { 15_000 } else { 400_000 };
        for _ in 0..n_rand {
            progs.push(random_program(rng, 4));
        }
        let cases = progs
            .into_iter()
            .map(|p| {
                let mut lines = program_setup();
                lines.push(format!("eval 0 ro s value {}", xarg(&p)));
                lines.push(format!("eval 0 ro t value {}", xarg(&p)));
                lines.push(format!("eval 0 mut s value {}", xarg(&p)));
                lines.push("dump 0".to_string());
                Case { impl_lines: lines.clone(), drv_lines: lines, human: format!("{:?}", p), bucket: format!("stmts{}", p.matches(';').count() + 1) }
            })
            .collect();
        (cases, false)
    }
    fn judge(&self, case: &Case, out: &Outcome) -> Verdict {
        let n = case.impl_lines.len();
        let (ie, me) = (&out.impl_resp[n - 2], &out.drv_resp[n - 2]);
        let (id, md) = (&out.impl_resp[n - 1], &out.drv_resp[n - 1]);
        let ilog = ie.split(" ; ").nth(1).unwrap_or("");
        let mlog = me.split(" ; ").nth(1).unwrap_or("");
        for k in [n - 4, n - 3] {
            let (a, b) = (&out.impl_resp[k], &out.drv_resp[k]);
            if !same_value_or_class(a, b) || a.split(" ; ").nth(1) != b.split(" ; ").nth(1) {
                return Verdict::SpecViolation(format!("read-only evaluation gives result/log `{}`; the reference interpreter gives `{}`", a, b));
            }
        }
        if !same_value_or_class(ie, me) || ilog != mlog || id != md {
            return Verdict::SpecViolation(format!(
                "result/log `{}` final context `{}`; the reference interpreter gives `{}` and `{}`",
                ie, id, me, md
            ));
        }
        let nontrivial = if !ilog.is_empty() || id.matches('=').count() != 5 || !id.contains("61=I1,") { Some(case.human.clone()) } else { None };
        Verdict::Pass { nontrivial, class: class_of(eval_result(ie)) }
    }
}

// ----------------------------------------------------------------------------- C11

pub struct C11;

impl Property for C11 {
    fn id(&self) -> &'static str {
        "C11"
    }
    fn rule(&self) -> String {
        "the C08 programs (with and without assignments, with errors before and after the first assignment) evaluated on clones of one context: read-only outcome vs the projection of the mutable run \
         (ContextNotMutable iff the reference run applies an assignment operator before finishing or failing — decided by Spec.evalStop), the context observably unchanged by the read-only run; \
         on HashMapContext, EmptyContext, EmptyContextWithBuiltinFunctions and a context with the default set_value (every assignment rejected, nothing changed). non-trivial = the program contains an assignment or a call; distinct = distinct (program, context kind)"
            .into()
    }
    fn cases(&self, tier: Tier, rng: &mut Rng) -> (Vec<Case>, bool) {
        let mut progs = small_programs(2, 20_000);
        let n_rand = if tier == Tier::Quick { 6_000 } else { 300_000 };
        for _ in 0..n_rand {
            progs.push(random_program(rng, 4));
        }
        let mut cases = Vec::new();
        for (i, p) in progs.iter().enumerate() {
            // HashMapContext: ro on slot 0, mut on its clone
            let mut lines = program_setup();
            lines.push("clone 0 1".to_string());
            lines.push("dump 0".to_string());
            lines.push(format!("eval 0 ro s value {}", xarg(p)));
            lines.push("dump 0".to_string());
            lines.push(format!("eval 1 mut s value {}", xarg(p)));
            let mut drv = lines.clone();
            drv.push(format!("spec.stop 0 {}", xarg(p)));
            cases.push(Case { impl_lines: lines, drv_lines: drv, human: format!("hashmap: {:?}", p), bucket: "hashmap".into() });
            if i % 3 == 0 {
                // no-storage context: same bindings, default set_value
                let mut lines = vec![
                    "new 0 nostorage".to_string(),
                    format!("presetv 0 {} I1", xarg("a")),
                    format!("setf 0 {} id", xarg("f")),
                    format!("setf 0 {} inc", xarg("g")),
                    format!("setf 0 {} fail", xarg("h")),
                    "dump 0".to_string(),
                    format!("eval 0 mut s value {}", xarg(p)),
                    "dump 0".to_string(),
                    format!("eval 0 ro s value {}", xarg(p)),
                ];
                let drv = lines.clone();
                lines.truncate(9);
                cases.push(Case { impl_lines: lines, drv_lines: drv, human: format!("nostorage: {:?}", p), bucket: "nostorage".into() });
                for kind in ["empty", "emptyb"] {
                    let lines = vec![format!("new 0 {}", kind), format!("eval 0 ro s value {}", xarg(p)), "dump 0".to_string()];
                    cases.push(Case { impl_lines: lines.clone(), drv_lines: lines, human: format!("{}: {:?}", kind, p), bucket: kind.into() });
                }
            }
        }
        (cases, false)
    }
    fn judge(&self, case: &Case, out: &Outcome) -> Verdict {
        let has_effects = case.human.contains('=') || case.human.contains("f(") || case.human.contains("g(");
        let nontrivial = if has_effects { Some(case.human.clone()) } else { None };
        if case.bucket == "hashmap" {
            let n = case.impl_lines.len();
            let (before, ro, after, mutr) = (&out.impl_resp[n - 4], &out.impl_resp[n - 3], &out.impl_resp[n - 2], &out.impl_resp[n - 1]);
            let stop = &out.drv_resp[n];
            if before != after {
                return Verdict::SpecViolation(format!("read-only evaluation changed the context: `{}` -> `{}`", before, after));
            }
            let ro_res = eval_result(ro);
            if stop == "reached" {
                if ro_res != "err ContextNotMutable[]" {
                    return Verdict::SpecViolation(format!("the mutable run applies an assignment, the read-only run gives `{}` instead of ContextNotMutable", ro_res));
                }
            } else if !same_value_or_class(ro, mutr) || ro.split(" ; ").nth(1) != mutr.split(" ; ").nth(1) {
                return Verdict::SpecViolation(format!("no assignment is applied, yet read-only gives `{}` and mutable gives `{}`", ro, mutr));
            }
            for i in 0..n {
                let (a, b) = (&out.impl_resp[i], &out.drv_resp[i]);
                let same = if case.impl_lines[i].starts_with("eval") { same_value_or_class(a, b) && a.split(" ; ").nth(1) == b.split(" ; ").nth(1) } else { a == b };
                if !same {
                    return Verdict::ModelMismatch(format!("`{}`: impl `{}` model `{}`", case.impl_lines[i], a, b));
                }
            }
            return Verdict::Pass { nontrivial, class: format!("{}:{}", if stop == "reached" { "assign" } else { "pure" }, class_of(ro_res)) };
        }
        if case.bucket == "nostorage" {
            let (before, mutr, after) = (&out.impl_resp[5], &out.impl_resp[6], &out.impl_resp[7]);
            if before != after {
                return Verdict::SpecViolation(format!("a context without variable storage changed: `{}` -> `{}`", before, after));
            }
            if case.human.contains('=') && !case.human.contains("==") && eval_result(mutr).starts_with("ok") && !out.impl_resp[8].starts_with("ok") {
                return Verdict::SpecViolation(format!("assignment on a context without storage succeeded: `{}`", mutr));
            }
            // "reject every assignment in the same way": where the reference run is stopped by the storage-less context
            // (ContextNotMutable), the real context must answer with that very error, not with a type or other error
            if eval_result(&out.drv_resp[6]) == "err ContextNotMutable[]" && eval_result(mutr) != "err ContextNotMutable[]" {
                return Verdict::SpecViolation(format!(
                    "a context without variable storage must reject the assignment with ContextNotMutable, the mutable run gives `{}`",
                    eval_result(mutr)
                ));
            }
        }
        for i in 0..case.impl_lines.len() {
            let (a, b) = (&out.impl_resp[i], &out.drv_resp[i]);
            let same = if case.impl_lines[i].starts_with("eval") { same_value_or_class(a, b) } else { a == b };
            if !same {
                return Verdict::ModelMismatch(format!("`{}`: impl `{}` model `{}`", case.impl_lines[i], a, b));
            }
        }
        Verdict::Pass { nontrivial, class: case.bucket.clone() }
    }
}

// ----------------------------------------------------------------------------- C12

pub struct C12;

const KINDS: [&str; 8] = ["value", "string", "int", "float", "number", "boolean", "tuple", "empty"];

/// the reference projection of an untyped result (canonical text) to a kind
fn project(kind: &str, untyped: &str) -> String {
    let r = eval_result(untyped);
    let v = match r.strip_prefix("ok ") {
        Some(v) => v,
        None => return r.to_string(),
    };
    let tag = v.chars().next().unwrap_or('?');
    let (want, exp) = match kind {
        "value" => return r.to_string(),
        "string" => ('S', "ExpectedString"),
        "int" => ('I', "ExpectedInt"),
        "float" => ('F', "ExpectedFloat"),
        "boolean" => ('B', "ExpectedBoolean"),
        "tuple" => ('T', "ExpectedTuple"),
        "empty" => ('E', "ExpectedEmpty"),
        "number" => {
            return match tag {
                'F' => r.to_string(),
                'I' => format!("ok {}", enc_float(v[1..].parse::<i64>().unwrap() as f64)),
                _ => format!("err ExpectedNumber[{}]", v),
            };
        },
        _ => ('?', "?"),
    };
    if tag == want {
        r.to_string()
    } else {
        format!("err {}[{}]", exp, v)
    }
}

pub fn interesting_sources(rng: &mut Rng, n: usize) -> Vec<String> {
    let mut v: Vec<String> = vec![
        "1", "1.5", "\"s\"", "true", "()", "1, 2", "a", "a = 5", "a + 1", "f(2)", "zz", "1/0", "(", "1 +", "\"x", "a = 1; a", "a += 1; a * 2.0",
        "(1, \"s\", ())", "", ";", "math::sqrt(4)", "len(\"abc\")", "1 2", "/*", "a = \"s\"", "h(1)", "b = 2; b",
        "1 / 0 +", "zz *", "a = 6; a +", "five = 6; five +", "true", "42", "true + 42", "a = 1.5; a = 2", "n = 20; n += 1; n", "\"a\" = 3; a + 1",
        "x = 5, 7", "a = 1; b = a + 1; a, b",
        // constant sub-expressions that call builtins: what they mean depends on the context at evaluation time
        "max(1, 2)", "a + math::abs(-2)", "y = floor(2.5); y", "min(3, 4) + max(1, 2)", "len(\"abc\") * 2", "if(true, max(1, 2), 0)", "math::abs(-2) == 2 && true",
    ]
    .into_iter()
    .map(String::from)
    .collect();
    // characters that editors and data formats put in front of a text: every entry point must read the same string
    for prefix in ["\u{feff}", "\u{200b}", "\u{a0}", "\u{2060}", "\u{1}", "\u{feff} ", " \u{feff}"] {
        for body in ["1 + 2", "", "a", "a * 2", "a = 3; a"] {
            v.push(format!("{}{}", prefix, body));
            v.push(format!("{}{}", body, prefix));
        }
    }
    for i in 0..n {
        v.push(if i % 2 == 0 { random_program(rng, 3) } else { pure_program(rng, 3) });
    }
    v
}

impl Property for C12 {
    fn id(&self) -> &'static str {
        "C12"
    }
    fn rule(&self) -> String {
        "strings (well-formed or not; every value type and every error class occurs) x the 48 entry points (string/tree level x 8 result kinds x context-free / read-only / mutable): every typed result must be the reference projection \
         of the untyped result of the same level and mode; tree level must equal string level; the context-free form must equal the mutable form on a fresh HashMapContext; repeating an evaluation from an equal state gives an equal result; plus the projections as the public Value API offers them (as_*, is_*, TryFrom, From, fixed / ranged length tuples, ValueType) on the value pool and random values against the statement's rule. \
         non-trivial = the untyped evaluation succeeds; distinct = distinct string"
            .into()
    }
    fn cases(&self, tier: Tier, rng: &mut Rng) -> (Vec<Case>, bool) {
        let srcs = interesting_sources(rng, if tier == Tier::Quick { 1500 } else { 60_000 });
        let mut cases = Vec::new();
        for (ci, p) in srcs.into_iter().enumerate() {
            let mut lines = program_setup();
            if ci % 3 == 1 {
                // builtins switched off and a user function under a builtin's name: precompiling must not resolve anything early
                lines.push("setb 0 1".to_string());
                lines.push(format!("setf 0 {} kI-1", xarg("max")));
            } else if ci % 3 == 2 {
                lines.push(format!("setf 0 {} kI-1", xarg("max")));
                lines.push(format!("setf 0 {} fail", xarg("math::abs")));
            }
            for level in ["s", "t"] {
                for kind in KINDS {
                    lines.push(format!("eval 0 fresh {} {} {}", level, kind, xarg(&p)));
                    lines.push(format!("eval 0 ro {} {} {}", level, kind, xarg(&p)));
                    lines.push("clone 0 1".to_string());
                    lines.push(format!("eval 1 mut {} {} {}", level, kind, xarg(&p)));
                    lines.push("dump 1".to_string());
                }
            }
            // the context-free form is the mutable form on a fresh empty HashMapContext
            lines.push("new 2 hm".to_string());
            lines.push(format!("eval 2 mut s value {}", xarg(&p)));
            // determinism: the same call from an equal state
            lines.push("clone 0 3".to_string());
            lines.push(format!("eval 3 mut s value {}", xarg(&p)));
            cases.push(Case { impl_lines: lines.clone(), drv_lines: lines, human: format!("{:?}", p), bucket: "entry-points".into() });
        }
        (cases, false)
    }
    fn judge(&self, case: &Case, out: &Outcome) -> Verdict {
        let base = case.impl_lines.iter().position(|l| l.starts_with("eval")).unwrap_or(0); // setup lines
        let get = |level: usize, kind: usize, what: usize| -> &String { &out.impl_resp[base + (level * 8 + kind) * 5 + what] };
        // what: 0 fresh, 1 ro, 3 mut, 4 dump after mut
        for level in 0..2 {
            for (m, name) in [(0usize, "context-free"), (1, "read-only"), (3, "mutable")] {
                let untyped = get(level, 0, m);
                for (k, kind) in KINDS.iter().enumerate() {
                    let typed = get(level, k, m);
                    let want = project(kind, untyped);
                    if eval_result(typed) != want {
                        return Verdict::SpecViolation(format!(
                            "{} {}-level eval_{}: `{}`, the projection of the untyped result `{}` is `{}`",
                            name,
                            if level == 0 { "string" } else { "tree" },
                            kind,
                            eval_result(typed),
                            eval_result(untyped),
                            want
                        ));
                    }
                    if level == 1 && eval_result(typed) != eval_result(get(0, k, m)) {
                        return Verdict::SpecViolation(format!("precompiled form of eval_{} ({}) gives `{}`, the string form `{}`", kind, name, typed, get(0, k, m)));
                    }
                    if m == 3 && get(level, k, 4) != get(0, 0, 4) {
                        return Verdict::SpecViolation(format!("eval_{} (mutable) leaves the context `{}`, the untyped form `{}`", kind, get(level, k, 4), get(0, 0, 4)));
                    }
                }
            }
        }
        let n = out.impl_resp.len();
        let fresh_mut = &out.impl_resp[n - 3];
        if eval_result(fresh_mut) != eval_result(get(0, 0, 0)) {
            return Verdict::SpecViolation(format!("context-free eval gives `{}`, eval_with_context_mut on a fresh HashMapContext gives `{}`", get(0, 0, 0), fresh_mut));
        }
        if out.impl_resp[n - 1] != *get(0, 0, 3) {
            return Verdict::SpecViolation(format!("the same evaluation from an equal state gave `{}` and `{}`", get(0, 0, 3), out.impl_resp[n - 1]));
        }
        for i in 0..n {
            let (a, b) = (&out.impl_resp[i], &out.drv_resp[i]);
            let same = if case.impl_lines[i].starts_with("eval") { same_value_or_class(a, b) } else { a == b };
            if !same {
                return Verdict::ModelMismatch(format!("`{}`: impl `{}` model `{}`", case.impl_lines[i], a, b));
            }
        }
        let u = eval_result(get(0, 0, 3));
        Verdict::Pass { nontrivial: if u.starts_with("ok") { Some(case.human.clone()) } else { None }, class: class_of(u) }
    }
    fn extra(&self, tier: Tier, rng: &mut Rng) -> (usize, Vec<(String, String)>, Vec<String>) {
        // the projections themselves, as the public `Value` API offers them (the typed entry points, user functions and
        // `TryFrom` all go through these): payload if the value has that type, otherwise the matching expected-type error
        // carrying the value; `as_number` additionally converts integers
        use evalexpr::{DefaultNumericTypes, EvalexprError, TupleType, ValueType};
        use std::convert::TryFrom;
        type V = evalexpr::Value<DefaultNumericTypes>;
        let mut pool = crate::gen::value_pool();
        let n_rand = if tier == Tier::Quick { 2000 } else { 100_000 };
        for _ in 0..n_rand {
            pool.push(crate::gen::random_value(rng, 2));
        }
        let mut viol: Vec<(String, String)> = Vec::new();
        let mut n = 0usize;
        for v in &pool {
            n += 1;
            let tag = enc_value(v).chars().next().unwrap_or('?');
            let mut bad = |what: &str, got: String, want: String| {
                if got != want {
                    viol.push((format!("{:?}", v), format!("{}: `{}`, expected `{}`", what, got, want)));
                }
            };
            let exp = |ty: char, payload: String, err: EvalexprError| if tag == ty { format!("ok {}", payload) } else { format!("err {}", enc_err(&err)) };
            let pv = enc_value(v);
            bad("as_string", enc_res(&v.as_string(), |s| enc_value(&V::String(s.clone()))), exp('S', pv.clone(), EvalexprError::expected_string(v.clone())));
            bad("as_int", enc_res(&v.as_int(), |i| enc_value(&V::Int(*i))), exp('I', pv.clone(), EvalexprError::expected_int(v.clone())));
            bad("as_float", enc_res(&v.as_float(), |f| enc_value(&V::Float(*f))), exp('F', pv.clone(), EvalexprError::expected_float(v.clone())));
            bad("as_boolean", enc_res(&v.as_boolean(), |b| enc_value(&V::Boolean(*b))), exp('B', pv.clone(), EvalexprError::expected_boolean(v.clone())));
            bad("as_tuple", enc_res(&v.as_tuple(), |t| enc_value(&V::Tuple(t.clone()))), exp('T', pv.clone(), EvalexprError::expected_tuple(v.clone())));
            bad("as_empty", enc_res(&v.as_empty(), |_| "E".to_string()), exp('E', pv.clone(), EvalexprError::expected_empty(v.clone())));
            let num = match v {
                V::Int(i) => format!("ok {}", enc_value(&V::Float(*i as f64))),
                V::Float(_) => format!("ok {}", pv),
                _ => format!("err {}", enc_err(&EvalexprError::expected_number(v.clone()))),
            };
            bad("as_number", enc_res(&v.as_number(), |f| enc_value(&V::Float(*f))), num);
            bad("TryFrom for String", enc_res(&String::try_from(v.clone()), |s| enc_value(&V::String(s.clone()))), enc_res(&v.as_string(), |s| enc_value(&V::String(s.clone()))));
            bad("TryFrom for bool", enc_res(&bool::try_from(v.clone()), |b| enc_value(&V::Boolean(*b))), enc_res(&v.as_boolean(), |b| enc_value(&V::Boolean(*b))));
            bad("TryFrom for tuple", enc_res(&TupleType::<DefaultNumericTypes>::try_from(v.clone()), |t| enc_value(&V::Tuple(t.clone()))), enc_res(&v.as_tuple(), |t| enc_value(&V::Tuple(t.clone()))));
            bad("TryFrom for ()", enc_res(&<()>::try_from(v.clone()), |_| "E".to_string()), enc_res(&v.as_empty(), |_| "E".to_string()));
            let flags = format!("{}{}{}{}{}{}{}", v.is_string() as u8, v.is_int() as u8, v.is_float() as u8, v.is_number() as u8, v.is_boolean() as u8, v.is_tuple() as u8, v.is_empty() as u8);
            let want_flags = match tag { 'S' => "1000000", 'I' => "0101000", 'F' => "0011000", 'B' => "0000100", 'T' => "0000010", _ => "0000001" };
            bad("is_*", flags, want_flags.to_string());
            let vt = format!("{:?}", ValueType::from(v));
            bad("ValueType::from", vt, match tag { 'S' => "String", 'I' => "Int", 'F' => "Float", 'B' => "Boolean", 'T' => "Tuple", _ => "Empty" }.to_string());
            // fixed / ranged length tuples
            for len in 0..4usize {
                let want = match v {
                    V::Tuple(t) if t.len() == len => format!("ok {}", pv),
                    V::Tuple(_) => format!("err {}", enc_err(&EvalexprError::expected_fixed_len_tuple(len, v.clone()))),
                    _ => format!("err {}", enc_err(&EvalexprError::expected_tuple(v.clone()))),
                };
                bad("as_fixed_len_tuple", enc_res(&v.as_fixed_len_tuple(len), |t| enc_value(&V::Tuple(t.clone()))), want);
                for hi in len..4usize {
                    let want = match v {
                        V::Tuple(t) if (len..=hi).contains(&t.len()) => format!("ok {}", pv),
                        V::Tuple(_) => format!("err {}", enc_err(&EvalexprError::expected_ranged_len_tuple(len..=hi, v.clone()))),
                        _ => format!("err {}", enc_err(&EvalexprError::expected_tuple(v.clone()))),
                    };
                    bad("as_ranged_len_tuple", enc_res(&v.as_ranged_len_tuple(len..=hi), |t| enc_value(&V::Tuple(t.clone()))), want);
                }
            }
        }
        // constructors
        let mut ctor = |what: &str, got: V, want: V| {
            n += 1;
            if enc_value(&got) != enc_value(&want) {
                viol.push((what.to_string(), format!("gives `{}`, expected `{}`", enc_value(&got), enc_value(&want))));
            }
        };
        ctor("From<String>", V::from("ä b".to_string()), V::String("ä b".into()));
        ctor("From<&str>", V::from(""), V::String("".into()));
        ctor("From<bool> true", V::from(true), V::Boolean(true));
        ctor("From<bool> false", V::from(false), V::Boolean(false));
        ctor("From<()>", V::from(()), V::Empty);
        ctor("From<Vec<Value>>", V::from(vec![V::Int(1), V::Empty]), V::Tuple(vec![V::Int(1), V::Empty]));
        ctor("From<Vec<Value>> empty", V::from(Vec::<V>::new()), V::Tuple(vec![]));
        ctor("from_int", V::from_int(i64::MIN), V::Int(i64::MIN));
        ctor("from_float", V::from_float(-0.0), V::Float(-0.0));
        (n, viol, vec!["value-api-projections".into()])
    }
}

// ----------------------------------------------------------------------------- C14

pub struct C14;

impl Property for C14 {
    fn id(&self) -> &'static str {
        "C14"
    }
    fn rule(&self) -> String {
        "expressions (Spec/Ast, depth <= 6) and sequence levels (Spec/Seq, with absent elements and empty groups) generated next to the spec and rendered with random admissible gaps and literal spellings: the five immutable and five mutable identifier iterators of the real tree must equal the occurrence list Spec.occ of the generating AST \
         (order and class); renaming all variables through the mutable iterator and in the context must not change the result; evaluation in a context that binds nothing may only report an unknown identifier that the iterators list, in the right class; plus all token strings up to a length bound (iterators and renamed trees, real vs model). \
         non-trivial = at least two identifier occurrences; distinct = distinct source"
            .into()
    }
    fn cases(&self, tier: Tier, rng: &mut Rng) -> (Vec<Case>, bool) {
        let n = if tier == Tier::Quick { 6000 } else { 300_000 };
        let mut reqs: Vec<String> = (0..n).map(|k| format!("gen.c14 {} {}", rng.next() % (1 << 60), 1 + k % 6)).collect();
        // the domain of C05 too: sequence levels with absent elements and empty groups (`a; ; b`, `(), f x`)
        reqs.extend((0..n / 2).map(|k| format!("gen.c14l {} {}", rng.next() % (1 << 60), 1 + k % 3)));
        let answers = ask_driver(&reqs, 16).unwrap_or_default();
        let mut cases = Vec::new();
        for a in answers {
            let mut parts = a.splitn(2, ' ');
            let src = unx(parts.next().unwrap_or("x"));
            let occ = parts.next().unwrap_or("").to_string();
            // every variable of the pool gets a value; the renamed context binds name+suffix
            let vars = ["a", "b", "x", "e", "ä", "f", "g", "foo_1"];
            let mut lines = vec!["new 0 hm".to_string(), "new 1 hm".to_string()];
            // in every other case the names of the two functions are NOT bound as variables
            // (a read of `f` must then be an unknown variable, never a call)
            let skip_fn_vars = cases.len() % 2 == 1;
            for (i, v) in vars.iter().enumerate() {
                if skip_fn_vars && (*v == "f" || *v == "g") {
                    continue;
                }
                lines.push(format!("setv 0 {} I{}", xarg(v), i + 2));
                lines.push(format!("setv 1 {} I{}", xarg(&format!("{}_r", v)), i + 2));
            }
            for s in [0, 1] {
                lines.push(format!("setf {} {} id", s, xarg("f")));
                lines.push(format!("setf {} {} inc", s, xarg("g")));
            }
            // in a context that binds nothing, evaluation can only report an unknown identifier the iterators list
            lines.push("new 2 hm".to_string());
            lines.push(format!("eval 2 mut t value {}", xarg(&src)));
            lines.push(format!("iter {}", xarg(&src)));
            lines.push(format!("rename variable {} {}", xarg("_r"), xarg(&src)));
            lines.push(format!("eval 0 mut t value {}", xarg(&src)));
            lines.push(format!("evalrename 1 {} {}", xarg("_r"), xarg(&src)));
            let mut drv = lines.clone();
            drv.push(format!("#occ {}", occ));
            cases.push(Case { impl_lines: lines, drv_lines: drv, human: format!("{:?}", src), bucket: "ast".into() });
        }
        let alphabet = ["1", "x", "f", "+", "-", "=", "(", ")", ",", ";", "y", "+="];
        let maxlen = if tier == Tier::Quick { 4 } else { 5 };
        for len in 1..=maxlen {
            let total = alphabet.len().pow(len as u32);
            for mut k in 0..total {
                let mut parts = Vec::new();
                for _ in 0..len {
                    parts.push(alphabet[k % alphabet.len()]);
                    k /= alphabet.len();
                }
                let src = parts.join(" ");
                let lines = vec![format!("iter {}", xarg(&src)), format!("rename identifiers {} {}", xarg("_q"), xarg(&src)), format!("rename write {} {}", xarg("_w"), xarg(&src))];
                cases.push(Case { impl_lines: lines.clone(), drv_lines: lines, human: format!("{:?}", src), bucket: format!("tokens-len{}", len) });
            }
        }
        (cases, false)
    }
    fn judge(&self, case: &Case, out: &Outcome) -> Verdict {
        let mut nontrivial = None;
        if case.bucket == "ast" {
            let n = case.impl_lines.len();
            let occ = case.drv_lines[n].strip_prefix("#occ ").unwrap_or("");
            let occs: Vec<(&str, &str)> = occ.split(',').filter(|s| !s.is_empty()).map(|s| (&s[0..1], &s[2..])).collect();
            let expect = |pred: &dyn Fn(&str) -> bool| -> String { occs.iter().filter(|(c, _)| pred(c)).map(|(_, n)| *n).collect::<Vec<_>>().join(",") };
            let wants = [
                expect(&|_| true),
                expect(&|c| c != "f"),
                expect(&|c| c == "r"),
                expect(&|c| c == "w"),
                expect(&|c| c == "f"),
            ];
            let it = &out.impl_resp[n - 4];
            let names = ["identifiers", "variable", "read-variable", "write-variable", "function"];
            let parts: Vec<&str> = it.strip_prefix("ok ").unwrap_or("").split(' ').collect();
            if parts.len() < 5 {
                return Verdict::SpecViolation(format!("iterators: `{}`", it));
            }
            for i in 0..5 {
                let want = format!("{}/{}", wants[i], wants[i]);
                if parts[i] != want {
                    return Verdict::SpecViolation(format!("iter_{}_identifiers (immutable/mutable) lists `{}`, the source has `{}`", names[i], parts[i], wants[i]));
                }
            }
            // internal iteration after a partial external one visits the same remaining occurrences in the same order
            if parts.len() >= 6 {
                let all: Vec<&str> = occs.iter().map(|(_, n)| *n).collect();
                let vars: Vec<&str> = occs.iter().filter(|(c, _)| *c != "f").map(|(_, n)| *n).collect();
                let reads: Vec<&str> = occs.iter().filter(|(c, _)| *c == "r").map(|(_, n)| *n).collect();
                let want = format!(
                    "{};{};{};{}",
                    all.first().copied().unwrap_or(""),
                    all.iter().skip(1).copied().collect::<Vec<_>>().join(","),
                    vars.iter().skip(1).last().copied().unwrap_or(""),
                    reads.iter().skip(2).copied().collect::<Vec<_>>().join(",")
                );
                if parts[5] != want {
                    return Verdict::SpecViolation(format!(
                        "next() then for_each / skip(1).last() / next, next, fold over the identifier iterators gives `{}`, the source order is `{}`",
                        parts[5], want
                    ));
                }
            }
            // an unknown-identifier error names an identifier of the right class that the iterators list
            let unbound = eval_result(&out.impl_resp[n - 5]);
            for (variant, class_ok) in [("err VariableIdentifierNotFound[", "rw"), ("err FunctionIdentifierNotFound[", "f")] {
                if let Some(rest) = unbound.strip_prefix(variant) {
                    let name = rest.trim_end_matches(']');
                    if !occs.iter().any(|(c, n)| *n == name && class_ok.contains(c)) {
                        return Verdict::SpecViolation(format!("evaluation in an empty context reports `{}`, but the iterators list only `{}`", unbound, occ));
                    }
                }
            }
            // renaming does not change the result
            let (plain, renamed) = (&out.impl_resp[n - 2], &out.impl_resp[n - 1]);
            let norm = |s: &str| s.replace(&hex("_r".as_bytes()), "");
            if norm(plain) != norm(renamed) {
                return Verdict::SpecViolation(format!("result `{}`, after consistent renaming `{}`", plain, renamed));
            }
            if occs.len() >= 2 {
                nontrivial = Some(case.human.clone());
            }
        }
        for i in 0..case.impl_lines.len() {
            let (a, b) = (&out.impl_resp[i], &out.drv_resp[i]);
            let same = if case.impl_lines[i].starts_with("eval") { same_value_or_class(a, b) } else if a.starts_with("ok") || b.starts_with("ok") { a == b } else { true };
            if !same {
                return Verdict::ModelMismatch(format!("`{}`: impl `{}` model `{}`", case.impl_lines[i], a, b));
            }
        }
        if nontrivial.is_none() && out.impl_resp[0].matches(',').count() >= 1 {
            nontrivial = Some(case.human.clone());
        }
        Verdict::Pass { nontrivial, class: class_of(&out.impl_resp[case.impl_lines.len() - 1]) }
    }
}

// ----------------------------------------------------------------------------- C09

pub struct C09;

impl Property for C09 {
    fn id(&self) -> &'static str {
        "C09"
    }
    fn rule(&self) -> String {
        "the complete configuration matrix: (49 builtin names + 5 other names + ~190 near misses of builtin names) x {EmptyContext, EmptyContextWithBuiltinFunctions, HashMapContext x builtin switch x user function (none / identity / constant / failing / returning FunctionIdentifierNotFound) \
         x variable of the same name x {as is, cloned, clone_from into a context with the opposite switch, after clear_functions}} x call forms {n(x), n x, n(), n(x, y), m n x, n, n true, n \"s\", n 1.5, n(x, y, x)}, read-only and (HashMapContext) through the mutable evaluator: resolution (user function first, then builtins unless disabled, else the unknown-function error naming n) and argument shape (recorded by the user function) as stated. \
         non-trivial = a function is resolved (user or builtin); distinct = distinct configuration"
            .into()
    }
    fn cases(&self, _tier: Tier, _rng: &mut Rng) -> (Vec<Case>, bool) {
        let mut names: Vec<&str> = super::builtins::BUILTINS.to_vec();
        names.extend(["foo", "math::nope", "str", "maxx", "typeo"]);
        // near misses of every builtin name (repeated / missing / foreign namespace, other case, suffix): none is a builtin
        let near: Vec<String> = super::builtins::BUILTINS
            .iter()
            .flat_map(|b| {
                let last = b.rsplit("::").next().unwrap();
                let mut cap = last.to_string();
                cap[..1].make_ascii_uppercase();
                let mut v = vec![format!("{}_", b), b.replace(last, &cap)];
                if let Some((ns, rest)) = b.split_once("::") {
                    v.push(format!("{}::{}::{}", ns, ns, rest));
                    v.push(rest.to_string());
                } else {
                    v.push(format!("math::{}", b));
                    v.push(format!("std::{}", b));
                }
                v
            })
            .filter(|n| !super::builtins::BUILTINS.contains(&n.as_str()))
            .collect();
        names.extend(near.iter().map(|s| s.as_str()));
        let mut cases = Vec::new();
        for name in &names {
            for ctx in ["empty", "emptyb", "hm"] {
                let switches: &[&str] = if ctx == "hm" { &["0", "1"] } else { &["-"] };
                for sw in switches {
                    let fns: &[&str] = if ctx == "hm" { &["none", "id", "kI7", "fail", "notfound"] } else { &["none"] };
                    for f in fns {
                        for var in [false, true] {
                            for post in ["plain", "clone", "clonefrom", "clearf"] {
                                if ctx != "hm" && (var || post != "plain") {
                                    continue;
                                }
                                let mut lines = vec![format!("new 0 {}", ctx)];
                                if ctx != "hm" {
                                    // the stateless contexts: the switch cannot be moved away from its fixed position
                                    lines.push("setb 0 0".to_string());
                                    lines.push("setb 0 1".to_string());
                                }
                                if ctx == "hm" {
                                    lines.push(format!("setb 0 {}", sw));
                                    lines.push(format!("setv 0 {} I2", xarg("x")));
                                    lines.push(format!("setv 0 {} I3", xarg("y")));
                                    lines.push(format!("setf 0 {} id", xarg("m")));
                                    if *f != "none" {
                                        lines.push(format!("setf 0 {} {}", xarg(name), f));
                                    }
                                    if var {
                                        lines.push(format!("setv 0 {} F4000000000000000", xarg(name)));
                                    }
                                }
                                let slot = match post {
                                    "clone" => {
                                        lines.push("clone 0 1".to_string());
                                        1
                                    },
                                    "clonefrom" => {
                                        // into an existing context with the opposite switch and other bindings
                                        lines.push("new 1 hm".to_string());
                                        lines.push(format!("setb 1 {}", if *sw == "0" { "1" } else { "0" }));
                                        lines.push(format!("setf 1 {} kI9", xarg(name)));
                                        lines.push(format!("setv 1 {} I8", xarg("x")));
                                        lines.push("clonefrom 0 1".to_string());
                                        1
                                    },
                                    "clearf" => {
                                        lines.push("clearf 0".to_string());
                                        0
                                    },
                                    _ => 0,
                                };
                                let arg = if ctx == "hm" { "x" } else { "2" };
                                let arg2 = if ctx == "hm" { "y" } else { "3" };
                                let m = if ctx == "hm" { "m" } else { "typeof" };
                                let mut forms: Vec<String> = Vec::new();
                                for form in [
                                    format!("{}({})", name, arg),
                                    format!("{} {}", name, arg),
                                    format!("{}()", name),
                                    format!("{}({}, {})", name, arg, arg2),
                                    format!("{} {} {}", m, name, arg),
                                    format!("{}", name),
                                    format!("{} true", name),
                                    format!("{} \"s\"", name),
                                    format!("{} 1.5", name),
                                    format!("{}({}, {}, {})", name, arg, arg2, arg),
                                ] {
                                    lines.push(format!("eval {} ro s value {}", slot, xarg(&form)));
                                    forms.push(form.clone());
                                }
                                if ctx == "hm" {
                                    // the same resolution through the mutable evaluator (on a copy)
                                    lines.push(format!("clone {} 5", slot));
                                    for form in &forms {
                                        lines.push(format!("eval 5 mut s value {}", xarg(form)));
                                    }
                                }
                                lines.push(format!("dump {}", slot));
                                let human = format!("name={} ctx={} disabled={} userfn={} var={} {}", name, ctx, sw, f, var, post);
                                cases.push(Case { impl_lines: lines.clone(), drv_lines: lines, human, bucket: format!("{}:{}:{}", ctx, f, post) });
                            }
                        }
                    }
                }
            }
        }
        (cases, true)
    }
    fn judge(&self, case: &Case, out: &Outcome) -> Verdict {
        // decode the configuration from the description
        let cfg: std::collections::HashMap<&str, &str> =
            case.human.split(' ').filter_map(|kv| kv.split_once('=')).collect();
        let name = cfg["name"];
        let ctx = cfg["ctx"];
        let post = case.human.rsplit(' ').next().unwrap();
        let userfn = if post == "clearf" { "none" } else { cfg["userfn"] };
        let disabled = match ctx {
            "empty" => true,
            "emptyb" => false,
            _ => cfg["disabled"] == "1",
        };
        let is_builtin = super::builtins::BUILTINS.contains(&name);
        let n = case.impl_lines.len();
        let evals: Vec<usize> = (0..n).filter(|i| case.impl_lines[*i].starts_with("eval")).collect();
        let hname = hex(name.as_bytes());
        let notfound = format!("err FunctionIdentifierNotFound[{}]", hname);
        let (a1, a2) = if ctx == "hm" { ("I2", "I3") } else { ("I2", "I3") };
        let arg_shapes = [
            a1.to_string(), a1.to_string(), "E".to_string(), format!("T({},{})", a1, a2), a1.to_string(), String::new(), "Bt".to_string(), "S73".to_string(),
            "F3ff8000000000000".to_string(), format!("T({},{},{})", a1, a2, a1),
        ];
        if ctx != "hm" {
            let (enable, disable) = (&out.impl_resp[1], &out.impl_resp[2]);
            let (want_enable, want_disable) =
                if ctx == "empty" { ("err BuiltinFunctionsCannotBeEnabled[]", "ok ()") } else { ("ok ()", "err BuiltinFunctionsCannotBeDisabled[]") };
            if enable != want_enable || disable != want_disable {
                return Verdict::SpecViolation(format!(
                    "{}: set_builtin_functions_disabled(false) gives `{}`, (true) gives `{}`; the switch of this context is fixed: expected `{}` / `{}`",
                    ctx, enable, disable, want_enable, want_disable
                ));
            }
        }
        let mut resolved = false;
        for (k, &i) in evals.iter().enumerate() {
            let k = k % 10; // the ten forms read-only, then (HashMapContext) the same ten through the mutable evaluator
            let r = &out.impl_resp[i];
            let res = eval_result(r);
            let log = r.split(" ; ").nth(1).unwrap_or("");
            if k == 5 {
                // bare identifier: a variable read, never a function
                let want_var = cfg["var"] == "true";
                let ok = if want_var { res == "ok F4000000000000000" } else { res == format!("err VariableIdentifierNotFound[{}]", hname) };
                if !ok || !log.is_empty() {
                    return Verdict::SpecViolation(format!("bare `{}` gives `{}` (log `{}`): variables and functions are separate namespaces", name, res, log));
                }
                continue;
            }
            let call_entry = format!("{}:{}", hname, arg_shapes[k]);
            match userfn {
                "id" | "kI7" | "fail" => {
                    resolved = true;
                    let want = match userfn {
                        "id" => format!("ok {}", arg_shapes[k]),
                        "kI7" => "ok I7".to_string(),
                        _ => format!("err CustomMessage[{}]", hex(b"boom")),
                    };
                    // in `m n x` the outer identity function passes the value through
                    if res != want || !log.contains(&call_entry) {
                        return Verdict::SpecViolation(format!("form #{}: `{}` (calls `{}`), the context function must be called with `{}` and give `{}`", k, res, log, arg_shapes[k], want));
                    }
                },
                "notfound" => {
                    // known finding K2: the error of the user function is replaced by the builtin
                    if !log.contains(&call_entry) {
                        return Verdict::SpecViolation(format!("form #{}: the context function was not called (calls `{}`)", k, log));
                    }
                    if res.starts_with("ok") || (!res.contains("FunctionIdentifierNotFound") && is_builtin && !disabled) {
                        return Verdict::SpecViolation(format!(
                            "K2: user function `{}` returning FunctionIdentifierNotFound is overridden by the builtin: `{}`",
                            name, res
                        ));
                    }
                },
                _ => {
                    // no user function: builtins unless disabled
                    if disabled || !is_builtin {
                        if res != notfound {
                            return Verdict::SpecViolation(format!("form #{}: `{}`, expected the unknown-function error naming `{}`", k, res, name));
                        }
                    } else {
                        resolved = true;
                        if res == notfound {
                            return Verdict::SpecViolation(format!("form #{}: builtin `{}` not resolved although builtins are enabled", k, name));
                        }
                    }
                },
            }
        }
        for i in 0..n {
            let (a, b) = (&out.impl_resp[i], &out.drv_resp[i]);
            let same = if case.impl_lines[i].starts_with("eval") { same_value_or_class(a, b) && a.split(" ; ").nth(1) == b.split(" ; ").nth(1) } else { a == b };
            if !same {
                return Verdict::ModelMismatch(format!("`{}`: impl `{}` model `{}`", case.impl_lines[i], a, b));
            }
        }
        Verdict::Pass { nontrivial: if resolved { Some(case.human.clone()) } else { None }, class: format!("{}:{}", ctx, userfn) }
    }
}

// ----------------------------------------------------------------------------- C04

pub struct C04;

fn ctx_values() -> Vec<Value> {
    vec![
        Value::Int(1), Value::Int(7), Value::Float(1.5), Value::Float(0.0), Value::Float(-0.0), Value::String("s".into()), Value::Boolean(true), Value::Empty,
        Value::Tuple(vec![Value::Int(1)]), Value::Tuple(vec![Value::Int(1), Value::String("t".into())]),
    ]
}

fn ctx_ops(values: &[Value]) -> Vec<String> {
    let mut ops = Vec::new();
    for name in ["a", "b"] {
        for v in values {
            ops.push(format!("setv 0 {} {}", xarg(name), enc_value(v)));
            if let Some(lit) = super::c03::literal(v) {
                ops.push(format!("eval 0 mut s value {}", xarg(&format!("{} = {}", name, lit))));
            } else if let Value::Float(f) = v {
                // a negative float is written as a negated literal
                ops.push(format!("eval 0 mut s value {}", xarg(&format!("{} = -{:?}", name, -f))));
            }
        }
        for op in ["+=", "-=", "*=", "/=", "%=", "^=", "&&=", "||="] {
            for lit in ["2", "1.5", "\"s\"", "true"] {
                ops.push(format!("eval 0 mut s value {}", xarg(&format!("{} {} {}", name, op, lit))));
            }
        }
        ops.push(format!("getv 0 {}", xarg(name)));
        ops.push(format!("setf 0 {} id", xarg(name)));
        ops.push(format!("callf 0 {} I1", xarg(name)));
    }
    // a user function under a builtin's name: the function map is a map for these names too, whatever the builtin switch
    ops.push(format!("setf 0 {} kI42", xarg("len")));
    ops.push(format!("callf 0 {} S6162", xarg("len")));
    ops.push(format!("eval 0 mut s value {}", xarg("len(\"abc\")")));
    ops.push(format!("eval 0 ro s value {}", xarg("len(\"abc\")")));
    ops.extend(["clearv 0", "clearf 0", "clear 0", "setb 0 1", "setb 0 0", "clone 0 1", "clone 1 0", "clonefrom 0 1", "clonefrom 1 0"].iter().map(|s| s.to_string()));
    ops
}

impl Property for C04 {
    fn id(&self) -> &'static str {
        "C04"
    }
    fn rule(&self) -> String {
        "histories of context operations from an empty HashMapContext over names {a, b}, 8 values (one per type, two tuple lengths, two ints), 2 user functions: set_value, `n = v`, the 8 `n op= v`, reads, the three clears, set_function, the builtin switch, \
         clone-and-continue-on-either-copy — EXHAUSTIVE breadth-first exploration of the abstract state space of one context (every reachable state, by its shortest history, x every operation; the bucket `bfs-states-N` reports the number of states), all two-step histories involving a clone, random three-step and 60-step histories over both copies; after every step the return value and the complete observable state (lookup of both names, sorted listing, function lookup, switch, of both copies) \
         of the real HashMapContext must equal those of the abstract map model, and `x op= v` must leave what `x = x op v` leaves; a context built by `context_map!` equals the one built by the same set_value / set_function calls (10 shapes). non-trivial = the history contains a rejected (type error) or overwriting assignment; distinct = distinct history"
            .into()
    }
    fn cases(&self, tier: Tier, rng: &mut Rng) -> (Vec<Case>, bool) {
        let ops = ctx_ops(&ctx_values());
        let observe = |lines: &mut Vec<String>| {
            lines.push("dump 0".to_string());
            lines.push("dump 1".to_string());
            lines.push(format!("callf 0 {} I1", xarg("a")));
            lines.push(format!("callf 1 {} I1", xarg("b")));
            lines.push(format!("callf 0 {} S61", xarg("len")));
            lines.push(format!("callf 1 {} S61", xarg("len")));
        };
        let mut cases = Vec::new();
        let mk = |hist: &[&String], bucket: &str| -> Case {
            let mut lines = vec!["new 0 hm".to_string(), "new 1 hm".to_string()];
            for (i, op) in hist.iter().enumerate() {
                lines.push((*op).clone());
                // observe the complete state after the last two steps (earlier ones were observed by shorter histories)
                if i + 2 >= hist.len() {
                    observe(&mut lines);
                }
            }
            Case { impl_lines: lines.clone(), drv_lines: lines, human: hist.iter().map(|s| describe(s)).collect::<Vec<_>>().join(" ; "), bucket: bucket.into() }
        };
        // breadth-first exploration of the abstract state space of ONE context (a, b ∈ {unbound} ∪ 8 values; functions a, b
        // present or not; the switch): every reachable state (by its shortest history) x every operation
        let single: Vec<&String> = ops.iter().filter(|o| !o.starts_with("clone")).collect();
        let state_of = |hist: &[&String]| -> String {
            let mut sess = crate::server::Session::new();
            sess.handle("new 0 hm");
            for op in hist {
                sess.handle(op);
            }
            format!(
                "{}|{}|{}|{}",
                sess.handle("dump 0"),
                sess.handle(&format!("callf 0 {} I1", xarg("a"))),
                sess.handle(&format!("callf 0 {} I1", xarg("b"))),
                sess.handle(&format!("callf 0 {} S61", xarg("len")))
            )
        };
        let mut seen: std::collections::HashMap<String, Vec<&String>> = std::collections::HashMap::new();
        let mut frontier: Vec<Vec<&String>> = vec![vec![]];
        seen.insert(state_of(&[]), vec![]);
        while let Some(h) = frontier.pop() {
            for op in &single {
                let mut h2 = h.clone();
                h2.push(*op);
                cases.push(mk(&h2, "bfs-transition"));
                // op-assignments create values outside the finite domain: they are explored as transitions from every
                // state, but the state space itself is the closure under the other operations
                let closed = !(op.contains(&xarg(" += ")[1..9]) || unx(op.rsplit(' ').next().unwrap_or("x")).contains("= ") && !unx(op.rsplit(' ').next().unwrap_or("x")).contains(" = "));
                if !closed {
                    continue;
                }
                let key = state_of(&h2);
                if !seen.contains_key(&key) && seen.len() < 5000 {
                    seen.insert(key, h2.clone());
                    frontier.insert(0, h2);
                }
            }
        }
        let n_states = seen.len();
        // beyond the state space: the same expression operations through every typed entry point, on source strings and on
        // precompiled trees (an assignment takes effect whichever entry point evaluates it)
        let mut ops = ops.clone();
        let kinds = ["string", "int", "float", "number", "boolean", "tuple", "empty", "value"];
        let plain: Vec<String> = ops.iter().filter(|o| o.starts_with("eval 0 mut s value ")).cloned().collect();
        for (i, o) in plain.iter().enumerate() {
            let src = o.rsplit(' ').next().unwrap();
            ops.push(format!("eval 0 mut t {} {}", kinds[i % 8], src));
            ops.push(format!("eval 0 mut s {} {}", kinds[(i / 8 + i) % 8], src));
            ops.push(format!("eval 0 mut t {} {}", kinds[(i / 8 + i + 3) % 8], xarg(&format!("{}; {}", unx(src), unx(src).split(' ').next().unwrap()))));
        }
        for o in ops.iter().filter(|o| o.starts_with("eval 0 mut t ")) {
            cases.push(mk(&[o], "typed-entry"));
        }
        for a in &ops {
            for b in &ops {
                if a.starts_with("clone") || b.starts_with("clone") {
                    cases.push(mk(&[a, b], "len2-clone"));
                }
            }
        }
        let n3 = if tier == Tier::Quick { 10_000 } else { 600_000 };
        for _ in 0..n3 {
            let h = [rng.pick(&ops), rng.pick(&ops), rng.pick(&ops)];
            cases.push(mk(&h, "len3"));
        }
        let n_long = if tier == Tier::Quick { 300 } else { 10_000 };
        for _ in 0..n_long {
            let h: Vec<&String> = (0..60).map(|_| rng.pick(&ops)).collect();
            let mut lines = vec!["new 0 hm".to_string(), "new 1 hm".to_string()];
            for op in &h {
                lines.push((*op).clone());
                observe(&mut lines);
            }
            cases.push(Case { impl_lines: lines.clone(), drv_lines: lines, human: h.iter().map(|s| describe(s)).collect::<Vec<_>>().join(" ; "), bucket: "long".into() });
        }
        cases.push(Case { impl_lines: vec![], drv_lines: vec![], human: format!("(state space explored: {} abstract states x {} operations)", n_states, single.len()), bucket: format!("bfs-states-{}", n_states) });
        (cases, n_states < 5000)
    }
    fn judge(&self, case: &Case, out: &Outcome) -> Verdict {
        let mut rejected = false;
        for i in 0..case.impl_lines.len() {
            let (a, b) = (&out.impl_resp[i], &out.drv_resp[i]);
            if a.starts_with("err Expected") {
                rejected = true;
            }
            // the abstract map model is the reference: return values (errors by variant and payload) and complete state
            if a != b {
                return Verdict::SpecViolation(format!(
                    "after `{}` (step {}): the real context answers `{}`, the abstract map model `{}`",
                    describe(&case.impl_lines[i]),
                    i,
                    a,
                    b
                ));
            }
        }
        Verdict::Pass { nontrivial: if rejected { Some(case.human.clone()) } else { None }, class: if rejected { "type-rejected".into() } else { "accepted".into() } }
    }
    fn extra(&self, _tier: Tier, _rng: &mut Rng) -> (usize, Vec<(String, String)>, Vec<String>) {
        // "whether through the API or …": the `context_map!` macro is the API's other way to bind; a context built by it
        // must be the context built by the same set_value / set_function calls, and report the first failing binding
        use evalexpr::{context_map, Context, ContextWithMutableFunctions, ContextWithMutableVariables, DefaultNumericTypes, EvalexprError, Function, HashMapContext, IterateVariablesContext};
        type Ctx = HashMapContext<DefaultNumericTypes>;
        fn listing(c: &Ctx) -> String {
            let mut v: Vec<String> = c.iter_variables().map(|(k, v)| format!("{}={}", k, enc_value(&v))).collect();
            v.sort();
            v.join(",")
        }
        let mut viol = Vec::new();
        let mut n = 0usize;
        let mut check = |what: &str, got: Result<Ctx, EvalexprError>, want: Result<Ctx, EvalexprError>| {
            n += 1;
            let show = |r: &Result<Ctx, EvalexprError>| match r {
                Ok(c) => format!("ok {} | f:{} | nb:{:?}", listing(c), enc_res(&c.call_function("f", &Value::Int(3)), enc_value), c.call_function("len", &Value::String("ab".into())).is_ok()),
                Err(e) => format!("err {}", enc_err(e)),
            };
            if show(&got) != show(&want) {
                viol.push((what.to_string(), format!("context_map! gives `{}`, the same bindings through set_value / set_function give `{}`", show(&got), show(&want))));
            }
        };
        let by_api = |binds: &[(&str, Value)], with_f: bool| -> Result<Ctx, EvalexprError> {
            let mut c = Ctx::new();
            for (k, v) in binds {
                c.set_value(k.to_string(), v.clone())?;
            }
            if with_f {
                c.set_function("f".into(), Function::new(|v| Ok(Value::Int(v.as_int()? * 2))))?;
            }
            Ok(c)
        };
        check("empty", context_map! {}, by_api(&[], false));
        check("int, float, value, trailing comma", context_map! { "a" => int 1, "b" => float 2.5, "c" => Value::from("s"), }, by_api(&[("a", Value::Int(1)), ("b", Value::Float(2.5)), ("c", Value::String("s".into()))], false));
        check("no trailing comma", context_map! { "a" => int 1, "t" => Value::Tuple(vec![Value::Int(1), Value::Empty]) }, by_api(&[("a", Value::Int(1)), ("t", Value::Tuple(vec![Value::Int(1), Value::Empty]))], false));
        check("function last", context_map! { "a" => int 7, "f" => Function::new(|v| Ok(Value::Int(v.as_int()? * 2))) }, by_api(&[("a", Value::Int(7))], true));
        check("function first", context_map! { "f" => Function::new(|v| Ok(Value::Int(v.as_int()? * 2))), "z" => float 0.0, "e" => Value::Empty }, by_api(&[("z", Value::Float(0.0)), ("e", Value::Empty)], true));
        check("same key twice, same type: last wins", context_map! { "a" => int 1, "a" => int 2 }, by_api(&[("a", Value::Int(1)), ("a", Value::Int(2))], false));
        check("same key twice, other type: rejected", context_map! { "a" => int 1, "b" => int 5, "a" => float 2.0 }, by_api(&[("a", Value::Int(1)), ("b", Value::Int(5)), ("a", Value::Float(2.0))], false));
        check("single value", context_map! { "x" => Value::Boolean(true) }, by_api(&[("x", Value::Boolean(true))], false));
        check("single int", context_map! { "x" => int 3 }, by_api(&[("x", Value::Int(3))], false));
        check("single float", context_map! { "x" => float 3 }, by_api(&[("x", Value::Float(3.0))], false));
        (n, viol, vec!["context_map-vs-api".into()])
    }
}

/// protocol line -> readable operation
fn describe(line: &str) -> String {
    let parts: Vec<&str> = line.split(' ').collect();
    match parts.as_slice() {
        ["setv", s, n, v] => format!("[{}] set_value({}, {})", s, unx(n), v),
        ["eval", s, m, _, _, src] => format!("[{}] eval_{}({:?})", s, m, unx(src)),
        ["getv", s, n] => format!("[{}] get_value({})", s, unx(n)),
        ["setf", s, n, f] => format!("[{}] set_function({}, {})", s, unx(n), f),
        ["callf", s, n, v] => format!("[{}] call_function({}, {})", s, unx(n), v),
        _ => line.to_string(),
    }
}
