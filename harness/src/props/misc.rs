//! C01 (never panics), C15 (thread safety), C16 (serde round trips).
use super::*;
use crate::codec::*;
use crate::gen::*;
use evalexpr::*;
#[cfg(feature = "c15threads")]
use std::sync::Arc;

// ----------------------------------------------------------------------------- C01

pub struct C01;

const TOKENS: [&str; 22] = [
    "1", "2.5", "x", "f", "\"s\"", "true", "+", "-", "*", "/", "%", "^", "==", "&&", "!", "=", "+=", "(", ")", ",", ";", "shl",
];

fn c01_case(src: &str, bucket: &str) -> Case {
    let lines = vec![
        "new 0 hm".to_string(),
        format!("setv 0 {} I9223372036854775807", xarg("x")),
        format!("setf 0 {} id", xarg("f")),
        format!("eval 0 mut s value {}", xarg(src)),
        format!("eval 0 ro t number {}", xarg(src)),
        format!("iter {}", xarg(src)),
        format!("tok {}", xarg(src)),
        "new 1 emptyb".to_string(),
        format!("eval 1 ro s tuple {}", xarg(src)),
        "new 2 empty".to_string(),
        format!("eval 2 ro s value {}", xarg(src)),
    ];
    Case { impl_lines: lines.clone(), drv_lines: lines, human: format!("{:?}", src), bucket: bucket.into() }
}

pub fn worst_cases() -> Vec<(String, String)> {
    vec![
        ("minus x4095".into(), format!("{}1", "-".repeat(4095))),
        ("not x4095".into(), format!("{}true", "!".repeat(4095))),
        ("lparen x2047".into(), format!("{}1{}", "(".repeat(2047), ")".repeat(2047))),
        ("a= x2047".into(), format!("{}1", "a=".repeat(2047))),
        ("f x2047".into(), format!("{}1", "f ".repeat(2047))),
        ("(1, x1023".into(), format!("{}1{}", "(1,".repeat(1023), ")".repeat(1023))),
        ("1+ x2047".into(), format!("{}1", "1+".repeat(2047))),
        ("1^ x2047".into(), format!("{}1", "1^".repeat(2047))),
        ("; x4096".into(), ";".repeat(4096)),
        (", x4096".into(), ",".repeat(4096)),
        ("quote x4096".into(), format!("\"{}", "\\\"".repeat(2047))),
    ]
}

/// `harness deep`: the maximal nestings of a 4096-character input on a thread with the default 8 MiB main-thread stack
pub fn deep_main() -> i32 {
    let h = std::thread::Builder::new()
        .stack_size(8 << 20)
        .spawn(|| {
            let mut ctx = HashMapContext::<DefaultNumericTypes>::new();
            ctx.set_function("f".into(), Function::new(|v| Ok(v.clone()))).unwrap();
            for (name, src) in worst_cases() {
                let r = std::panic::catch_unwind(std::panic::AssertUnwindSafe(|| {
                    use std::io::Write;
                    let at = |what: &str| {
                        println!("at `{}` through {}", name, what);
                        let _ = std::io::stdout().flush();
                    };
                    at("build_operator_tree");
                    let t = build_operator_tree::<DefaultNumericTypes>(&src);
                    if let Ok(t) = &t {
                        at("iterators / Debug / Display / clone of the tree");
                        let _ = t.iter_identifiers().count();
                        let _ = format!("{:?}", t).len();
                        let _ = format!("{}", t).len();
                        let _ = t.clone();
                        at("Node::eval_with_context (immutable)");
                        let _ = t.eval_with_context(&ctx);
                        at("Node::eval_boolean_with_context (immutable, typed)");
                        let _ = t.eval_boolean_with_context(&ctx);
                        at("Node::eval_with_context_mut");
                        let _ = t.eval_with_context_mut(&mut ctx.clone());
                        at("Node::eval");
                        let _ = t.eval();
                        at("Node::eval_with_context on EmptyContextWithBuiltinFunctions");
                        let _ = t.eval_with_context(&EmptyContextWithBuiltinFunctions::<DefaultNumericTypes>::default());
                    }
                    let mut c = ctx.clone();
                    at("eval_with_context_mut");
                    let v = eval_with_context_mut(&src, &mut c);
                    let _ = format!("{:?}", v).len();
                    at("eval_with_context (immutable)");
                    let _ = eval_with_context(&src, &ctx);
                    at("eval_int_with_context (immutable, typed)");
                    let _ = eval_int_with_context(&src, &ctx);
                    at("eval");
                    let _ = eval(&src);
                }));
                if r.is_err() {
                    println!("PANIC {}", name);
                    return 3;
                }
                println!("ok {}", name);
            }
            0
        })
        .unwrap();
    h.join().unwrap_or(4)
}

/// `harness k1`: known finding K1 — exponential value growth within the 4096-character bound
pub fn k1_main() -> i32 {
    let mut src = String::from("a = \"xxxxxxxxxxxxxxxx\"");
    while src.len() + 8 <= 4096 {
        src.push_str("; a += a");
    }
    let r = eval(&src);
    println!("returned: {}", r.is_ok());
    0
}

/// `harness k3`: known finding K3 — a deeply nested VALUE (not expression) bound in a context exhausts the stack
pub fn k3_main() -> i32 {
    let h = std::thread::Builder::new()
        .stack_size(8 << 20)
        .spawn(|| {
            let mut v = Value::Int(1);
            for _ in 0..400_000 {
                v = Value::Tuple(vec![v]);
            }
            let mut ctx = HashMapContext::<DefaultNumericTypes>::new();
            ctx.set_value("x".into(), v).unwrap();
            let r = eval_with_context("typeof(x)", &ctx);
            println!("returned: {}", r.is_ok());
            // the value is leaked on purpose: dropping it recurses as well
            std::mem::forget(ctx);
        })
        .unwrap();
    let _ = h.join();
    0
}

impl Property for C01 {
    fn id(&self) -> &'static str {
        "C01"
    }
    fn rule(&self) -> String {
        "all token strings up to a length bound over a 22-token alphabet and random Unicode strings mixing token fragments, quotes, comment markers, multi-byte and whitespace characters (up to 4096 chars), each through tokenize, precompile, \
         the iterators, Display/Debug, mutable / read-only / typed evaluation in HashMapContext (extreme integer bound), EmptyContext and EmptyContextWithBuiltinFunctions; every builtin on every pool value and pair plus its own edge family (every shift amount -70..70, every index pair over multi-byte strings, min / max over the edge pools, membership matrices); the maximal nestings of a 4096-char input through every kind of entry point in subprocesses with an 8 MiB stack (built with opt-level 1 and with the default dev profile, opt-level 0); \
         in the dev profile (overflow checks on; thorough: also release). plus Display / Debug of every error the public constructors can build with edge payloads (empty / long lists, extreme counts, odd names). A case passes if nothing panics or aborts. non-trivial = the input builds a tree; distinct = distinct input"
            .into()
    }
    fn cases(&self, tier: Tier, rng: &mut Rng) -> (Vec<Case>, bool) {
        let mut cases = Vec::new();
        let maxlen = if tier == Tier::Quick { 3 } else { 4 };
        for len in 1..=maxlen {
            let total = TOKENS.len().pow(len as u32);
            for mut k in 0..total {
                let mut parts = Vec::new();
                for _ in 0..len {
                    parts.push(TOKENS[k % TOKENS.len()]);
                    k /= TOKENS.len();
                }
                cases.push(c01_case(&parts.join(" "), &format!("tokens-len{}", len)));
            }
        }
        let frags = [
            "1", "x", "f", "+", "-", "*", "/", "%", "^", "=", "==", "!", "!=", "<", ">=", "&&", "||", "&", "|", "(", ")", ",", ";", "\"", "\\", "/*", "*/", "//", "\n", " ", "\t",
            "ä", "😀", "\u{a0}", "\u{3000}", "1e", "1e-", ".5", "0x", "0xFF", "9223372036854775808", "1e999", "true", "shl(1,64)", "math::abs(-9223372036854775807-1)",
            "str::substring(\"äb\",1)", "min()", "if(true,1)", "len(1)", "a=", "+=", "-9223372036854775807-2", "9223372036854775807*2", "1/0", "1%0", "\"a\"+1",
        ];
        let n_rand = if tier == Tier::Quick { 20_000 } else { 600_000 };
        for i in 0..n_rand {
            let n = if i % 50 == 0 { 200 + rng.below(600) } else { 1 + rng.below(14) };
            let mut s = String::new();
            for _ in 0..n {
                if rng.chance(1, 12) {
                    s.push(char::from_u32(rng.below(0x3000) as u32).unwrap_or('?'));
                } else {
                    s.push_str(*rng.pick(&frags));
                }
                if s.len() > 4000 {
                    break;
                }
            }
            cases.push(c01_case(&s, "random"));
        }
        // long names and long string literals with a multi-byte character at every byte offset up to 70 (messages that
        // abbreviate, pad or slice what they quote), unbound and bound, as variable, function and string
        for k in 0..70 {
            for ch in ["é", "€", "😀"] {
                let name = format!("{}{}{}", "a".repeat(k), ch, "b".repeat(3));
                for src in [name.clone(), format!("{}(1)", name), format!("{} = 1; {} + true", name, name), format!("\"{}\" + 1", name), format!("len({})", name)] {
                    cases.push(c01_case(&src, "long-names"));
                }
            }
        }
        // escape-like sequences with long numeric payloads inside string literals (`\u{…}`, `\x…`, `\123`: whatever an
        // escape syntax accumulates must not overflow), for every ASCII character after the backslash
        for x in 33u8..=126 {
            for payload in [
                "", "0", "41", "{}", "{", "{0}", "{41}", "{10FFFF}", "{110000}", "{D800}", "{FFFFFFFF}", "{100000000}", "{100000041}", "{FFFFFFFFFFFFFFFFF}",
                "{99999999999999999999}", "100000000", "FFFFFFFFFFFFFFFFF", "99999999999999999999", "{-1}", "{1", "777777777777777777777777",
            ] {
                cases.push(c01_case(&format!("\"a\\{}{}b\"", x as char, payload), "escapes"));
            }
        }
        // operators on every pair of edge integers and on mixed pairs (overflow, MIN / -1, MIN % -1, shifts of the exponent…)
        let ints = int_pool();
        for op in ["+", "-", "*", "/", "%", "^", "<", "=="] {
            for a in &ints {
                for b in &ints {
                    let lines = vec![
                        "new 0 hm".to_string(),
                        format!("setv 0 {} I{}", xarg("a"), a),
                        format!("setv 0 {} I{}", xarg("b"), b),
                        format!("eval 0 ro s value {}", xarg(&format!("a {} b", op))),
                        format!("eval 0 mut s value {}", xarg(&format!("a {}= b; a", op))),
                        format!("eval 0 mut s value {}", xarg("-a - -b")),
                    ];
                    cases.push(Case { impl_lines: lines.clone(), drv_lines: lines, human: format!("a {} b with a = {}, b = {}", op, a, b), bucket: "operators".into() });
                }
            }
        }
        // builtins on everything
        let pool = value_pool();
        let pool2 = small_pool();
        for name in super::builtins::BUILTINS {
            for v in &pool {
                cases.push(super::builtins::builtin_case(name, v, "builtin1"));
            }
            for a in &pool2 {
                for b in &pool2 {
                    cases.push(super::builtins::builtin_case(name, &Value::Tuple(vec![a.clone(), b.clone()]), "builtin2"));
                }
            }
        }
        cases.extend(super::builtins::targeted_cases());
        (cases, false)
    }
    fn judge(&self, case: &Case, out: &Outcome) -> Verdict {
        for (i, r) in out.impl_resp.iter().enumerate() {
            if r.contains("PANIC[") {
                return Verdict::SpecViolation(format!("`{}` panics: {}", describe_line(&case.impl_lines[i]), r));
            }
        }
        for i in 0..out.impl_resp.len() {
            // slice: {returns, panics} x {Ok, Err}
            let (a, b) = (&out.impl_resp[i], &out.drv_resp[i]);
            if b.contains("PANIC[") || a.starts_with("ok") != b.starts_with("ok") {
                return Verdict::ModelMismatch(format!("`{}`: impl `{}` model `{}`", case.impl_lines[i], a, b));
            }
        }
        let builds = out.impl_resp.iter().any(|r| r.starts_with("ok"));
        Verdict::Pass { nontrivial: if builds { Some(case.human.clone()) } else { None }, class: class_of(eval_result(&out.impl_resp[out.impl_resp.len().min(4) - 1])) }
    }
    fn extra(&self, _tier: Tier, _rng: &mut Rng) -> (usize, Vec<(String, String)>, Vec<String>) {
        let mut viol = Vec::new();
        let mut notes = Vec::new();
        let exe = std::env::current_exe().unwrap();
        // deep nestings in a subprocess: an abort (stack overflow) is an observation, not the death of the check.
        // Twice: this binary (opt-level 1), and the binary built with the default dev profile (opt-level 0, the largest
        // stack frames) that `check` passes in VERIF_DEEP_EXE
        let mut exes = vec![("opt-level 1".to_string(), exe.clone())];
        if let Ok(p) = std::env::var("VERIF_DEEP_EXE") {
            exes.push(("default dev profile, opt-level 0".to_string(), std::path::PathBuf::from(p)));
        }
        for (label, e) in exes {
            match std::process::Command::new(&e).arg("deep").output() {
                Ok(o) => {
                    let text = String::from_utf8_lossy(&o.stdout).to_string();
                    let done = text.lines().filter(|l| l.starts_with("ok ")).count();
                    if !o.status.success() {
                        let next = text.lines().filter(|l| l.starts_with("at ")).last().unwrap_or("").to_string();
                        viol.push((
                            format!("worst-case nesting {} (4096 chars, 8 MiB stack, {})", next, label),
                            format!("subprocess ended with {:?}: {}", o.status, text.lines().last().unwrap_or("")),
                        ));
                    } else {
                        notes.push(format!("deep-nesting-cases-ok-{}-{}", done, label.replace(' ', "-").replace(',', "")));
                    }
                },
                Err(err) => viol.push(("deep subprocess".into(), err.to_string())),
            }
        }
        // every error a user function (or user code) can construct through the public API, with edge payloads, must format
        // with Display and Debug without unwinding; the same for values of every shape
        {
            use evalexpr::{EvalexprError as E, ValueType};
            type V = evalexpr::Value<DefaultNumericTypes>;
            let vals: Vec<V> = vec![
                V::Empty, V::Tuple(vec![]), V::Tuple(vec![V::Tuple(vec![])]), V::Tuple(vec![V::Int(1)]), V::String(String::new()), V::String("é".repeat(40)),
                V::Float(f64::NAN), V::Float(-0.0), V::Float(f64::MIN_POSITIVE / 2.0), V::Float(f64::MAX), V::Int(i64::MIN), V::Boolean(true),
                V::Tuple(vec![V::Int(1), V::Tuple(vec![V::String("a\"b".into()), V::Empty])]),
            ];
            let all_types = vec![ValueType::String, ValueType::Float, ValueType::Int, ValueType::Boolean, ValueType::Tuple, ValueType::Empty];
            let mut zoo: Vec<(String, E)> = Vec::new();
            for (i, v) in vals.iter().enumerate() {
                for k in 0..=all_types.len() {
                    zoo.push((format!("type_error(v{}, {} expected types)", i, k), E::type_error(v.clone(), all_types[..k].to_vec())));
                }
                zoo.push((format!("expected_string(v{})", i), E::expected_string(v.clone())));
                zoo.push((format!("expected_int(v{})", i), E::expected_int(v.clone())));
                zoo.push((format!("expected_float(v{})", i), E::expected_float(v.clone())));
                zoo.push((format!("expected_number(v{})", i), E::expected_number(v.clone())));
                zoo.push((format!("expected_number_or_string(v{})", i), E::expected_number_or_string(v.clone())));
                zoo.push((format!("expected_boolean(v{})", i), E::expected_boolean(v.clone())));
                zoo.push((format!("expected_tuple(v{})", i), E::expected_tuple(v.clone())));
                zoo.push((format!("expected_empty(v{})", i), E::expected_empty(v.clone())));
                for n in [0usize, 1, usize::MAX] {
                    zoo.push((format!("expected_fixed_len_tuple({}, v{})", n, i), E::expected_fixed_len_tuple(n, v.clone())));
                    zoo.push((format!("expected_ranged_len_tuple({}..=MAX, v{})", n, i), E::expected_ranged_len_tuple(n..=usize::MAX, v.clone())));
                    zoo.push((format!("expected_ranged_len_tuple(reversed, v{})", i), E::expected_ranged_len_tuple(usize::MAX..=n, v.clone())));
                }
                for w in &vals {
                    zoo.push((format!("wrong_type_combination(v{}, ..)", i), E::wrong_type_combination(evalexpr::Operator::Add, vec![ValueType::from(v), ValueType::from(w)])));
                }
                // the value itself: formatted under catch_unwind like the errors
                let shown = std::panic::catch_unwind(std::panic::AssertUnwindSafe(|| format!("{} {:?}", v, v)));
                match shown {
                    Ok(text) => zoo.push((format!("value v{}", i), E::CustomMessage(text))),
                    Err(_) => viol.push((format!("Display / Debug of the value v{} = {}", i, enc_value(v)), "formatting panics".to_string())),
                }
            }
            zoo.push(("wrong_type_combination(no types)".into(), E::wrong_type_combination(evalexpr::Operator::Neg, vec![])));
            for (a, b) in [(0usize, 0usize), (usize::MAX, 0), (0, usize::MAX), (3, 3)] {
                zoo.push((format!("wrong_operator_argument_amount({}, {})", a, b), E::wrong_operator_argument_amount(a, b)));
                zoo.push((format!("wrong_function_argument_amount({}, {})", a, b), E::wrong_function_argument_amount(a, b)));
                zoo.push((format!("wrong_function_argument_amount_range({}, {}..={})", a, b, a), E::wrong_function_argument_amount_range(a, b..=a)));
            }
            for name in ["", "é", &"é".repeat(40), &format!("{}é", "a".repeat(31)), "a\"b\\c\n", "\u{202e}x", "\u{0}"] {
                zoo.push((format!("VariableIdentifierNotFound({:?})", name), E::VariableIdentifierNotFound(name.to_string())));
                zoo.push((format!("FunctionIdentifierNotFound({:?})", name), E::FunctionIdentifierNotFound(name.to_string())));
                zoo.push((format!("IllegalEscapeSequence({:?})", name), E::IllegalEscapeSequence(name.to_string())));
                zoo.push((format!("CustomMessage({:?})", name), E::CustomMessage(name.to_string())));
                zoo.push((format!("invalid_regex({:?})", name), E::invalid_regex(name.to_string(), name.to_string())));
            }
            for e in [E::AppendedToLeafNode, E::PrecedenceViolation, E::UnmatchedLBrace, E::UnmatchedRBrace, E::UnmatchedDoubleQuote, E::MissingOperatorOutsideOfBrace, E::ContextNotMutable, E::BuiltinFunctionsCannotBeEnabled, E::BuiltinFunctionsCannotBeDisabled, E::OutOfBoundsAccess, E::RandNotEnabled] {
                zoo.push((format!("{:?}", e), e));
            }
            let n_zoo = zoo.len();
            for (what, e) in zoo {
                let r = std::panic::catch_unwind(std::panic::AssertUnwindSafe(|| format!("{} {:?}", e, e).len()));
                if r.is_err() {
                    viol.push((format!("Display / Debug of the error built by {}", what), "formatting panics".to_string()));
                }
            }
            notes.push(format!("error-zoo-{}", n_zoo));
        }
        // known finding K1: memory exhaustion by doubling, under a 2 GiB address-space limit
        let k1 = std::process::Command::new("sh")
            .arg("-c")
            .arg(format!("ulimit -v 524288; exec {} k1", exe.display()))
            .output();
        if let Ok(o) = k1 {
            if !o.status.success() {
                viol.push((
                    "K1: a = \"x…\"; a += a; … (doubling within 4096 chars)".into(),
                    format!("K1: the process aborts on memory exhaustion ({:?})", o.status),
                ));
            } else {
                notes.push("k1-did-not-abort".into());
            }
        }
        // known finding K3: a value nested 400 000 levels deep, bound through the API, evaluated on an 8 MiB stack
        if let Ok(o) = std::process::Command::new(&exe).arg("k3").output() {
            if !o.status.success() {
                viol.push((
                    "K3: x = ((((…1…)))) nested 400 000 levels deep (bound with set_value); typeof(x)".into(),
                    format!("K3: the process aborts on stack exhaustion in the recursive Clone of the value ({:?})", o.status),
                ));
            } else {
                notes.push("k3-did-not-abort".into());
            }
        }
        (worst_cases().len() + 2, viol, notes)
    }
}

fn describe_line(line: &str) -> String {
    let parts: Vec<&str> = line.split(' ').collect();
    match parts.last() {
        Some(x) if x.starts_with('x') => format!("{} {:?}", parts[..parts.len() - 1].join(" "), unx(x)),
        _ => line.to_string(),
    }
}

// ----------------------------------------------------------------------------- C15

pub struct C15;

/// compile-time: the public data types are Send + Sync (a compile error here is the violation)
#[cfg(feature = "c15threads")]
#[allow(dead_code)]
fn assert_send_sync() {
    fn check<T: Send + Sync>() {}
    check::<Node>();
    check::<Value>();
    check::<EvalexprError>();
    check::<Function<DefaultNumericTypes>>();
    check::<Operator>();
    check::<HashMapContext>();
    check::<EmptyContext<DefaultNumericTypes>>();
    check::<EmptyContextWithBuiltinFunctions<DefaultNumericTypes>>();
}

fn shared_programs(rng: &mut Rng, n: usize) -> Vec<String> {
    let mut v: Vec<String> = vec![
        "a + 1", "f(a) * 2", "math::sqrt(a)", "(a, \"s\", f(3))", "a == 1 && true", "len(\"äb\") + a", "zz", "1/0", "a = 2", "min(a, 2.5, 3)",
        "str::from(a, 1.5)", "g(1) + g(2)", "if(a == 1, \"y\", \"n\")",
    ]
    .into_iter()
    .map(String::from)
    .collect();
    for i in 0..n {
        v.push(if i % 4 == 0 { super::evalprops::random_program(rng, 3) } else { super::evalprops::pure_program(rng, 3).replace("b = (", "(").replace("); b", ")") });
    }
    v
}

impl Property for C15 {
    fn id(&self) -> &'static str {
        "C15"
    }
    fn rule(&self) -> String {
        "compile-time Send + Sync assertions for the 8 public types; 2..16 threads share one Arc<Node> per program and one Arc<context> of each kind (HashMapContext with variables and user functions, EmptyContext, EmptyContextWithBuiltinFunctions) \
         and evaluate every program of a batch (incl. 80 programs over the optional regex builtins with several patterns in flight) concurrently: each result must equal the sequential result; 96 threads, each 1000 operator levels deep and parked inside one user function at the same instant, each still get the sequential result; the sequential read-only results also go through the model correspondence. non-trivial = evaluation succeeds; distinct = distinct program"
            .into()
    }
    fn cases(&self, tier: Tier, rng: &mut Rng) -> (Vec<Case>, bool) {
        let progs = shared_programs(rng, if tier == Tier::Quick { 500 } else { 20_000 });
        let cases = progs
            .iter()
            .map(|p| {
                let lines = vec![
                    "new 0 hm".to_string(),
                    format!("setf 0 {} id", xarg("f")),
                    format!("setf 0 {} inc", xarg("g")),
                    format!("setv 0 {} I1", xarg("a")),
                    format!("eval 0 ro t value {}", xarg(p)),
                    format!("eval 0 ro t value {}", xarg(p)),
                    "dump 0".to_string(),
                ];
                Case { impl_lines: lines.clone(), drv_lines: lines, human: format!("{:?}", p), bucket: "sequential".into() }
            })
            .collect();
        (cases, false)
    }
    fn judge(&self, case: &Case, out: &Outcome) -> Verdict {
        if out.impl_resp[4] != out.impl_resp[5] {
            return Verdict::SpecViolation(format!("two read-only evaluations of the same shared tree and context differ: `{}` vs `{}`", out.impl_resp[4], out.impl_resp[5]));
        }
        for i in 0..case.impl_lines.len() {
            let (a, b) = (&out.impl_resp[i], &out.drv_resp[i]);
            let same = if case.impl_lines[i].starts_with("eval") { same_value_or_class(a, b) } else { a == b };
            if !same {
                return Verdict::ModelMismatch(format!("`{}`: impl `{}` model `{}`", case.impl_lines[i], a, b));
            }
        }
        let r = eval_result(&out.impl_resp[4]);
        Verdict::Pass { nontrivial: if r.starts_with("ok") { Some(case.human.clone()) } else { None }, class: class_of(r) }
    }
    #[cfg(not(feature = "c15threads"))]
    fn extra(&self, _tier: Tier, _rng: &mut Rng) -> (usize, Vec<(String, String)>, Vec<String>) {
        (0, vec![("harness build".into(), "this harness binary was built without the `c15threads` feature: the Send/Sync assertions and the thread checks did not run".into())], vec![])
    }
    #[cfg(feature = "c15threads")]
    fn extra(&self, tier: Tier, rng: &mut Rng) -> (usize, Vec<(String, String)>, Vec<String>) {
        let mut progs = shared_programs(rng, if tier == Tier::Quick { 400 } else { 4000 });
        // the optional `regex` builtins (feature enabled in the harness build; not part of the Lean model): several
        // patterns in flight at once, so that any state shared between calls shows
        for i in 0..40 {
            let (p, q) = (["^a+$", "^b+$", "[0-9]+", "a|b", "^$", "(a)(b)?"][i % 6], ["^b+$", "[a-c]+", "^a", "x*", "a{2,}"][i % 5]);
            progs.push(format!("(str::regex_matches(\"aaaa\", \"{}\"), str::regex_matches(\"aaaa\", \"{}\"), str::regex_replace(\"abc123def\", \"{}\", \"#\"))", p, q, p));
            progs.push(format!("if(str::regex_matches(\"ab{}\", \"{}\"), str::regex_replace(\"x1y22\", \"{}\", \"-\"), \"no\")", i, q, p));
        }
        let trees: Vec<(String, Arc<Node>)> = progs
            .iter()
            .filter_map(|p| build_operator_tree::<DefaultNumericTypes>(p).ok().map(|t| (p.clone(), Arc::new(t))))
            .collect();
        let mut hm = HashMapContext::<DefaultNumericTypes>::new();
        hm.set_value("a".into(), Value::Int(1)).unwrap();
        hm.set_function("f".into(), Function::new(|v| Ok(v.clone()))).unwrap();
        hm.set_function("g".into(), Function::new(|v| Ok(Value::Int(v.as_int()? + 1)))).unwrap();
        let hm = Arc::new(hm);
        let empty = Arc::new(EmptyContext::<DefaultNumericTypes>::default());
        let emptyb = Arc::new(EmptyContextWithBuiltinFunctions::<DefaultNumericTypes>::default());
        let seq: Vec<[String; 3]> = trees
            .iter()
            .map(|(_, t)| {
                [
                    enc_res(&t.eval_with_context(&*hm), enc_value),
                    enc_res(&t.eval_with_context(&*empty), enc_value),
                    enc_res(&t.eval_with_context(&*emptyb), enc_value),
                ]
            })
            .collect();
        let trees = Arc::new(trees);
        let seq = Arc::new(seq);
        let mut viol = Vec::new();
        let mut evals = 0usize;
        let rounds = if tier == Tier::Quick { 3 } else { 20 };
        for round in 0..rounds {
            let nthreads = [2usize, 4, 8, 16][round % 4];
            let mut hs = Vec::new();
            for tid in 0..nthreads {
                let (trees, seq, hm, empty, emptyb) = (trees.clone(), seq.clone(), hm.clone(), empty.clone(), emptyb.clone());
                hs.push(std::thread::spawn(move || {
                    let mut bad = Vec::new();
                    let n = trees.len();
                    for k in 0..n {
                        // different threads walk the batch in different orders
                        let i = (k * (2 * tid + 1) + tid * 7) % n;
                        let (src, t) = &trees[i];
                        let got = [
                            enc_res(&t.eval_with_context(&*hm), enc_value),
                            enc_res(&t.eval_with_context(&*empty), enc_value),
                            enc_res(&t.eval_with_context(&*emptyb), enc_value),
                        ];
                        if got != seq[i] {
                            bad.push((format!("{:?} on {} threads", src, "shared"), format!("concurrent result {:?}, sequential {:?}", got, seq[i])));
                        }
                    }
                    (n * 3, bad)
                }));
            }
            for h in hs {
                if let Ok((n, bad)) = h.join() {
                    evals += n;
                    viol.extend(bad);
                } else {
                    viol.push(("thread".into(), "an evaluating thread panicked".into()));
                }
            }
        }
        // many threads INSIDE a user function / a builtin at the same instant (the function parks until all have arrived, or
        // 3 s have passed): each evaluation must still give its sequential result — nothing may count or limit callers globally
        {
            use std::sync::atomic::{AtomicUsize, Ordering};
            let n_threads = 96usize;
            let arrived = Arc::new(AtomicUsize::new(0));
            let mut ctx = HashMapContext::<DefaultNumericTypes>::new();
            ctx.set_value("x".into(), Value::Int(35)).unwrap();
            let a2 = arrived.clone();
            ctx.set_function(
                "hold".into(),
                Function::new(move |v| {
                    a2.fetch_add(1, Ordering::SeqCst);
                    let t0 = std::time::Instant::now();
                    while a2.load(Ordering::SeqCst) < n_threads && t0.elapsed().as_millis() < 3000 {
                        std::thread::yield_now();
                    }
                    Ok(v.clone())
                }),
            )
            .unwrap();
            ctx.set_function("id".into(), Function::new(|v| Ok(v.clone()))).unwrap();
            let ctx = Arc::new(ctx);
            // … and each of them 1000 operator levels deep (an even number of negations): no budget may be shared between threads
            let src = format!("{}(hold(7) + id(x) + math::sqrt(16) + len(\"abc\"))", "-".repeat(1000));
            let tree = Arc::new(build_operator_tree::<DefaultNumericTypes>(&src).unwrap());
            let want = "ok F4048800000000000".to_string(); // 7 + 35 + 4.0 + 3 = 49.0
            let hs: Vec<_> = (0..n_threads)
                .map(|_| {
                    let (tree, ctx) = (tree.clone(), ctx.clone());
                    std::thread::Builder::new().stack_size(8 << 20).spawn(move || enc_res(&tree.eval_with_context(&*ctx), enc_value)).unwrap()
                })
                .collect();
            for (i, h) in hs.into_iter().enumerate() {
                evals += 1;
                match h.join() {
                    Ok(got) if got == want => {},
                    Ok(got) => viol.push((format!("1000 x `-` then `(hold(7) + id(x) + math::sqrt(16) + len(\\\"abc\\\"))` with {} threads inside `hold` at once (thread {})", n_threads, i), format!("concurrent result `{}`, sequential `{}`", got, want))),
                    Err(_) => viol.push(("thread".into(), "an evaluating thread panicked".into())),
                }
            }
        }
        (evals, viol, vec![format!("threads-2-4-8-16-rounds-{}", rounds), "96-threads-parked-inside-a-function-1000-levels-deep".into()])
    }
}

// ----------------------------------------------------------------------------- C16

pub struct C16;

fn ron_string_literal(s: &str) -> String {
    let mut out = String::from("\"");
    for c in s.chars() {
        match c {
            '"' => out.push_str("\\\""),
            '\\' => out.push_str("\\\\"),
            '\n' => out.push_str("\\n"),
            '\r' => out.push_str("\\r"),
            '\t' => out.push_str("\\t"),
            c if (c as u32) < 0x20 => out.push_str(&format!("\\u{{{:x}}}", c as u32)),
            c => out.push(c),
        }
    }
    out.push('"');
    out
}

fn dump_ctx(c: &HashMapContext) -> String {
    let mut vars: Vec<String> = c.iter_variables().map(|(k, v)| format!("{}={}", hex(k.as_bytes()), enc_value(&v))).collect();
    vars.sort();
    format!("vars={} nb={}", vars.join(","), c.are_builtin_functions_disabled())
}

impl Property for C16 {
    fn id(&self) -> &'static str {
        "C16"
    }
    fn rule(&self) -> String {
        "strings from the program, token-string and random generators (well-formed or not): ron::from_str::<Node> of the string must give the tree build_operator_tree gives, or fail with exactly the Display text of its error; \
         contexts reached by random API/expression histories (every value type, nested tuples, -0.0, subnormals, infinities, the canonical NaN, builtin switch on/off, user functions present): ron::to_string then from_str must give identical variables (floats by bits) and switch, and no function. \
         The protocol cases check the model's deserializeNode = buildOperatorTree on the same strings. non-trivial = the string builds / the context has at least one variable; distinct = distinct input"
            .into()
    }
    fn cases(&self, tier: Tier, rng: &mut Rng) -> (Vec<Case>, bool) {
        let srcs = super::evalprops::interesting_sources(rng, if tier == Tier::Quick { 500 } else { 20_000 });
        let cases = srcs
            .iter()
            .map(|p| {
                let lines = vec![format!("tree {}", xarg(p))];
                Case { impl_lines: lines.clone(), drv_lines: lines, human: format!("{:?}", p), bucket: "node".into() }
            })
            .collect();
        (cases, false)
    }
    fn judge(&self, case: &Case, out: &Outcome) -> Verdict {
        let (a, b) = (&out.impl_resp[0], &out.drv_resp[0]);
        if (a.starts_with("ok") || b.starts_with("ok")) && a != b {
            return Verdict::ModelMismatch(format!("impl `{}` model `{}`", a, b));
        }
        Verdict::Pass { nontrivial: if a.starts_with("ok") { Some(case.human.clone()) } else { None }, class: class_of(a) }
    }
    fn extra(&self, tier: Tier, rng: &mut Rng) -> (usize, Vec<(String, String)>, Vec<String>) {
        let mut viol = Vec::new();
        let mut n = 0usize;
        // expressions
        let mut srcs = super::evalprops::interesting_sources(rng, if tier == Tier::Quick { 3000 } else { 100_000 });
        let alphabet = ["1", "x", "+", "(", ")", ",", "\"s\"", "=", "-"];
        for len in 1..=4usize {
            for mut k in 0..alphabet.len().pow(len as u32) {
                let mut parts = Vec::new();
                for _ in 0..len {
                    parts.push(alphabet[k % alphabet.len()]);
                    k /= alphabet.len();
                }
                srcs.push(parts.join(" "));
            }
        }
        for s in ["\"a\\\"b\"", "\"\\q\"", "/*", "1 /* c */ + 2", "ä + 😀", "&", "a\n+\tb"] {
            srcs.push(s.to_string());
        }
        // sequences of near-identical expressions (same text up to whitespace inside strings / around comments), and signed numerals
        for s in [
            "x == \"a b\"", "x == \"a  b\"", "x == \"a\tb\"", "1 //\n+ 2", "1 // + 2", "1 // )", "1 //\n)", "-5", "+5", "-9223372036854775808", " 7 ", "7", "0x10", "1e3",
            "a  +  b", "a + b", "a\n+\nb",
        ] {
            srcs.push(s.to_string());
        }
        // inputs whose error message depends on what follows the offending character, with and without surrounding blanks
        for s in ["a & ", "a |\n", "& ", " &", "a & b", "a | b", "a &", "|", "| ", "a &\t", "a &&", "a && ", "\"abc ", " \"abc", "\"abc\\", "1 /* ", " /*", "a ! ", "a =", "a = "] {
            srcs.push(s.to_string());
        }
        let padded: Vec<String> = srcs.iter().take(600).flat_map(|s| [format!(" {} ", s), format!("{}\n", s), format!("\t{}", s)]).collect();
        srcs.extend(padded);
        let ws_variants: Vec<String> = srcs
            .iter()
            .take(400)
            .map(|s| s.replace(' ', if rng.chance(1, 2) { "  " } else { "\n" }))
            .collect();
        srcs.extend(ws_variants);
        for s in &srcs {
            n += 1;
            let direct = build_operator_tree::<DefaultNumericTypes>(s);
            let de: Result<Node, ron::error::SpannedError> = ron::from_str(&ron_string_literal(s));
            match (&direct, &de) {
                (Ok(a), Ok(b)) => {
                    if enc_node(a) != enc_node(b) {
                        viol.push((format!("{:?}", s), format!("deserialized tree `{}`, precompiled tree `{}`", enc_node(b), enc_node(a))));
                    }
                },
                (Err(e), Err(d)) => {
                    let msg = format!("{}", e);
                    let dmsg = format!("{}", d.code);
                    if dmsg != msg {
                        viol.push((format!("{:?}", s), format!("deserialization fails with `{}`, precompilation with `{}`", dmsg, msg)));
                    }
                },
                (a, b) => viol.push((format!("{:?}", s), format!("precompilation {:?} but deserialization {:?}", a.is_ok(), b.is_ok()))),
            }
        }
        // contexts
        let special = [
            Value::Float(-0.0), Value::Float(f64::from_bits(1)), Value::Float(f64::INFINITY), Value::Float(f64::NEG_INFINITY), Value::Float(f64::NAN),
            Value::Float(f64::MAX), Value::Float(0.1), Value::Int(i64::MIN), Value::Int(i64::MAX), Value::String("ä\"\\\n😀".into()), Value::Empty,
            Value::Tuple(vec![]), Value::Tuple(vec![Value::Int(1), Value::Tuple(vec![Value::String("a".into()), Value::Empty, Value::Float(-0.0)])]), Value::Boolean(true),
        ];
        let rounds = if tier == Tier::Quick { 1500 } else { 60_000 };
        for _ in 0..rounds {
            n += 1;
            let mut c = HashMapContext::<DefaultNumericTypes>::new();
            let k = rng.below(8);
            for i in 0..k {
                let v = if rng.chance(1, 2) { rng.pick(&special).clone() } else { random_value(rng, 2) };
                // a NaN with a payload is not claimed (ron prints NaN as text): use the canonical one
                let v = canon_nan(v);
                let name = ["a", "b", "ä b", "", "x\"y", "min", "c1", "😀", "A", "Ratio", "ratio", "Δt", "δt", "N", "n"][(i + rng.below(7)) % 15];
                let _ = c.set_value(name.to_string(), v);
            }
            if rng.chance(1, 2) {
                let _ = c.set_builtin_functions_disabled(rng.chance(1, 2));
            }
            if rng.chance(1, 2) {
                let _ = c.set_function("f".into(), Function::new(|v| Ok(v.clone())));
                let _ = c.set_function("min".into(), Function::new(|_| Ok(Value::Int(0))));
            }
            if rng.chance(1, 4) {
                let _ = eval_with_context_mut("z = (1, 2.5, \"s\"); y = -0.0", &mut c);
            }
            let text = match ron::to_string(&c) {
                Ok(t) => t,
                Err(e) => {
                    viol.push((dump_ctx(&c), format!("serialization fails: {}", e)));
                    continue;
                },
            };
            let back: HashMapContext = match ron::from_str(&text) {
                Ok(b) => b,
                Err(e) => {
                    viol.push((dump_ctx(&c), format!("deserialization of `{}` fails: {}", text, e)));
                    continue;
                },
            };
            if dump_ctx(&back) != dump_ctx(&c) {
                viol.push((dump_ctx(&c), format!("after the round trip: `{}` (ron: `{}`)", dump_ctx(&back), text)));
            }
            for f in ["f", "min", "a"] {
                match back.call_function(f, &Value::Int(1)) {
                    Err(EvalexprError::FunctionIdentifierNotFound(_)) => {},
                    other => viol.push((dump_ctx(&c), format!("the deserialized context resolves the function `{}`: {:?}", f, other))),
                }
            }
        }
        (n, viol, vec!["ron-node-and-context-roundtrips".into()])
    }
}

fn canon_nan(v: Value) -> Value {
    match v {
        Value::Float(f) if f.is_nan() => Value::Float(f64::NAN),
        Value::Tuple(t) => Value::Tuple(t.into_iter().map(canon_nan).collect()),
        v => v,
    }
}
