//! C06 (literals) and C07 (whitespace and comments) — the tokenizer.
use super::*;
use crate::codec::*;
use crate::gen::*;
use crate::runner::ask_driver;

pub struct C07;

impl Property for C07 {
    fn id(&self) -> &'static str {
        "C07"
    }
    fn rule(&self) -> String {
        "token sequences (well-formed or not) over a 45-token pool — all sequences up to a length bound, random longer ones — each rendered twice by the spec-side renderer with \
         different admissible gap assignments from a 19-separator pool (Unicode whitespace, block and line comments): both renderings must tokenize to exactly the generating tokens \
         and build equal trees / fail with the same error; plus unterminated-comment and comment-inside-string inputs. non-trivial = at least one non-empty gap; distinct = distinct pair of renderings"
            .into()
    }
    fn cases(&self, tier: Tier, rng: &mut Rng) -> (Vec<Case>, bool) {
        let mut reqs = Vec::new();
        let maxlen = if tier == Tier::Quick { 2 } else { 3 };
        let pool: usize = ask_driver(&["gen.poolsize".to_string()], 1).ok().and_then(|a| a.first().and_then(|s| s.trim().parse().ok())).unwrap_or(45);
        for len in 1..=maxlen {
            for i in 0..pool.pow(len as u32) {
                reqs.push(format!("gen.c07sys {} {}", i, len));
            }
        }
        // `<mantissa>e`, sign, non-word token without blanks: three tokens (6 words x 2 signs x 9 followers)
        for i in 0..108 {
            reqs.push(format!("gen.c07tight {}", i));
        }
        let n_rand = if tier == Tier::Quick { 6000 } else { 300_000 };
        for k in 0..n_rand {
            reqs.push(format!("gen.c07 {} {}", rng.next() % (1 << 60), 3 + k % 10));
        }
        let answers = ask_driver(&reqs, 16).unwrap_or_default();
        let mut cases = Vec::new();
        for (req, a) in reqs.iter().zip(answers.iter()) {
            let parts: Vec<&str> = a.splitn(3, ' ').collect();
            if parts.len() < 2 {
                continue;
            }
            let (s1, s2) = (unx(parts[0]), unx(parts[1]));
            let toks = parts.get(2).copied().unwrap_or("");
            let lines = vec![
                format!("tok {}", xarg(&s1)),
                format!("tok {}", xarg(&s2)),
                format!("tree {}", xarg(&s1)),
                format!("tree {}", xarg(&s2)),
            ];
            let mut drv = lines.clone();
            drv.push(format!("#tokens {}", toks));
            cases.push(Case {
                impl_lines: lines,
                drv_lines: drv,
                human: format!("{:?} vs {:?}", s1, s2),
                bucket: if req.starts_with("gen.c07sys") { "systematic".into() } else if req.starts_with("gen.c07tight") { "tight-sign".into() } else { "random".into() },
            });
        }
        // error clauses and strings
        for s in ["/*", "/*/", "1 /* x", "a /* * /", "\"/* x */ // y\"", "1 + /* c */ 2", "1 // c", "a/**/b", "1/**/2", "a//x\nb", "/**/", "//", "/ /"] {
            let lines = vec![format!("tok {}", xarg(s)), format!("tok {}", xarg(s)), format!("tree {}", xarg(s)), format!("tree {}", xarg(s))];
            let mut drv = lines.clone();
            drv.push("#tokens ?".to_string());
            cases.push(Case { impl_lines: lines, drv_lines: drv, human: format!("{:?}", s), bucket: "named".into() });
        }
        (cases, false)
    }
    fn judge(&self, case: &Case, out: &Outcome) -> Verdict {
        let want = case.drv_lines[4].strip_prefix("#tokens ").unwrap_or("?");
        if want != "?" {
            let expect = if want.is_empty() { "ok ".to_string() } else { format!("ok {}", want) };
            for i in 0..2 {
                if out.impl_resp[i] != expect {
                    return Verdict::SpecViolation(format!(
                        "rendering {} tokenizes to `{}`, generated from tokens `{}`",
                        unx(case.impl_lines[i].split(' ').nth(1).unwrap()).escape_debug(),
                        out.impl_resp[i],
                        want
                    ));
                }
            }
            if out.impl_resp[2] != out.impl_resp[3] {
                return Verdict::SpecViolation(format!("the two renderings build `{}` and `{}`", out.impl_resp[2], out.impl_resp[3]));
            }
        } else if case.human.starts_with("\"/*") && !(out.impl_resp[0].contains("CustomMessage")) && !case.human.contains("* /") && case.bucket == "named" && (case.human == "\"/*\"" || case.human == "\"/*/\"" || case.human == "\"1 /* x\"") {
            return Verdict::SpecViolation(format!("unterminated comment gives `{}`", out.impl_resp[0]));
        }
        for i in 0..4 {
            // slice: token lists and trees exactly; errors by variant
            let (a, b) = (&out.impl_resp[i], &out.drv_resp[i]);
            let same = if a.starts_with("ok") || b.starts_with("ok") { a == b } else { err_variant(a) == err_variant(b) };
            if !same {
                return Verdict::ModelMismatch(format!("`{}`: impl `{}` model `{}`", case.impl_lines[i], a, b));
            }
        }
        let nontrivial = if case.human.contains(' ') || case.human.contains('/') { Some(case.human.clone()) } else { None };
        Verdict::Pass { nontrivial, class: class_of(&out.impl_resp[2]) }
    }
}

pub struct C06;

fn quote(body: &str) -> String {
    format!("\"{}\"", body.replace('\\', "\\\\").replace('"', "\\\""))
}

fn is_dec(w: &str) -> bool {
    !w.is_empty() && w.bytes().all(|b| b.is_ascii_digit())
}
fn is_hex(w: &str) -> bool {
    w.len() > 2 && w.starts_with("0x") && w[2..].bytes().all(|b| b.is_ascii_hexdigit())
}
/// FloatLit := (d+ | d+ . d* | . d+) ([eE] [+-]? d+)?   (no sign in a single word, so [+-] never occurs here)
fn is_float_word(w: &str) -> bool {
    let b = w.as_bytes();
    let mut i = 0;
    let mut int_digits = 0;
    while i < b.len() && b[i].is_ascii_digit() {
        i += 1;
        int_digits += 1;
    }
    let mut frac_digits = 0;
    if i < b.len() && b[i] == b'.' {
        i += 1;
        while i < b.len() && b[i].is_ascii_digit() {
            i += 1;
            frac_digits += 1;
        }
    }
    if int_digits + frac_digits == 0 {
        return false;
    }
    if i < b.len() && (b[i] == b'e' || b[i] == b'E') {
        i += 1;
        let start = i;
        while i < b.len() && b[i].is_ascii_digit() {
            i += 1;
        }
        if i == start {
            return false;
        }
    }
    i == b.len()
}

/// the reference classification of a word of literal characters, from the property statement
fn word_reference(w: &str) -> String {
    if is_dec(w) {
        if let Ok(i) = w.parse::<i64>() {
            return format!("I:{}", i);
        }
    }
    if is_hex(w) {
        if let Ok(i) = i64::from_str_radix(&w[2..], 16) {
            return format!("I:{}", i);
        }
    }
    if is_float_word(w) {
        let f: f64 = w.parse().unwrap();
        return format!("F:{:016x}", f.to_bits());
    }
    if w == "true" {
        return "B:t".into();
    }
    if w == "false" {
        return "B:f".into();
    }
    format!("ID:{}", hex(w.as_bytes()))
}

fn tok_case(src: &str, expect: Option<String>, bucket: &str) -> Case {
    let lines = vec![format!("tok {}", xarg(src))];
    let mut drv = lines.clone();
    drv.push(format!("#expect {}", expect.unwrap_or_else(|| "?".into())));
    Case { impl_lines: lines, drv_lines: drv, human: format!("{:?}", src), bucket: bucket.to_string() }
}

fn float_renderings(f: f64) -> Vec<String> {
    let mut v = Vec::new();
    let d = format!("{:?}", f); // shortest, always with `.` or `e`
    v.push(d.clone());
    let e = format!("{:e}", f); // d.ddde[-]x
    v.push(e.clone());
    v.push(e.replace('e', "E"));
    if !e.contains("e-") {
        v.push(e.replace('e', "e+"));
    }
    // leading dot / trailing dot combined with an exponent of either sign: d.ddde x = .dddd e(x+1) = dddd. e(x-#d)
    if let Some((mant, exp)) = e.split_once('e') {
        if let Ok(x) = exp.parse::<i64>() {
            let digits: String = mant.chars().filter(|c| *c != '.').collect();
            let sign = |k: i64| if k < 0 { format!("e-{}", -k) } else { format!("e+{}", k) };
            v.push(format!(".{}{}", digits, sign(x + 1)));
            v.push(format!("{}.{}", digits, sign(x + 1 - digits.len() as i64)));
            v.push(format!(".{}E{}", digits, x + 1).replace("E-", "E-"));
        }
    }
    let fixed = format!("{}", f);
    if fixed.contains('.') {
        v.push(fixed.clone());
        if let Some(r) = fixed.strip_prefix("0.") {
            v.push(format!(".{}", r));
        }
    } else if fixed.len() < 400 {
        v.push(format!("{}.", fixed));
        v.push(format!("{}.0", fixed));
        if fixed.parse::<i64>().is_err() {
            // an integer-looking numeral beyond the i64 range is a float: shortest digits padded with zeros, and the exact
            // decimal expansion (`9223372036854775808` for 2^63)
            v.push(fixed.clone());
            let exact = format!("{:.0}", f);
            if exact != fixed && exact.len() < 400 && exact.parse::<i64>().is_err() {
                v.push(exact);
            }
        }
    }
    v
}

impl Property for C06 {
    fn id(&self) -> &'static str {
        "C06"
    }
    fn rule(&self) -> String {
        "string bodies (all bodies up to a length bound over {a, \", \\, /, *, space, newline, ä, emoji, +} and random Unicode), quoted with \\ and \" escaped, alone and embedded between tokens: must tokenize to exactly that text; \
         other escapes / missing quote: must fail; integers (boundaries, random, leading zeros, hex in both cases): exact; finite non-negative doubles (edge pool + random bit patterns) in up to 11 renderings (shortest, `e`, `E`, `e+`, fixed, leading / trailing dot with and without a signed exponent), alone and glued between operator neighbours: bit-exact; \
         every word up to a length bound over {0,1,x,e,E,.,a,f,n,i,_}: classified by the literal grammar of the statement. non-trivial = not a plain identifier; distinct = distinct source text"
            .into()
    }
    fn cases(&self, tier: Tier, rng: &mut Rng) -> (Vec<Case>, bool) {
        let mut cases = Vec::new();
        // strings
        let alpha = ["a", "\"", "\\", "/", "*", " ", "\n", "ä", "😀", "+", "\u{200b}", "\u{feff}"];
        let maxlen = if tier == Tier::Quick { 4 } else { 6 };
        for len in 0..=maxlen {
            let total = alpha.len().pow(len as u32);
            for mut k in 0..total {
                let mut body = String::new();
                for _ in 0..len {
                    body.push_str(alpha[k % alpha.len()]);
                    k /= alpha.len();
                }
                cases.push(tok_case(&quote(&body), Some(format!("S:{}", hex(body.as_bytes()))), "string"));
                if len <= 3 {
                    cases.push(tok_case(
                        &format!("x+{}+1", quote(&body)),
                        Some(format!("ID:78 Plus S:{} Plus I:1", hex(body.as_bytes()))),
                        "string-embedded",
                    ));
                    // an unescaped body: error unless it happens to be well-formed
                    cases.push(tok_case(&format!("\"{}", body), None, "string-raw"));
                    // the literal after comments (whatever came before it in the source, it denotes its text)
                    let want = Some(format!("S:{}", hex(body.as_bytes())));
                    cases.push(tok_case(&format!("/* c */{}", quote(&body)), want.clone(), "string-after-comment"));
                    cases.push(tok_case(&format!("// \"c\"\n {}", quote(&body)), want.clone(), "string-after-comment"));
                    cases.push(tok_case(
                        &format!("x/*\"*/+/**/{}//", quote(&body)),
                        Some(format!("ID:78 Plus S:{}", hex(body.as_bytes()))),
                        "string-after-comment",
                    ));
                }
            }
        }
        let n_rand = if tier == Tier::Quick { 3000 } else { 200_000 };
        for _ in 0..n_rand {
            let n = rng.below(12);
            let body: String = (0..n)
                .map(|_| match rng.below(6) {
                    0 => '"',
                    1 => '\\',
                    2 => {
                        // any scalar value, with the invisible / special ones over-represented
                        const SPECIAL: [u32; 24] = [
                            0x200B, 0x200C, 0x200D, 0x2060, 0xFEFF, 0x00AD, 0x034F, 0x061C, 0x200E, 0x200F, 0x202A, 0x202E, 0x2028, 0x2029, 0x0085, 0x00A0,
                            0x0301, 0x0000, 0x007F, 0x001B, 0xFFFD, 0xFFFF, 0x10FFFF, 0xE000,
                        ];
                        if rng.chance(1, 2) {
                            char::from_u32(*rng.pick(&SPECIAL)).unwrap_or('a')
                        } else {
                            char::from_u32((rng.next() % 0x110000) as u32).unwrap_or('\u{200b}')
                        }
                    },
                    3 => char::from_u32(0x1F600 + rng.below(40) as u32).unwrap_or('a'),
                    4 => *rng.pick(&['/', '*', '\n', ' ', '(', ';']),
                    _ => (b'a' + rng.below(26) as u8) as char,
                })
                .collect();
            cases.push(tok_case(&quote(&body), Some(format!("S:{}", hex(body.as_bytes()))), "string-random"));
        }
        for (s, want) in [("\"\\q\"", "IllegalEscapeSequence"), ("\"abc", "UnmatchedDoubleQuote"), ("\"a\\", "IllegalEscapeSequence"), ("\"\\n\"", "IllegalEscapeSequence"), ("\"", "UnmatchedDoubleQuote")] {
            cases.push(tok_case(s, Some(format!("!{}", want)), "string-error"));
        }
        // integers
        let mut ints: Vec<i64> = int_pool().into_iter().filter(|i| *i >= 0).collect();
        let n_int = if tier == Tier::Quick { 3000 } else { 300_000 };
        for _ in 0..n_int {
            let bits = rng.below(63) as u32;
            ints.push((rng.next() >> 1) as i64 >> (62 - bits.min(62)));
        }
        for i in ints {
            let want = Some(format!("I:{}", i));
            cases.push(tok_case(&format!("{}", i), want.clone(), "int-dec"));
            cases.push(tok_case(&format!("000{}", i), want.clone(), "int-dec-zeros"));
            cases.push(tok_case(&format!("0x{:x}", i), want.clone(), "int-hex"));
            cases.push(tok_case(&format!("0x{:X}", i), want.clone(), "int-hex-upper"));
            cases.push(tok_case(&format!("(0x{:x})*{}", i, i), Some(format!("LBrace I:{} RBrace Star I:{}", i, i)), "int-embedded"));
        }
        cases.push(tok_case("1e-400", Some("F:0000000000000000".into()), "named"));
        cases.push(tok_case("0x1e-3", Some("I:30 Minus I:3".into()), "named"));
        cases.push(tok_case("5e-3-2e-3", Some(format!("F:{:016x} Minus F:{:016x}", 5e-3f64.to_bits(), 2e-3f64.to_bits())), "named"));
        cases.push(tok_case("a-1e+2", Some(format!("ID:61 Minus F:{:016x}", 1e2f64.to_bits())), "named"));
        // floats
        let mut floats: Vec<f64> = float_pool().into_iter().filter(|f| f.is_finite() && f.is_sign_positive()).collect();
        floats.extend([9223372036854775808.0, 18446744073709551616.0, 9223372036854777856.0, 1e19, 1e22]);
        let n_f = if tier == Tier::Quick { 4000 } else { 400_000 };
        for k in 0..n_f {
            let f = match k % 4 {
                0 => f64::from_bits(rng.next() & 0x7fff_ffff_ffff_ffff),
                1 => (rng.next() % 1_000_000) as f64 / 1000.0,
                2 => f64::from_bits((rng.next() % 0x0020_0000_0000_0000) | ((1000 + rng.next() % 50) << 52)),
                _ => f64::from_bits(rng.next() % 0x0010_0000_0000_0000), // subnormals
            };
            if f.is_finite() {
                floats.push(f);
            }
        }
        let lefts = [("+", "Plus"), ("-", "Minus"), ("*", "Star"), ("(", "LBrace"), (",", "Comma"), (")-", "RBrace Minus"), ("--", "Minus Minus"), ("x-", "ID:78 Minus")];
        let rights = [("+", "Plus"), ("-", "Minus"), ("*", "Star"), (")", "RBrace"), (",", "Comma")];
        for (n, f) in floats.iter().enumerate() {
            let want = format!("F:{:016x}", f.to_bits());
            for (j, r) in float_renderings(*f).into_iter().enumerate() {
                cases.push(tok_case(&r, Some(want.clone()), &format!("float-r{}", j)));
                let (l, ln) = lefts[(n + j) % 8];
                let (rt, rn) = rights[(n / 5 + j) % 5];
                cases.push(tok_case(&format!("{}{}{}", l, r, rt), Some(format!("{} {} {}", ln, want, rn)), "float-embedded"));
                if r.bytes().all(|b| b.is_ascii_digit()) {
                    // an integer-looking float (beyond the i64 range) after every kind of left neighbour, signs included
                    for (l, ln) in lefts {
                        cases.push(tok_case(&format!("{}{}{}", l, r, rt), Some(format!("{} {} {}", ln, want, rn)), "float-embedded"));
                        cases.push(tok_case(&format!("{}{}", l, r), Some(format!("{} {}", ln, want)), "float-embedded"));
                    }
                }
            }
        }
        // a string literal (or another non-word token) directly after `<digits>e` and a sign is still itself (spec-side cases)
        let reqs: Vec<String> = (0..108).map(|i| format!("gen.c07tight {}", i)).collect();
        for a in ask_driver(&reqs, 4).unwrap_or_default() {
            let parts: Vec<&str> = a.splitn(3, ' ').collect();
            if parts.len() == 3 {
                cases.push(tok_case(&unx(parts[0]), Some(parts[2].to_string()), "literal-after-sign"));
            }
        }
        // words
        let wa = ["0", "1", "x", "e", "E", ".", "a", "f", "n", "i", "_"];
        let wmax = if tier == Tier::Quick { 4 } else { 5 };
        for len in 1..=wmax {
            let total = wa.len().pow(len as u32);
            for mut k in 0..total {
                let mut w = String::new();
                for _ in 0..len {
                    w.push_str(wa[k % wa.len()]);
                    k /= wa.len();
                }
                cases.push(tok_case(&w, Some(word_reference(&w)), "word"));
            }
        }
        // long numerals: many digits before / after the dot, long exponents, leading zeros
        let n_long = if tier == Tier::Quick { 3000 } else { 100_000 };
        for _ in 0..n_long {
            let mut w = String::new();
            let cap = if rng.chance(1, 4) { 400 } else { 30 };
            let nd = 1 + rng.below(cap);
            for _ in 0..nd {
                w.push((b'0' + rng.below(10) as u8) as char);
            }
            if rng.chance(1, 2) {
                w.push('.');
                for _ in 0..rng.below(40) {
                    w.push((b'0' + rng.below(10) as u8) as char);
                }
            }
            if rng.chance(1, 2) {
                w.push(if rng.chance(1, 2) { 'e' } else { 'E' });
                for _ in 0..1 + rng.below(4) {
                    w.push((b'0' + rng.below(10) as u8) as char);
                }
            }
            cases.push(tok_case(&w, Some(word_reference(&w)), "word-long-numeral"));
        }
        for w in ["true", "false", "True", "inf", "nan", "NaN", "infinity", "Infinity", "0x", "0xg", "0x8000000000000000", "9223372036854775808", "1e400", "0x7fffffffffffffff", "1_000", "é", "truee"] {
            cases.push(tok_case(w, Some(word_reference(w)), "word-named"));
        }
        (cases, false)
    }
    fn judge(&self, case: &Case, out: &Outcome) -> Verdict {
        let imp = &out.impl_resp[0];
        let model = &out.drv_resp[0];
        let expect = case.drv_lines[1].strip_prefix("#expect ").unwrap_or("?");
        if let Some(v) = expect.strip_prefix('!') {
            if err_variant(imp) != Some(v) {
                return Verdict::SpecViolation(format!("expected the error {}, got `{}`", v, imp));
            }
        } else if expect != "?" && *imp != format!("ok {}", expect) {
            return Verdict::SpecViolation(format!("tokenizes to `{}`, the literal denotes `{}`", imp, expect));
        }
        let same = if imp.starts_with("ok") || model.starts_with("ok") { imp == model } else { err_variant(imp) == err_variant(model) };
        if !same {
            return Verdict::ModelMismatch(format!("impl `{}` model `{}`", imp, model));
        }
        let nontrivial = if imp.starts_with("ok ID:") && !imp.contains(' ') { None } else { Some(case.human.clone()) };
        Verdict::Pass { nontrivial, class: class_of(imp) }
    }
}
