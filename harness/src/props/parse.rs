//! C02, C05, C13 — the tree builder: precedence/associativity, sequences, malformed input.
use super::*;
use crate::codec::*;
use crate::gen::Rng;
use crate::runner::ask_driver;

fn tree_case(src: &str, spec_tree: Option<&str>, bucket: &str) -> Case {
    let line = format!("tree {}", xarg(src));
    Case {
        impl_lines: vec![line.clone()],
        drv_lines: vec![line, format!("#spec {}", spec_tree.unwrap_or(""))],
        human: format!("{:?}", src),
        bucket: bucket.to_string(),
    }
}

/// all strings of `len` tokens over `alphabet`, joined by single spaces
fn enumerate(alphabet: &[&str], len: usize) -> Vec<String> {
    let mut out = Vec::new();
    let n = alphabet.len();
    let total = n.pow(len as u32);
    for mut k in 0..total {
        let mut parts = Vec::with_capacity(len);
        for _ in 0..len {
            parts.push(alphabet[k % n]);
            k /= n;
        }
        out.push(parts.join(" "));
    }
    out
}

/// operator-ish summary of a tree text for the coverage report: the multiset of operator names
fn shape_key(tree: &str) -> String {
    let mut ops: Vec<&str> = tree
        .split(|c| c == '(' || c == ')' || c == ' ')
        .filter(|t| !t.is_empty())
        .map(|t| t.split(':').next().unwrap())
        .filter(|t| !matches!(*t, "RootNode" | "Const" | "VariableIdentifierRead"))
        .collect();
    ops.sort();
    ops.dedup();
    ops.join("+")
}

fn judge_tree(case: &Case, out: &Outcome, id: &str) -> Verdict {
    let imp = &out.impl_resp[0];
    let model = &out.drv_resp[0];
    let spec = case.drv_lines[1].strip_prefix("#spec ").unwrap_or("");
    if !spec.is_empty() {
        let want = format!("ok {}", spec);
        if *imp != want {
            return Verdict::SpecViolation(format!("build_operator_tree gives `{}`, the {} reference tree is `{}`", imp, id, spec));
        }
    }
    // correspondence slice: Ok trees exactly, and Ok/Err status
    if imp.starts_with("ok") || model.starts_with("ok") {
        if imp != model {
            return Verdict::ModelMismatch(format!("impl `{}` model `{}`", imp, model));
        }
    }
    let nontrivial = if imp.starts_with("ok") { Some(format!("{}|{}", shape_key(imp), case.human.len() / 8)) } else { None };
    Verdict::Pass { nontrivial, class: class_of(imp) }
}

pub struct C02;

impl Property for C02 {
    fn id(&self) -> &'static str {
        "C02"
    }
    fn rule(&self) -> String {
        "ASTs generated next to the spec (random depth<=6/10, and systematically every parent kind x child kind x side [x grandchild kind x side] over 26 node kinds), \
         rendered by Spec.render with exactly the table-required parentheses, random admissible whitespace/comment gaps and random literal spellings (decimal / hex, plain / signed-exponent floats), plus atom-operator-atom in every literal spelling without blanks (`0x1e-3`, `5e-3-2e-3`): the real tree must equal Spec.toTree; \
         plus all token strings up to a length bound over a 14-token alphabet (real tree vs model tree). non-trivial = builds; distinct = distinct (operator set, size class)"
            .into()
    }
    fn cases(&self, tier: Tier, rng: &mut Rng) -> (Vec<Case>, bool) {
        let mut reqs = Vec::new();
        let n_sys = if tier == Tier::Quick { 1352 } else { 1352 + 26 * 2 * 1352 };
        for i in 0..n_sys {
            reqs.push(format!("gen.c02sys {}", i));
        }
        for i in 0..10 {
            reqs.push(format!("gen.c02call {}", i));
        }
        // literals in every spelling (hex, signed exponents) written without blanks around each binary operator
        // 14 atoms x 14 atoms x 14 binary operators, then 14 atoms x 6 prefix shapes (`-A`, `-A ^ 2`, `2 * -A`, `(-A)`, `x = -A`, `-A - 2`)
        for i in 0..(14 * 14 * 14 + 14 * 6) {
            reqs.push(format!("gen.c02tight {}", i));
        }
        let n_rand = if tier == Tier::Quick { 6000 } else { 300_000 };
        for k in 0..n_rand {
            let depth = if k % 10 == 0 { 10 } else { 2 + k % 5 };
            reqs.push(format!("gen.c02 {} {}", rng.next() % (1 << 60), depth));
        }
        let n_loose = if tier == Tier::Quick { 3000 } else { 150_000 };
        for k in 0..n_loose {
            reqs.push(format!("gen.c02loose {} {}", rng.next() % (1 << 60), 1 + k % 5));
        }
        let answers = ask_driver(&reqs, 16).unwrap_or_default();
        let mut cases = Vec::new();
        for (req, a) in reqs.iter().zip(answers.iter()) {
            let mut parts = a.splitn(2, ' ');
            let src = unx(parts.next().unwrap_or("x"));
            let spec = parts.next().unwrap_or("");
            let bucket = if req.starts_with("gen.c02sys") { "systematic" } else if req.starts_with("gen.c02call") { "call-left-of-assign" } else if req.starts_with("gen.c02tight") { "tight-literals" } else if req.starts_with("gen.c02loose") { "random-ast-loose" } else { "random-ast" };
            cases.push(tree_case(&src, Some(spec), bucket));
        }
        let alphabet = ["1", "x", "f", "+", "*", "^", "-", "!", "==", "&&", "=", "+=", "(", ")"];
        let maxlen = if tier == Tier::Quick { 4 } else { 6 };
        for len in 1..=maxlen {
            for s in enumerate(&alphabet, len) {
                cases.push(tree_case(&s, None, &format!("tokens-len{}", len)));
            }
        }
        (cases, false)
    }
    fn judge(&self, case: &Case, out: &Outcome) -> Verdict {
        judge_tree(case, out, "C02")
    }
}

pub struct C05;

impl Property for C05 {
    fn id(&self) -> &'static str {
        "C05"
    }
    fn rule(&self) -> String {
        "sequence levels generated next to the spec (chains of tuples of optional operands, operands = expressions or parenthesised levels, depth<=3) rendered with random admissible gaps: \
         real tree must equal Spec.levelTree and the value/effects must equal the model's; plus all token strings up to a length bound over {1, x, =, `,`, `;`, (, )} (tree and value, real vs model), and chains that assign one variable twice over 17 values (signed zeros, tuples of several shapes, every type; value and final context bit-exact). \
         non-trivial = builds; distinct = distinct source"
            .into()
    }
    fn cases(&self, tier: Tier, rng: &mut Rng) -> (Vec<Case>, bool) {
        let mut reqs = Vec::new();
        let n_rand = if tier == Tier::Quick { 4000 } else { 200_000 };
        for k in 0..n_rand {
            reqs.push(format!("gen.c05 {} {}", rng.next() % (1 << 60), 1 + k % 3));
        }
        let answers = ask_driver(&reqs, 16).unwrap_or_default();
        let mut cases = Vec::new();
        for a in answers.iter() {
            let mut parts = a.splitn(2, ' ');
            let src = unx(parts.next().unwrap_or("x"));
            let spec = parts.next().unwrap_or("");
            cases.push(seq_case(&src, Some(spec), "random-level"));
        }
        let alphabet = ["1", "x", "=", ",", ";", "(", ")"];
        let maxlen = if tier == Tier::Quick { 6 } else { 8 };
        for len in 1..=maxlen {
            for s in enumerate(&alphabet, len) {
                cases.push(seq_case(&s, None, &format!("tokens-len{}", len)));
            }
        }
        // the inputs named in the property and in the repaired defect
        for s in ["a, b; c, d", "1, 2; 3", "1; 2, 3; 4", "x = 1; x, 2; x + 1", "1,;2", "(1, 2; 3)", "1;", "()", "(,)", "(;)", ";;", "a = 1, 2; a"] {
            cases.push(seq_case(s, None, "named"));
        }
        // "with all earlier elements' effects applied": a later element that assigns the same variable again — values that
        // compare equal but are not the same (signed zero), tuples of another shape, every type
        let vals = ["0.0", "-0.0", "1", "2", "1.5", "\"s\"", "\"\"", "true", "false", "()", "(1, 2)", "(3, 4, 5)", "(1.5, \"x\")", "(1, (2, 3))", "(1, (2, 3, 4))", "(0.0, 1)", "(-0.0, 1)"];
        for a in vals {
            for b in vals {
                cases.push(seq_case(&format!("v = {}; v = {}; v", a, b), None, "reassign"));
                cases.push(seq_case(&format!("v = {}; v = {}; 1 / v, v", a, b), None, "reassign"));
                cases.push(seq_case(&format!("v = {}, w = {}; v = w; v", a, b), None, "reassign"));
            }
        }
        (cases, false)
    }
    fn judge(&self, case: &Case, out: &Outcome) -> Verdict {
        // line 0: tree (impl / model / spec), lines 2..: evaluation
        let imp = &out.impl_resp[0];
        let model = &out.drv_resp[0];
        let spec = case.drv_lines[1].strip_prefix("#spec ").unwrap_or("");
        if !spec.is_empty() && *imp != format!("ok {}", spec) {
            return Verdict::SpecViolation(format!("build_operator_tree gives `{}`, the C05 reference tree is `{}`", imp, spec));
        }
        if (imp.starts_with("ok") || model.starts_with("ok")) && imp != model {
            return Verdict::ModelMismatch(format!("tree: impl `{}` model `{}`", imp, model));
        }
        for i in 1..case.impl_lines.len() {
            let (a, b) = (&out.impl_resp[i], &out.drv_resp[i + 1]);
            if case.impl_lines[i].starts_with("eval") {
                if !same_value_or_class(a, b) || a.split(" ; ").nth(1) != b.split(" ; ").nth(1) {
                    // the reference value of a sequence is that of the reference interpreter (C05_chain / C05_tuple, C08_adequate)
                    return Verdict::SpecViolation(format!(
                        "`{}` gives `{}`; evaluating all elements in order (reference interpreter) gives `{}`",
                        case.impl_lines[i].split(' ').nth(2).unwrap_or(""),
                        a,
                        b
                    ));
                }
            } else if a != b {
                return Verdict::ModelMismatch(format!("`{}`: impl `{}` model `{}`", case.impl_lines[i], a, b));
            }
        }
        let nontrivial = if imp.starts_with("ok") { Some(case.human.clone()) } else { None };
        Verdict::Pass { nontrivial, class: class_of(imp) }
    }
}

fn seq_case(src: &str, spec_tree: Option<&str>, bucket: &str) -> Case {
    let tree = format!("tree {}", xarg(src));
    let rest = vec![
        "new 0 hm".to_string(),
        format!("setf 0 {} id", xarg("f")),
        format!("setv 0 {} I3", xarg("x")),
        format!("eval 0 ro s value {}", xarg(src)),
        format!("eval 0 mut s value {}", xarg(src)),
        "dump 0".to_string(),
    ];
    let mut rest = rest;
    if !(bucket.starts_with("tokens-len") && src.len() > 9) {
        // the same sequence through the typed entry points of a precompiled tree, each on a fresh context:
        // the earlier elements' effects are applied whichever entry point evaluates the chain
        for (slot, kind) in [(1, "tuple"), (2, "empty")] {
            rest.push(format!("new {} hm", slot));
            rest.push(format!("setf {} {} id", slot, xarg("f")));
            rest.push(format!("setv {} {} I3", slot, xarg("x")));
            rest.push(format!("eval {} mut t {} {}", slot, kind, xarg(src)));
            rest.push(format!("dump {}", slot));
        }
    }
    let mut impl_lines = vec![tree.clone()];
    impl_lines.extend(rest.iter().cloned());
    let mut drv_lines = vec![tree, format!("#spec {}", spec_tree.unwrap_or(""))];
    drv_lines.extend(rest);
    Case { impl_lines, drv_lines, human: format!("{:?}", src), bucket: bucket.to_string() }
}

pub struct C13;

impl Property for C13 {
    fn id(&self) -> &'static str {
        "C13"
    }
    fn rule(&self) -> String {
        "all token strings up to a length bound over {1, x, f, +, -, *, !, =, (, ), `,`, `;`} plus random longer ones: the Lean recogniser Spec.illFormed classifies the tokens; \
         an ill-formed string must fail to build or give a tree with a wrong operand count, and must not evaluate successfully, neither in a mutable nor in a read-only context (x, f bound as variable and function); \
         balanced strings must not be reported as unbalanced. non-trivial = ill-formed by the recogniser; distinct = distinct string"
            .into()
    }
    fn cases(&self, tier: Tier, rng: &mut Rng) -> (Vec<Case>, bool) {
        let alphabet = ["1", "x", "f", "+", "-", "*", "!", "=", "(", ")", ",", ";"];
        let maxlen = if tier == Tier::Quick { 4 } else { 6 };
        let mut cases = Vec::new();
        for len in 1..=maxlen {
            for s in enumerate(&alphabet, len) {
                cases.push(ill_case(&s, &format!("tokens-len{}", len)));
            }
        }
        let wide = [
            "1", "x", "f", "+", "-", "*", "!", "=", "(", ")", ",", ";", "^", "==", "&&", "+=", "\"s\"", "true", "2.5", "g", "||", "%", "<", "/", "false", "&&", "||", "false &&", "true ||",
            // parentheses and quotes where they are text, not structure
            "\"\\\"(\"", "\")\"", "\"(\"", "/* ( */", "/* ) */", "// )\n", "\"\\\\\"",
        ];
        let n_rand = if tier == Tier::Quick { 20_000 } else { 400_000 };
        for _ in 0..n_rand {
            let len = 5 + rng.below(12);
            let s: Vec<&str> = (0..len).map(|_| *rng.pick(&wide)).collect();
            cases.push(ill_case(&s.join(" "), "random-long"));
            // the same kind of sequence with every kind of gap between the tokens (none, blanks, comments): what separates
            // two operands is the lexer's business, that they are juxtaposed is this property's
            let mut t = String::new();
            for tok in s.iter().take(7) {
                t.push_str(tok);
                t.push_str(*rng.pick(&[" ", "", "/**/", "\t", "/* c */", "\n", "  ", "/*)*/", "\u{a0}", "\u{3000}", "\u{b}", "\u{2028}", "\u{85}", "\u{2003}"]));
            }
            cases.push(ill_case(&t, "random-gaps"));
        }
        for a in ["1", "x", "\"s\"", "true", "2.5", ")", "f"] {
            for b in ["1", "x", "\"s\"", "true", "2.5", "(", "!", "-"] {
                for gap in ["/**/", "/* c */", "//\n", " /**/ ", "\u{a0}", "\u{3000}", "\u{b}", "\u{2028}", "\u{85}", "\u{1680}", "\u{205f}"] {
                    cases.push(ill_case(&format!("{}{}{}", a, gap, b), "operand-comment-operand"));
                    cases.push(ill_case(&format!("(1 + {}{}{})", a, gap, b), "operand-comment-operand"));
                }
            }
        }
        // written WITHOUT separators: `<digits>e` directly followed by a sign and whatever comes next (the lexer looks two
        // partial tokens ahead there), next to operands, operators and parentheses — all strings up to 4 pieces
        let tight = ["1e+", "1e-", "2E+", "1", "x", "+", "(", ")", " ", "1.5"];
        let tmax = if tier == Tier::Quick { 4 } else { 5 };
        for len in 1..=tmax {
            for mut k in 0..tight.len().pow(len as u32) {
                let mut t = String::new();
                for _ in 0..len {
                    t.push_str(tight[k % tight.len()]);
                    k /= tight.len();
                }
                if t.contains('e') || t.contains('E') {
                    cases.push(ill_case(&t, "tight-mantissa-sign"));
                }
            }
        }
        for s in ["\"\\\"(\"", "len(\"\\\")\")", "1 + 2 // that was easy :-)", "(1 /* ( */ + 2) * 3", "\"(\" + \")\"", "+ 1 f 2", "false && !", "true || -", "false &&", "true ||", "false && (1 +)", "x == 5 || (5 ==)", "false && 1 2", "true || f f", "1, 2)", "x = 1; x)", ",)", "1 +\u{a0}", "1\u{a0}2", "x\u{3000}x", "(1\u{b}2)"] {
            cases.push(ill_case(s, "named"));
        }
        for s in ["+ 1 2", "1 + 2()", "-1()", "== 1 !true", "== x !true", "1, 2; 3", "1()", "123(1*2)", "!(()true)", "true-", "(", ")", "(()", "f f", "x !x"] {
            cases.push(ill_case(s, "named"));
        }
        (cases, maxlen == 6 && false)
    }
    fn judge(&self, case: &Case, out: &Outcome) -> Verdict {
        // impl: [tree, new, setv, setf, eval ro, eval mut]; drv: [spec.illformed, tree, new, setv, setf, eval ro, eval mut]
        let spec = &out.drv_resp[0];
        let imp_tree = &out.impl_resp[0];
        let model_tree = &out.drv_resp[1];
        let imp_eval = eval_result(out.impl_resp.last().unwrap());
        let model_eval = eval_result(out.drv_resp.last().unwrap());
        let ill = spec.contains("ill=true");
        let balanced = spec.contains("balanced=true");
        if spec.starts_with("lexerr") {
            return Verdict::Pass { nontrivial: None, class: "lexerr".into() };
        }
        if ill && imp_eval.starts_with("ok") {
            return Verdict::SpecViolation(format!("ill-formed ({}), but evaluates to `{}`", spec, imp_eval));
        }
        // … in any context: the read-only evaluation (second to last line) too
        let imp_ro = eval_result(&out.impl_resp[out.impl_resp.len() - 2]);
        let model_ro = eval_result(&out.drv_resp[out.drv_resp.len() - 2]);
        if ill && imp_ro.starts_with("ok") {
            return Verdict::SpecViolation(format!("ill-formed ({}), but evaluates to `{}` in a read-only context", spec, imp_ro));
        }
        if imp_ro.starts_with("ok") != model_ro.starts_with("ok") {
            return Verdict::ModelMismatch(format!("read-only eval: impl `{}` model `{}`", imp_ro, model_ro));
        }
        if ill && imp_tree.starts_with("ok") && !tree_deficient(imp_tree) {
            return Verdict::SpecViolation(format!("ill-formed ({}), but builds the complete tree `{}`", spec, imp_tree));
        }
        if balanced && (imp_tree.contains("UnmatchedLBrace") || imp_tree.contains("UnmatchedRBrace")) {
            return Verdict::SpecViolation(format!("balanced input reported as `{}`", imp_tree));
        }
        if !balanced && imp_tree.starts_with("ok") {
            return Verdict::SpecViolation(format!("unbalanced parentheses, but builds `{}`", imp_tree));
        }
        // correspondence slice: Ok/Err of build, Ok trees, Ok/Err of eval
        if (imp_tree.starts_with("ok") || model_tree.starts_with("ok")) && imp_tree != model_tree {
            return Verdict::ModelMismatch(format!("tree: impl `{}` model `{}`", imp_tree, model_tree));
        }
        if imp_eval.starts_with("ok") != model_eval.starts_with("ok") {
            return Verdict::ModelMismatch(format!("eval: impl `{}` model `{}`", imp_eval, model_eval));
        }
        let nontrivial = if ill { Some(case.human.clone()) } else { None };
        Verdict::Pass { nontrivial, class: format!("{}{}", if ill { "ill:" } else { "wf:" }, class_of(imp_eval)) }
    }
}

fn ill_case(src: &str, bucket: &str) -> Case {
    let common = vec![
        format!("tree {}", xarg(src)),
        "new 0 hm".to_string(),
        format!("setv 0 {} I5", xarg("x")),
        format!("setf 0 {} id", xarg("f")),
        format!("eval 0 ro s value {}", xarg(src)),
        format!("eval 0 mut s value {}", xarg(src)),
    ];
    let mut drv = vec![format!("spec.illformed {}", xarg(src))];
    drv.extend(common.iter().cloned());
    Case { impl_lines: common, drv_lines: drv, human: format!("{:?}", src), bucket: bucket.to_string() }
}

/// does the canonical tree text contain an operator with the wrong number of operands?
pub fn tree_deficient(resp: &str) -> bool {
    // parse the s-expression
    let text = resp.strip_prefix("ok ").unwrap_or(resp);
    let b = text.as_bytes();
    fn parse(b: &[u8], mut i: usize, bad: &mut bool) -> usize {
        // b[i] == '('
        i += 1;
        let start = i;
        while i < b.len() && b[i] != b' ' && b[i] != b')' {
            // skip over value payloads that contain parentheses: T(...)
            if b[i] == b'(' {
                let mut d = 0;
                while i < b.len() {
                    if b[i] == b'(' {
                        d += 1;
                    } else if b[i] == b')' {
                        d -= 1;
                        if d == 0 {
                            break;
                        }
                    }
                    i += 1;
                }
            }
            i += 1;
        }
        let op = std::str::from_utf8(&b[start..i]).unwrap_or("");
        let name = op.split(':').next().unwrap_or("");
        let mut n = 0;
        while i < b.len() && b[i] == b' ' {
            i = parse(b, i + 1, bad);
            n += 1;
        }
        let want: Option<usize> = match name {
            "RootNode" | "Tuple" | "Chain" => None,
            "Not" | "Neg" | "FunctionIdentifier" => Some(1),
            "Const" | "VariableIdentifierRead" | "VariableIdentifierWrite" => Some(0),
            _ => Some(2),
        };
        if let Some(w) = want {
            if w != n {
                *bad = true;
            }
        }
        i + 1 // past ')'
    }
    let mut bad = false;
    if !b.is_empty() && b[0] == b'(' {
        parse(b, 0, &mut bad);
    }
    bad
}
