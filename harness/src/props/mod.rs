use crate::gen::Rng;
use crate::runner::{Case, Outcome};

pub mod c03;
pub mod parse;
pub mod lex;
pub mod builtins;
pub mod evalprops;
pub mod misc;

#[derive(Clone, Copy, PartialEq, Debug)]
pub enum Tier {
    Quick,
    Thorough,
}

pub enum Verdict {
    /// agreement; `nontrivial` is the key of the non-trivial class this case reached, if any
    Pass { nontrivial: Option<String>, class: String },
    /// implementation and model disagree on the property's slice (correspondence broken)
    ModelMismatch(String),
    /// implementation contradicts the property's reference (a concrete failing input)
    SpecViolation(String),
}

pub trait Property {
    fn id(&self) -> &'static str;
    fn rule(&self) -> String;
    /// (cases, exhaustive?)
    fn cases(&self, tier: Tier, rng: &mut Rng) -> (Vec<Case>, bool);
    fn judge(&self, case: &Case, out: &Outcome) -> Verdict;
    /// checks that do not go through the line protocol (threads, serde, subprocesses):
    /// returns (evaluations, spec violations as (input, detail), notes for the evidence)
    fn extra(&self, _tier: Tier, _rng: &mut Rng) -> (usize, Vec<(String, String)>, Vec<String>) {
        (0, vec![], vec![])
    }
}

pub fn by_id(id: &str) -> Option<Box<dyn Property>> {
    match id {
        "C03" => Some(Box::new(c03::C03)),
        "C02" => Some(Box::new(parse::C02)),
        "C06" => Some(Box::new(lex::C06)),
        "C07" => Some(Box::new(lex::C07)),
        "C10" => Some(Box::new(builtins::C10)),
        "C04" => Some(Box::new(evalprops::C04)),
        "C08" => Some(Box::new(evalprops::C08)),
        "C09" => Some(Box::new(evalprops::C09)),
        "C11" => Some(Box::new(evalprops::C11)),
        "C12" => Some(Box::new(evalprops::C12)),
        "C14" => Some(Box::new(evalprops::C14)),
        "C01" => Some(Box::new(misc::C01)),
        "C15" => Some(Box::new(misc::C15)),
        "C16" => Some(Box::new(misc::C16)),
        "C05" => Some(Box::new(parse::C05)),
        "C13" => Some(Box::new(parse::C13)),
        _ => None,
    }
}

/// `ok <payload>` / `err Variant[...]` -> class name used in slices
pub fn err_variant(resp: &str) -> Option<&str> {
    let r = resp.strip_prefix("err ")?;
    Some(r.split('[').next().unwrap_or(r))
}

pub fn is_arith(variant: &str) -> bool {
    matches!(
        variant,
        "AdditionError" | "SubtractionError" | "NegationError" | "MultiplicationError" | "DivisionError" | "ModulationError"
    )
}

pub fn is_type(variant: &str) -> bool {
    matches!(
        variant,
        "ExpectedString" | "ExpectedInt" | "ExpectedFloat" | "ExpectedNumber" | "ExpectedNumberOrString" | "ExpectedBoolean"
            | "ExpectedTuple" | "ExpectedFixedLengthTuple" | "ExpectedRangedLengthTuple" | "ExpectedEmpty" | "TypeError"
            | "WrongTypeCombination"
    )
}

/// error class of a response: ok / arith / type / arity / unknown-var / unknown-fn / not-mutable / parse / bounds / panic / other
pub fn class_of(resp: &str) -> String {
    if resp.starts_with("ok") {
        return "ok".into();
    }
    match err_variant(resp) {
        Some(v) if is_arith(v) => "arith".into(),
        Some(v) if is_type(v) => "type".into(),
        Some("WrongOperatorArgumentAmount") | Some("WrongFunctionArgumentAmount") => "arity".into(),
        Some("VariableIdentifierNotFound") => "unknown-var".into(),
        Some("FunctionIdentifierNotFound") => "unknown-fn".into(),
        Some("ContextNotMutable") => "not-mutable".into(),
        Some("OutOfBoundsAccess") => "bounds".into(),
        Some("PANIC") => "panic".into(),
        Some(
            "AppendedToLeafNode" | "PrecedenceViolation" | "UnmatchedLBrace" | "UnmatchedRBrace" | "UnmatchedDoubleQuote"
            | "MissingOperatorOutsideOfBrace" | "UnmatchedPartialToken" | "IllegalEscapeSequence" | "CustomMessage",
        ) => "parse".into(),
        Some(v) => format!("other:{}", v),
        None => format!("?{}", resp),
    }
}

/// the part of an `eval` response before the call log
pub fn eval_result(resp: &str) -> &str {
    resp.split(" ; ").next().unwrap_or(resp)
}

/// compare on the "value exactly, error by class" slice
pub fn same_value_or_class(a: &str, b: &str) -> bool {
    let (a, b) = (eval_result(a), eval_result(b));
    if a.starts_with("ok") || b.starts_with("ok") {
        a == b
    } else {
        class_of(a) == class_of(b)
    }
}
