//! C03 — operators compute exact, correctly typed results or a typed error.
use super::*;
use crate::codec::*;
use crate::gen::*;
use evalexpr::Value;

pub struct C03;

const OPS: [&str; 14] = ["+", "-", "*", "/", "%", "^", "==", "!=", ">", "<", ">=", "<=", "&&", "||"];

/// source text of a value, where a literal (or literal expression) exists
pub fn literal(v: &Value) -> Option<String> {
    match v {
        Value::Int(i) if *i >= 0 => Some(i.to_string()),
        Value::Float(f) if f.is_finite() && f.is_sign_positive() => {
            let s = format!("{:?}", f);
            // `1e300` style is accepted by the lexer as it is; make sure it is not read as an int
            Some(if s.contains('.') || s.contains('e') { s } else { format!("{}.0", s) })
        },
        Value::String(s) => Some(format!("\"{}\"", s.replace('\\', "\\\\").replace('"', "\\\""))),
        Value::Boolean(b) => Some(b.to_string()),
        Value::Empty => Some("()".into()),
        Value::Tuple(t) if !t.is_empty() && t.len() > 1 => {
            let parts: Option<Vec<String>> = t.iter().map(literal).collect();
            parts.map(|p| format!("({})", p.join(", ")))
        },
        _ => None,
    }
}

fn type_name(v: &Value) -> &'static str {
    match v {
        Value::String(_) => "string",
        Value::Float(_) => "float",
        Value::Int(_) => "int",
        Value::Boolean(_) => "boolean",
        Value::Tuple(_) => "tuple",
        Value::Empty => "empty",
    }
}

fn binop_case(op: &str, a: &Value, b: &Value, bucket: &str) -> Case {
    let mut lines = vec![
        "new 0 hm".to_string(),
        format!("setv 0 {} {}", xarg("a"), enc_value(a)),
        format!("setv 0 {} {}", xarg("b"), enc_value(b)),
        format!("eval 0 ro s value {}", xarg(&format!("a {} b", op))),
    ];
    if let (Some(la), Some(lb)) = (literal(a), literal(b)) {
        lines.push(format!("eval 0 ro s value {}", xarg(&format!("{} {} {}", la, op, lb))));
    }
    if matches!(op, "+" | "-" | "*" | "/" | "%" | "^" | "&&" | "||") {
        // the compound form: `c op= b` computes exactly `c op b` (and stores it if the type is unchanged)
        lines.push(format!("eval 0 mut s value {}", xarg(&format!("c = a; c {}= b; c", op))));
    }
    let mut drv = lines.clone();
    drv.push(format!("spec.binop {} {} {}", xarg(op), enc_value(a), enc_value(b)));
    Case {
        impl_lines: lines,
        drv_lines: drv,
        human: format!("a {} b with a = {:?}, b = {:?}", op, a, b),
        bucket: format!("{}:{}:{}:{}", bucket, op, type_name(a), type_name(b)),
    }
}

fn unop_case(op: &str, a: &Value) -> Case {
    let sym = if op == "neg" { "-" } else { "!" };
    let lines = vec![
        "new 0 hm".to_string(),
        format!("setv 0 {} {}", xarg("a"), enc_value(a)),
        format!("eval 0 ro s value {}", xarg(&format!("{}a", sym))),
    ];
    let mut drv = lines.clone();
    drv.push(format!("spec.unop {} {}", op, enc_value(a)));
    Case {
        impl_lines: lines,
        drv_lines: drv,
        human: format!("{}a with a = {:?}", sym, a),
        bucket: format!("unary:{}:{}", op, type_name(a)),
    }
}

/// does an implementation response meet the reference outcome printed by the driver?
fn meets(resp: &str, reference: &str) -> bool {
    let r = eval_result(resp);
    if let Some(v) = reference.strip_prefix("value-or-arith ") {
        return r == format!("ok {}", v) || class_of(r) == "arith";
    }
    if let Some(v) = reference.strip_prefix("value ") {
        return r == format!("ok {}", v);
    }
    match reference {
        "arith" => class_of(r) == "arith",
        "type" => class_of(r) == "type",
        _ => false,
    }
}

impl Property for C03 {
    fn id(&self) -> &'static str {
        "C03"
    }
    fn rule(&self) -> String {
        "every operator x every ordered pair of pool values (operands bound as variables, and as literals where a literal exists), \
         plus random pairs; a case is non-trivial if the reference outcome is a value or an arithmetic error (not a type error); \
         distinct = distinct (operator, operand pair)"
            .into()
    }
    fn cases(&self, tier: Tier, rng: &mut Rng) -> (Vec<Case>, bool) {
        let pool = if tier == Tier::Quick { small_pool() } else { value_pool() };
        let mut cases = Vec::new();
        for op in OPS {
            for a in &pool {
                for b in &pool {
                    cases.push(binop_case(op, a, b, "pool"));
                }
            }
        }
        for a in &value_pool() {
            cases.push(unop_case("neg", a));
            cases.push(unop_case("not", a));
        }
        // integer pairs around the overflow boundaries, every run
        let ints = int_pool();
        for op in ["+", "-", "*", "/", "%", "<", ">", "<=", ">=", "==", "!=", "^"] {
            for a in &ints {
                for b in &ints {
                    cases.push(binop_case(op, &Value::Int(*a), &Value::Int(*b), "intpairs"));
                }
            }
        }
        // mixed int/float and float/float pairs for the orderings and the float-only operators
        let floats = float_pool();
        for op in ["<", ">=", "==", "^", "%", "/"] {
            for a in &ints {
                for f in &floats {
                    cases.push(binop_case(op, &Value::Int(*a), &Value::Float(*f), "mixedpairs"));
                    cases.push(binop_case(op, &Value::Float(*f), &Value::Int(*a), "mixedpairs"));
                }
            }
            for f in &floats {
                for g in &floats {
                    cases.push(binop_case(op, &Value::Float(*f), &Value::Float(*g), "floatpairs"));
                }
            }
        }
        let n_random = if tier == Tier::Quick { 20_000 } else { 1_000_000 };
        for _ in 0..n_random {
            let op = *rng.pick(&OPS);
            let a = random_value(rng, 1);
            let b = random_value(rng, 1);
            cases.push(binop_case(op, &a, &b, "random"));
        }
        (cases, false)
    }
    fn judge(&self, case: &Case, out: &Outcome) -> Verdict {
        let n = case.impl_lines.len();
        // setup lines must agree exactly
        for i in 0..n {
            if case.impl_lines[i].starts_with("eval") {
                continue;
            }
            if out.impl_resp[i] != out.drv_resp[i] {
                return Verdict::ModelMismatch(format!("setup `{}`: impl `{}` model `{}`", case.impl_lines[i], out.impl_resp[i], out.drv_resp[i]));
            }
        }
        let reference = &out.drv_resp[n];
        let mut class = String::new();
        for i in 0..n {
            if !case.impl_lines[i].starts_with("eval") {
                continue;
            }
            let r = &out.impl_resp[i];
            if case.impl_lines[i].contains(" mut ") {
                // compound form: the operator's result, stored only if it has the type of the variable's old value
                // (HashMapContext is type safe, C04); an Empty left operand cannot even be copied into `c` by `c = a`… it can
                let a_kind = case.impl_lines[1].rsplit(' ').next().unwrap_or("?").chars().next().unwrap_or('?');
                let ok = match reference.strip_prefix("value-or-arith ").or(reference.strip_prefix("value ")) {
                    Some(v) if v.starts_with(a_kind) => meets(r, reference),
                    Some(_) => class_of(eval_result(r)) == "type" || (reference.starts_with("value-or-arith") && class_of(eval_result(r)) == "arith"),
                    None => meets(r, reference),
                };
                if !ok {
                    return Verdict::SpecViolation(format!(
                        "`{}` gives `{}`, but `a {} b` is `{}` (a compound assignment computes the plain operator and stores a result of the variable's type)",
                        crate::codec::unx(case.impl_lines[i].rsplit(' ').next().unwrap()), eval_result(r), case.bucket.split(':').nth(1).unwrap_or("?"), reference));
                }
                if !same_value_or_class(r, &out.drv_resp[i]) {
                    return Verdict::ModelMismatch(format!("impl `{}` model `{}`", eval_result(r), eval_result(&out.drv_resp[i])));
                }
                continue;
            }
            if !meets(r, reference) {
                return Verdict::SpecViolation(format!("`{}` gives `{}`, the reference demands `{}`", crate::codec::unx(case.impl_lines[i].rsplit(' ').next().unwrap()), eval_result(r), reference));
            }
            if !same_value_or_class(r, &out.drv_resp[i]) {
                return Verdict::ModelMismatch(format!("impl `{}` model `{}`", eval_result(r), eval_result(&out.drv_resp[i])));
            }
            class = class_of(eval_result(r));
        }
        let nontrivial = if reference == "type" { None } else { Some(case.human.clone()) };
        Verdict::Pass { nontrivial, class: format!("{}", class) }
    }
}
