//! Correspondence / search harness: real evalexpr (in-process) vs the Lean model and spec (driver).
//! usage: harness <property> <quick|thorough> <seed> <out.json> [--replay <file>]
mod codec;
mod gen;
mod props;
mod runner;
mod server;

use codec::json_str;
use props::{Tier, Verdict};
use runner::Case;
use std::collections::{BTreeMap, BTreeSet};
use std::io::Write;

/// protocol line with its hex arguments decoded, for humans
fn show_line(l: &str) -> String {
    l.split(' ')
        .map(|p| if p.len() > 1 && p.starts_with('x') && p[1..].chars().all(|c| c.is_ascii_hexdigit()) { format!("{:?}", codec::unx(p)) } else { p.to_string() })
        .collect::<Vec<_>>()
        .join(" ")
}

fn main() {
    std::panic::set_hook(Box::new(|_| {}));
    let args: Vec<String> = std::env::args().collect();
    if args.len() >= 2 && args[1] == "serve" {
        // debugging aid: speak the protocol on stdin/stdout against the real crate
        let mut sess = server::Session::new();
        let stdin = std::io::stdin();
        let mut line = String::new();
        while stdin.read_line(&mut line).unwrap_or(0) > 0 {
            println!("{}", sess.handle(line.trim_end()));
            line.clear();
        }
        return;
    }
    if args.len() >= 2 && args[1] == "deep" {
        std::process::exit(props::misc::deep_main());
    }
    if args.len() >= 3 && args[1] == "replay-lines" {
        // re-execute recorded protocol lines: args[2] = file with one `I <line>` (implementation) or `D <line>` (driver) per line
        let text = std::fs::read_to_string(&args[2]).expect("cannot read the replay lines");
        let il: Vec<String> = text.lines().filter_map(|l| l.strip_prefix("I ").map(String::from)).collect();
        let dl: Vec<String> = text.lines().filter_map(|l| l.strip_prefix("D ").map(String::from)).collect();
        let mut sess = server::Session::new();
        for l in &il {
            println!("impl   {:<60} -> {}", show_line(l), sess.handle(l));
        }
        if let Ok(resp) = runner::run_driver(&dl) {
            for (l, r) in dl.iter().zip(resp.iter()) {
                println!("driver {:<60} -> {}", show_line(l), r);
            }
        }
        return;
    }
    if args.len() >= 4 && args[1] == "rejudge" {
        // re-execute a recorded case and judge it again: args[2] = property, args[3] = file with `H <input>`, `B <bucket>`,
        // `I <line>` (implementation) and `D <line>` (driver) lines; exit 1 if the property still fails on it
        let prop = props::by_id(&args[2]).expect("unknown property");
        let text = std::fs::read_to_string(&args[3]).expect("cannot read the replay lines");
        let pick = |p: &str| -> Vec<String> { text.lines().filter_map(|l| l.strip_prefix(p).map(String::from)).collect() };
        let case = Case {
            impl_lines: pick("I "),
            drv_lines: pick("D "),
            human: pick("H ").into_iter().next().unwrap_or_default(),
            bucket: pick("B ").into_iter().next().unwrap_or_default(),
        };
        match runner::run_cases(&[case.clone()], 1) {
            Ok(outs) => {
                let out = &outs[0];
                for (l, r) in case.impl_lines.iter().zip(out.impl_resp.iter()) {
                    println!("impl   {:<60} -> {}", show_line(l), r);
                }
                for (l, r) in case.drv_lines.iter().zip(out.drv_resp.iter()) {
                    println!("driver {:<60} -> {}", show_line(l), r);
                }
                match prop.judge(&case, out) {
                    Verdict::SpecViolation(d) => {
                        println!("STILL-FAILS {}", d);
                        std::process::exit(1);
                    },
                    Verdict::ModelMismatch(d) => {
                        println!("MODEL-MISMATCH {}", d);
                        std::process::exit(3);
                    },
                    Verdict::Pass { .. } => {
                        println!("PASSES the property holds on this input now");
                        std::process::exit(0);
                    },
                }
            },
            Err(e) => {
                println!("INFRA {}", e);
                std::process::exit(4);
            },
        }
    }
    if args.len() >= 2 && args[1] == "k3" {
        std::process::exit(props::misc::k3_main());
    }
    if args.len() >= 2 && args[1] == "k1" {
        std::process::exit(props::misc::k1_main());
    }
    if args.len() < 5 {
        eprintln!("usage: harness <property> <quick|thorough> <seed> <out.json>");
        std::process::exit(2);
    }
    let prop = match props::by_id(&args[1]) {
        Some(p) => p,
        None => {
            eprintln!("unknown property {}", args[1]);
            std::process::exit(2);
        },
    };
    let tier = if args[2] == "thorough" { Tier::Thorough } else { Tier::Quick };
    let seed: u64 = args[3].parse().unwrap_or(0);
    let started = std::time::Instant::now();
    let mut rng = gen::Rng::new(seed);
    let (cases, exhaustive) = prop.cases(tier, &mut rng);
    let threads = std::thread::available_parallelism().map(|n| n.get()).unwrap_or(8).min(16);

    let mut evaluations = 0usize;
    let mut nontrivial: BTreeSet<String> = BTreeSet::new();
    let mut buckets: BTreeMap<String, usize> = BTreeMap::new();
    let mut classes: BTreeMap<String, usize> = BTreeMap::new();
    let mut samples: Vec<String> = Vec::new();
    let mut model_mismatches: Vec<(String, String, Vec<String>, Vec<String>, String)> = Vec::new();
    let mut spec_violations: Vec<(String, String, Vec<String>, Vec<String>, String)> = Vec::new();
    let mut infra_error: Option<String> = None;

    // process in slabs to bound memory
    for slab in cases.chunks(200_000) {
        match runner::run_cases(slab, threads) {
            Err(e) => {
                infra_error = Some(e);
                break;
            },
            Ok(outs) => {
                for (case, out) in slab.iter().zip(outs.iter()) {
                    evaluations += 1;
                    // coarse bucket: strip the operand-type detail after the second ':' for the summary
                    *buckets.entry(case.bucket.clone()).or_insert(0) += 1;
                    match prop.judge(case, out) {
                        Verdict::Pass { nontrivial: nt, class } => {
                            *classes.entry(class).or_insert(0) += 1;
                            if let Some(k) = nt {
                                nontrivial.insert(k);
                            }
                            if samples.len() < 8 && evaluations % (slab.len() / 8 + 1) == 1 {
                                samples.push(format!("{} => {}", case.human, out.impl_resp.last().cloned().unwrap_or_default()));
                            }
                        },
                        Verdict::ModelMismatch(d) => {
                            if model_mismatches.len() < 200 {
                                model_mismatches.push((case.human.clone(), d, case.impl_lines.clone(), case.drv_lines.clone(), case.bucket.clone()));
                            }
                        },
                        Verdict::SpecViolation(d) => {
                            if spec_violations.len() < 5000 {
                                spec_violations.push((case.human.clone(), d, case.impl_lines.clone(), case.drv_lines.clone(), case.bucket.clone()));
                            }
                        },
                    }
                }
            },
        }
    }
    let (extra_n, extra_viol, extra_notes) = prop.extra(tier, &mut rng);
    evaluations += extra_n;
    for (h, d) in extra_viol {
        if spec_violations.len() < 5000 {
            spec_violations.push((h, d, vec![], vec![], String::new()));
        }
    }
    for n in &extra_notes {
        *classes.entry(format!("extra:{}", n)).or_insert(0) += 1;
    }
    if samples.is_empty() {
        if let Some(c) = cases.first() {
            samples.push(c.human.clone());
        }
    }

    // the replay is the first entry: make it the smallest failing case found (stable for equal sizes)
    let size = |x: &(String, String, Vec<String>, Vec<String>, String)| -> usize { if x.2.is_empty() { x.0.len() } else { x.2.iter().map(|l| l.len()).sum() } };
    spec_violations.sort_by_key(size);
    model_mismatches.sort_by_key(size);
    let pairs = |v: &Vec<(String, String, Vec<String>, Vec<String>, String)>| -> String {
        let items: Vec<String> = v
            .iter()
            .enumerate()
            .map(|(i, (h, d, il, dl, bucket))| {
                // protocol lines only for the first few (they can be long)
                let lines = |l: &Vec<String>| if i < 400 { format!("[{}]", l.iter().map(|x| json_str(x)).collect::<Vec<_>>().join(",")) } else { "[]".to_string() };
                format!("{{\"input\":{},\"detail\":{},\"bucket\":{},\"impl_lines\":{},\"drv_lines\":{}}}", json_str(h), json_str(d), json_str(bucket), lines(il), lines(dl))
            })
            .collect();
        format!("[{}]", items.join(","))
    };
    let map = |m: &BTreeMap<String, usize>| -> String {
        let items: Vec<String> = m.iter().map(|(k, v)| format!("{}:{}", json_str(k), v)).collect();
        format!("{{{}}}", items.join(","))
    };
    let json = format!(
        "{{\"property\":{},\"tier\":{},\"seed\":{},\"evaluations\":{},\"distinct_nontrivial\":{},\"exhaustive\":{},\"rule\":{},\"samples\":[{}],\"buckets\":{},\"classes\":{},\"model_mismatches\":{},\"spec_violations\":{},\"infra_error\":{},\"wall_s\":{:.2}}}",
        json_str(prop.id()),
        json_str(&args[2]),
        seed,
        evaluations,
        nontrivial.len(),
        exhaustive,
        json_str(&prop.rule()),
        samples.iter().map(|s| json_str(s)).collect::<Vec<_>>().join(","),
        map(&buckets),
        map(&classes),
        pairs(&model_mismatches),
        pairs(&spec_violations),
        match &infra_error {
            Some(e) => json_str(e),
            None => "null".into(),
        },
        started.elapsed().as_secs_f64()
    );
    let mut f = std::fs::File::create(&args[4]).expect("cannot write output");
    f.write_all(json.as_bytes()).unwrap();
    println!(
        "harness {} {}: {} cases, {} non-trivial, {} model mismatches, {} spec violations{}",
        prop.id(),
        args[2],
        evaluations,
        nontrivial.len(),
        model_mismatches.len(),
        spec_violations.len(),
        infra_error.map(|e| format!(", INFRA ERROR: {}", e)).unwrap_or_default()
    );
}
