//! Canonical text forms shared with the Lean driver (lean/Driver/Codec.lean).
use evalexpr::*;

pub fn hex(bytes: &[u8]) -> String {
    let mut s = String::with_capacity(bytes.len() * 2);
    for b in bytes {
        s.push_str(&format!("{:02x}", b));
    }
    s
}

pub fn unhex(s: &str) -> Vec<u8> {
    let b = s.as_bytes();
    let mut out = Vec::with_capacity(b.len() / 2);
    let mut i = 0;
    while i + 1 < b.len() {
        out.push(u8::from_str_radix(&s[i..i + 2], 16).unwrap_or(0));
        i += 2;
    }
    out
}

/// request arguments are written `x<hex>`
pub fn xarg(s: &str) -> String {
    format!("x{}", hex(s.as_bytes()))
}

pub fn unx(s: &str) -> String {
    String::from_utf8(unhex(&s[1..])).unwrap_or_default()
}

pub fn enc_float(f: f64) -> String {
    if f.is_nan() {
        "Fnan".to_string()
    } else {
        format!("F{:016x}", f.to_bits())
    }
}

pub fn enc_value(v: &Value) -> String {
    match v {
        Value::String(s) => format!("S{}", hex(s.as_bytes())),
        Value::Float(f) => enc_float(*f),
        Value::Int(i) => format!("I{}", i),
        Value::Boolean(b) => if *b { "Bt".into() } else { "Bf".into() },
        Value::Tuple(t) => format!("T({})", t.iter().map(enc_value).collect::<Vec<_>>().join(",")),
        Value::Empty => "E".into(),
    }
}

pub fn dec_value(s: &str) -> Option<Value> {
    let b = s.as_bytes();
    let (v, rest) = dec_value_at(b)?;
    if rest.is_empty() { Some(v) } else { None }
}

fn dec_value_at(b: &[u8]) -> Option<(Value, &[u8])> {
    match b.first()? {
        b'S' => {
            let n = b[1..].iter().take_while(|c| c.is_ascii_alphanumeric()).count();
            let s = String::from_utf8(unhex(std::str::from_utf8(&b[1..1 + n]).ok()?)).ok()?;
            Some((Value::String(s), &b[1 + n..]))
        },
        b'F' => {
            if b[1..].starts_with(b"nan") {
                Some((Value::Float(f64::NAN), &b[4..]))
            } else {
                let bits = u64::from_str_radix(std::str::from_utf8(&b[1..17]).ok()?, 16).ok()?;
                Some((Value::Float(f64::from_bits(bits)), &b[17..]))
            }
        },
        b'I' => {
            let n = b[1..].iter().take_while(|c| c.is_ascii_digit() || **c == b'-').count();
            let i: i64 = std::str::from_utf8(&b[1..1 + n]).ok()?.parse().ok()?;
            Some((Value::Int(i), &b[1 + n..]))
        },
        b'B' => Some((Value::Boolean(b[1] == b't'), &b[2..])),
        b'E' => Some((Value::Empty, &b[1..])),
        b'T' => {
            let mut rest = &b[2..];
            let mut items = Vec::new();
            loop {
                match rest.first()? {
                    b')' => return Some((Value::Tuple(items), &rest[1..])),
                    b',' => rest = &rest[1..],
                    _ => {
                        let (v, r) = dec_value_at(rest)?;
                        items.push(v);
                        rest = r;
                    },
                }
            }
        },
        _ => None,
    }
}

fn enc_type(t: &ValueType) -> &'static str {
    match t {
        ValueType::String => "String",
        ValueType::Float => "Float",
        ValueType::Int => "Int",
        ValueType::Boolean => "Boolean",
        ValueType::Tuple => "Tuple",
        ValueType::Empty => "Empty",
    }
}

/// the hook prints `ID:name`, `F:bits`, `I:dec`, `B:true`, `S:text`, and the Debug name otherwise
pub fn enc_hook_token(t: &str) -> String {
    if let Some(r) = t.strip_prefix("ID:") {
        format!("ID:{}", hex(r.as_bytes()))
    } else if let Some(r) = t.strip_prefix("F:") {
        let bits = u64::from_str_radix(r, 16).unwrap_or(0);
        if f64::from_bits(bits).is_nan() { "F:nan".into() } else { format!("F:{}", r) }
    } else if let Some(r) = t.strip_prefix("B:") {
        if r == "true" { "B:t".into() } else { "B:f".into() }
    } else if let Some(r) = t.strip_prefix("S:") {
        format!("S:{}", hex(r.as_bytes()))
    } else {
        t.to_string()
    }
}

pub fn enc_partial(p: &PartialToken) -> String {
    // Token and its payload are crate-private; go through Debug
    let d = format!("{:?}", p);
    if let Some(r) = d.strip_prefix("Literal(") {
        // Debug-escaped string; recover through Display, which prints the literal verbatim
        let _ = r;
        return format!("Literal:{}", hex(format!("{}", p).as_bytes()));
    }
    if let Some(r) = d.strip_prefix("Token(") {
        let inner = &r[..r.len() - 1];
        if inner.starts_with("String(") {
            // Display of a string token is Debug-quoted; undo the quoting for the common cases
            let disp = format!("{}", p);
            let un = unescape_debug(&disp[1..disp.len() - 1]);
            return format!("Token(S:{})", hex(un.as_bytes()));
        }
        return format!("Token({})", inner);
    }
    d
}

pub fn enc_op(op: &Operator) -> String {
    match op {
        Operator::Const { value } => format!("Const:{}", enc_value(value)),
        Operator::VariableIdentifierWrite { identifier } => {
            format!("VariableIdentifierWrite:{}", hex(identifier.as_bytes()))
        },
        Operator::VariableIdentifierRead { identifier } => {
            format!("VariableIdentifierRead:{}", hex(identifier.as_bytes()))
        },
        Operator::FunctionIdentifier { identifier } => {
            format!("FunctionIdentifier:{}", hex(identifier.as_bytes()))
        },
        other => format!("{:?}", other),
    }
}

pub fn enc_node(n: &Node) -> String {
    let mut s = String::from("(");
    s.push_str(&enc_op(n.operator()));
    for c in n.children() {
        s.push(' ');
        s.push_str(&enc_node(c));
    }
    s.push(')');
    s
}

pub fn enc_err(e: &EvalexprError) -> String {
    use EvalexprError::*;
    match e {
        WrongOperatorArgumentAmount { expected, actual } => {
            format!("WrongOperatorArgumentAmount[{};{}]", expected, actual)
        },
        WrongFunctionArgumentAmount { expected, actual } => format!(
            "WrongFunctionArgumentAmount[{};{};{}]",
            expected.start(),
            expected.end(),
            actual
        ),
        ExpectedString { actual } => format!("ExpectedString[{}]", enc_value(actual)),
        ExpectedInt { actual } => format!("ExpectedInt[{}]", enc_value(actual)),
        ExpectedFloat { actual } => format!("ExpectedFloat[{}]", enc_value(actual)),
        ExpectedNumber { actual } => format!("ExpectedNumber[{}]", enc_value(actual)),
        ExpectedNumberOrString { actual } => {
            format!("ExpectedNumberOrString[{}]", enc_value(actual))
        },
        ExpectedBoolean { actual } => format!("ExpectedBoolean[{}]", enc_value(actual)),
        ExpectedTuple { actual } => format!("ExpectedTuple[{}]", enc_value(actual)),
        ExpectedFixedLengthTuple { expected_length, actual } => {
            format!("ExpectedFixedLengthTuple[{};{}]", expected_length, enc_value(actual))
        },
        ExpectedRangedLengthTuple { expected_length, actual } => format!(
            "ExpectedRangedLengthTuple[{};{};{}]",
            expected_length.start(),
            expected_length.end(),
            enc_value(actual)
        ),
        ExpectedEmpty { actual } => format!("ExpectedEmpty[{}]", enc_value(actual)),
        AppendedToLeafNode => "AppendedToLeafNode[]".into(),
        PrecedenceViolation => "PrecedenceViolation[]".into(),
        VariableIdentifierNotFound(id) => {
            format!("VariableIdentifierNotFound[{}]", hex(id.as_bytes()))
        },
        FunctionIdentifierNotFound(id) => {
            format!("FunctionIdentifierNotFound[{}]", hex(id.as_bytes()))
        },
        TypeError { expected, actual } => format!(
            "TypeError[{};{}]",
            expected.iter().map(enc_type).collect::<Vec<_>>().join("|"),
            enc_value(actual)
        ),
        WrongTypeCombination { operator, actual } => format!(
            "WrongTypeCombination[{};{}]",
            enc_op(operator),
            actual.iter().map(enc_type).collect::<Vec<_>>().join("|")
        ),
        UnmatchedLBrace => "UnmatchedLBrace[]".into(),
        UnmatchedRBrace => "UnmatchedRBrace[]".into(),
        UnmatchedDoubleQuote => "UnmatchedDoubleQuote[]".into(),
        MissingOperatorOutsideOfBrace => "MissingOperatorOutsideOfBrace[]".into(),
        UnmatchedPartialToken { first, second } => format!(
            "UnmatchedPartialToken[{};{}]",
            enc_partial(first),
            match second {
                Some(p) => enc_partial(p),
                None => "None".into(),
            }
        ),
        AdditionError { augend, addend } => {
            format!("AdditionError[{};{}]", enc_value(augend), enc_value(addend))
        },
        SubtractionError { minuend, subtrahend } => {
            format!("SubtractionError[{};{}]", enc_value(minuend), enc_value(subtrahend))
        },
        NegationError { argument } => format!("NegationError[{}]", enc_value(argument)),
        MultiplicationError { multiplicand, multiplier } => format!(
            "MultiplicationError[{};{}]",
            enc_value(multiplicand),
            enc_value(multiplier)
        ),
        DivisionError { dividend, divisor } => {
            format!("DivisionError[{};{}]", enc_value(dividend), enc_value(divisor))
        },
        ModulationError { dividend, divisor } => {
            format!("ModulationError[{};{}]", enc_value(dividend), enc_value(divisor))
        },
        ContextNotMutable => "ContextNotMutable[]".into(),
        IllegalEscapeSequence(s) => format!("IllegalEscapeSequence[{}]", hex(s.as_bytes())),
        BuiltinFunctionsCannotBeEnabled => "BuiltinFunctionsCannotBeEnabled[]".into(),
        BuiltinFunctionsCannotBeDisabled => "BuiltinFunctionsCannotBeDisabled[]".into(),
        OutOfBoundsAccess => "OutOfBoundsAccess[]".into(),
        IntFromUsize { usize_int } => format!("IntFromUsize[{}]", usize_int),
        IntIntoUsize { int } => format!("IntIntoUsize[{}]", int),
        RandNotEnabled => "RandNotEnabled[]".into(),
        CustomMessage(s) => format!("CustomMessage[{}]", hex(s.as_bytes())),
        other => format!("Other[{:?}]", other),
    }
}

pub fn enc_res<T>(r: &Result<T, EvalexprError>, enc: impl Fn(&T) -> String) -> String {
    match r {
        Ok(v) => format!("ok {}", enc(v)),
        Err(e) => format!("err {}", enc_err(e)),
    }
}

/// minimal JSON string escaping
pub fn json_str(s: &str) -> String {
    let mut out = String::from("\"");
    for c in s.chars() {
        match c {
            '"' => out.push_str("\\\""),
            '\\' => out.push_str("\\\\"),
            '\n' => out.push_str("\\n"),
            '\r' => out.push_str("\\r"),
            '\t' => out.push_str("\\t"),
            c if (c as u32) < 0x20 => out.push_str(&format!("\\u{:04x}", c as u32)),
            c => out.push(c),
        }
    }
    out.push('"');
    out
}

/// inverse of `<str as Debug>::fmt` (without the surrounding quotes)
pub fn unescape_debug(s: &str) -> String {
    let mut out = String::new();
    let mut it = s.chars().peekable();
    while let Some(c) = it.next() {
        if c != '\\' {
            out.push(c);
            continue;
        }
        match it.next() {
            Some('n') => out.push('\n'),
            Some('r') => out.push('\r'),
            Some('t') => out.push('\t'),
            Some('0') => out.push('\0'),
            Some('\'') => out.push('\''),
            Some('"') => out.push('"'),
            Some('\\') => out.push('\\'),
            Some('u') => {
                it.next(); // {
                let mut v = 0u32;
                for d in it.by_ref() {
                    if d == '}' {
                        break;
                    }
                    v = v * 16 + d.to_digit(16).unwrap_or(0);
                }
                out.push(char::from_u32(v).unwrap_or('?'));
            },
            Some(o) => out.push(o),
            None => {},
        }
    }
    out
}
