#!/usr/bin/env python3
"""mutate_fn.py [workers] — mutation analysis of the FUNCTION-BODY TRANSLATOR (translate_fn.py + Proofs/AgreeFn*.lean).

For every single-token mutant (the operators of mutate.py) that lies inside a function translate_fn.py translates:
translate the mutated source (EVALEXPR_SRC = a private copy) into a private copy of the Lean project and rebuild the
agreement modules.  Outcomes per mutant:
  untranslatable   the translator refuses (exit != 0): reported as a broken obligation by ./check
  broken           an agreement theorem no longer checks: the mutant changes behaviour on some input (named theorem)
  agrees           every agreement theorem still checks: the mutant is PROVED equivalent to the model (if the translator
                   is sound) — these are listed for inspection; each must be a genuinely equivalent mutant
Works in /tmp/mutfn (copies of /repo/src at git HEAD and of /verif/lean incl. its build cache); touches neither /repo
nor /verif.  Writes notes/translate_fn/mutants.jsonl and prints a summary.  Not a check, not a proof: a validation of the
translator's rules (DESIGN §2.5)."""
import json, os, re, shutil, subprocess, sys
from concurrent.futures import ThreadPoolExecutor

sys.path.insert(0, os.path.dirname(os.path.abspath(__file__)))
import mutate  # noqa: E402  (candidates / SWAPS)
import translate as T  # noqa: E402

W = "/tmp/mutfn"
MODS = ["EvalexprVerif.Proofs." + m for m in ("AgreeFnValueType", "AgreeFnError", "AgreeFnValue", "AgreeFnNumeric", "AgreeFnBuiltin", "AgreeFnLexer", "AgreeFnContext", "AgreeFnOperator",
                                                "AgreeFnOperatorTables", "AgreeFnTree", "AgreeFnTreeBuild", "AgreeFnTokensToTree", "AgreeFnIter", "AgreeFnInterface", "AgreeFnSweep")]   # (tree-builder extension: + OperatorTables, TreeBuild, TokensToTree)


def sh(cmd, cwd=None, env=None, timeout=900):
    e = dict(os.environ)
    if env:
        e.update(env)
    p = subprocess.run(cmd, cwd=cwd, shell=True, stdout=subprocess.PIPE, stderr=subprocess.STDOUT, text=True, timeout=timeout, env=e)
    return p.returncode, p.stdout


def translated_ranges(src):
    """(file, fn name, first line, last line) of every fn item translate_fn.py translates (0-based, inclusive)"""
    os.environ["EVALEXPR_SRC"] = src
    T.SRC = src
    import translate_fn
    translate_fn.SRC = src
    translate_fn.OUT = f"{W}/gen_scratch"
    w, _ = translate_fn.run()
    return [(g.item.file, g.item.name, g.item.line - 1, (g.item.body_toks[-1].line if g.item.body_toks else g.item.line)) for g in w.order]


def main():
    workers = int(sys.argv[1]) if len(sys.argv) > 1 else 4
    shutil.rmtree(W, ignore_errors=True)
    os.makedirs(W)
    sh(f"git -C /repo archive HEAD src | tar -x -C {W}")
    os.makedirs(f"{W}/pristine")
    shutil.copytree(f"{W}/src", f"{W}/pristine/src")
    mutate.REPO = f"{W}/pristine"
    ranges = translated_ranges(f"{W}/pristine/src")
    cands = []
    for c in mutate.candidates():
        rel = c[0][len("src/"):]
        if any(r[0] == rel and r[2] <= c[1] <= r[3] for r in ranges):
            cands.append(c)
    print(f"{len(cands)} mutants inside {len(ranges)} translated fn items", flush=True)
    for k in range(workers):
        sh(f"rsync -a --exclude harness --exclude .git --exclude seeded --exclude evidence --exclude notes /verif/ {W}/v{k}/")
    jobs = [[] for _ in range(workers)]
    for i, c in enumerate(cands):
        jobs[i % workers].append(c)

    def work(k):
        out = []
        root = f"{W}/v{k}"
        src = f"{W}/s{k}"
        for c in jobs[k]:
            shutil.rmtree(src, ignore_errors=True)
            shutil.copytree(f"{W}/pristine/src", f"{src}/src")
            mutate.REPO = src  # apply() joins REPO with "src/..."
            rel, i, a, b, rep, pat = c
            path = os.path.join(src, rel)
            lines = open(path).read().split("\n")
            before = lines[i]
            lines[i] = before[:a] + rep + before[b:]
            open(path, "w").write("\n".join(lines))
            rc, o = sh("python3 translate_fn.py", cwd=root, env={"EVALEXPR_SRC": f"{src}/src"})
            if rc != 0:
                res = {"outcome": "untranslatable", "detail": o.strip()[-200:]}
            else:
                rc, o = sh("lake build " + " ".join(MODS), cwd=f"{root}/lean", timeout=1800)
                if rc != 0:
                    ths = sorted(set(re.findall(r"error: \S*?(AgreeFn\w+|Fn\w+)\.lean:(\d+)", o)))
                    res = {"outcome": "broken", "detail": "; ".join(f"{m}:{ln}" for m, ln in ths)[:200]}
                else:
                    res = {"outcome": "agrees", "detail": ""}
            res.update({"file": rel, "line": i + 1, "before": before.strip(), "after": lines[i].strip(), "op": pat})
            out.append(res)
            print(f"[{k}] {res['outcome']:15s} {rel}:{i+1}  {before.strip()[:60]}  ->  {lines[i].strip()[:60]}", flush=True)
        return out

    with ThreadPoolExecutor(workers) as ex:
        results = [r for rs in ex.map(work, range(workers)) for r in rs]
    os.makedirs("/verif/notes/translate_fn", exist_ok=True)
    with open("/verif/notes/translate_fn/mutants.jsonl", "w") as f:
        for r in results:
            f.write(json.dumps(r, ensure_ascii=False) + "\n")
    summary = {}
    for r in results:
        summary[r["outcome"]] = summary.get(r["outcome"], 0) + 1
    print("SUMMARY", summary)
    for r in results:
        if r["outcome"] == "agrees":
            print("AGREES", r["file"], r["line"], "|", r["before"], "->", r["after"])
    shutil.rmtree(W, ignore_errors=True)


if __name__ == "__main__":
    main()
