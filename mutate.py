#!/usr/bin/env python3
"""mutate.py [N] [seed] — mechanical mutation analysis of the correspondence harness, independent of /repo and /verif:
works in /tmp/mut (its own git worktree of /repo, its own copy of the harness with the path dependency redirected,
its own copy of the driver), so it can run next to anything else.

For N randomly chosen single-token mutants of /repo/src (relational / logical / arithmetic operator swaps, off-by-one
constants, boolean flips, dropped negations, sibling-method swaps, deleted call statements; test modules, Display impls
and the binary excluded):
  1. apply to /tmp/mut/repo, run the crate's own unit + integration tests (the 58 of the baseline);
  2. if they still pass (a change the existing tests cannot see), build the harness against it and run the quick slice of
     all 16 properties in parallel; record per property the number of spec violations (a concrete failing input found) and
     of model mismatches.
Results: /tmp/mut/results.jsonl (one line per mutant) and a summary on stdout.  Mutants that survive the tests AND every
slice are listed for inspection: each is either equivalent, outside the 16 properties, or a hole in a generator.
Nothing here is a proof and nothing is registered in MANIFEST.json; it measures how dense the model-validation is.
"""
import json, os, random, re, subprocess, sys, time
from concurrent.futures import ThreadPoolExecutor

MUT = "/tmp/mut"
REPO = f"{MUT}/repo"
HARNESS = f"{MUT}/harness"
ENV = dict(os.environ, CARGO_NET_OFFLINE="true", VERIF_DRIVER=f"{MUT}/driver")
PROPS = ["C%02d" % i for i in range(1, 17)]

SWAPS = [
    (r"<=", "<"), (r">=", ">"), (r"(?<![<=!>-])<(?![<=])(?=\s)", "<="), (r"(?<![-=>])>(?![>=])(?=\s)", ">="), (r"==", "!="), (r"!=", "=="),
    (r"&&", "||"), (r"\|\|", "&&"), (r" \+ ", " - "), (r" - ", " + "), (r" \* ", " / "), (r" / ", " * "),
    (r"\btrue\b", "false"), (r"\bfalse\b", "true"),
    (r"\bchecked_add\b", "checked_sub"), (r"\bchecked_sub\b", "checked_add"), (r"\bchecked_mul\b", "checked_div"), (r"\bchecked_div\b", "checked_rem"),
    (r"\bwrapping_shl\b", "wrapping_shr"), (r"\bwrapping_shr\b", "wrapping_shl"), (r"\.floor\(\)", ".ceil()"), (r"\.ceil\(\)", ".floor()"),
    (r"\.first\(\)", ".last()"), (r"\.last\(\)", ".first()"), (r"\.is_empty\(\)", ".is_empty() == false"), (r"\.min\(", ".max("), (r"\.max\(", ".min("),
    (r"\.is_some\(\)", ".is_none()"), (r"\.is_none\(\)", ".is_some()"), (r"\.is_ok\(\)", ".is_err()"), (r"\.is_err\(\)", ".is_ok()"),
    (r"(?<=[\s(,=])!(?=[a-zA-Z_(])", ""), (r"\bnext_if_eq\b", "next_if"), (r"\.len\(\) - 1", ".len()"), (r"\.len\(\) \+ 1", ".len()"),
    (r"\bSome\(0\)", "Some(1)"), (r"\bSome\(1\)", "Some(2)"), (r"\bSome\(2\)", "Some(1)"),
    (r"(?<![\w.])0(?![\w.])", "1"), (r"(?<![\w.])1(?![\w.])", "2"), (r"(?<![\w.])2(?![\w.])", "3"), (r"(?<![\w.])3(?![\w.])", "2"),
]
CALL_STMT = re.compile(r"^\s+[a-z_][\w.]*(\.[a-z_]\w*)*\([^;]*\)\??;\s*$")


def sh(cmd, cwd=None, timeout=900):
    p = subprocess.run(cmd, cwd=cwd, shell=True, stdout=subprocess.PIPE, stderr=subprocess.STDOUT, text=True, timeout=timeout, env=ENV)
    return p.returncode, p.stdout


def candidates():
    out = []
    for root, _, files in os.walk(f"{REPO}/src"):
        for f in files:
            path = os.path.join(root, f)
            rel = os.path.relpath(path, REPO)
            if not f.endswith(".rs") or "/bin/" in path or f == "display.rs" or "num_traits" in f:
                continue
            lines = open(path).read().split("\n")
            in_doc_or_test = False
            for i, line in enumerate(lines):
                st = line.strip()
                if st.startswith("#[cfg(test)]"):
                    break  # test modules are at the end of the files
                if st.startswith("//") or st.startswith("#[") or st.startswith("///") or not st:
                    continue
                if 'feature = "regex"' in line or 'feature = "rand"' in line:
                    continue
                code = line.split("//")[0]
                # skip string literal contents (error messages etc.)
                masked = re.sub(r'"(?:[^"\\]|\\.)*"', lambda m: '"' + "_" * (len(m.group(0)) - 2) + '"', code)
                for pat, rep in SWAPS:
                    for m in re.finditer(pat, masked):
                        out.append((rel, i, m.start(), m.end(), rep, pat))
                if CALL_STMT.match(masked) and "return" not in masked:
                    out.append((rel, i, 0, len(line), "", "delete-statement"))
    return out


def apply(mut):
    rel, i, a, b, rep, pat = mut
    path = os.path.join(REPO, rel)
    lines = open(path).read().split("\n")
    before = lines[i]
    lines[i] = before[:a] + rep + before[b:]
    open(path, "w").write("\n".join(lines))
    return before.strip(), lines[i].strip()


def run_slice(pid):
    out_json = f"{MUT}/out_{pid}.json"
    rc, out = sh(f"{HARNESS}/target/debug/harness {pid} quick 1 {out_json}", cwd=HARNESS, timeout=1200)
    try:
        d = json.load(open(out_json))
        first = (d["spec_violations"][0]["detail"][:160] if d["spec_violations"] else (d["model_mismatches"][0]["detail"][:160] if d["model_mismatches"] else ""))
        return pid, {"spec": len(d["spec_violations"]), "mm": len(d["model_mismatches"]), "infra": d.get("infra_error"), "first": first}
    except Exception as e:  # noqa: BLE001
        return pid, {"spec": 0, "mm": 0, "infra": f"rc={rc} {out[-200:]} {e}", "first": ""}


def main():
    n = int(sys.argv[1]) if len(sys.argv) > 1 else 200
    seed = int(sys.argv[2]) if len(sys.argv) > 2 else 1
    sh("git checkout -- .", cwd=REPO)
    cands = candidates()
    random.Random(seed).shuffle(cands)
    print(f"{len(cands)} candidate mutants, sampling {n} (seed {seed})", flush=True)
    res_path = f"{MUT}/results.jsonl"
    done = set()
    if os.path.exists(res_path):
        for l in open(res_path):
            r = json.loads(l)
            done.add((r["file"], r["line"], r["col"], r["op"]))
    stats = {"compile-error": 0, "killed-by-tests": 0, "survived-tests": 0, "caught-concrete": 0, "caught-mismatch-only": 0, "not-caught": 0}
    k = 0
    for mut in cands:
        if k >= n:
            break
        key = (mut[0], mut[1] + 1, mut[2], mut[5])
        if key in done:
            continue
        k += 1
        sh("git checkout -- .", cwd=REPO)
        before, after = apply(mut)
        rec = {"file": mut[0], "line": mut[1] + 1, "col": mut[2], "op": mut[5], "before": before, "after": after}
        t0 = time.time()
        rc, out = sh(f"CARGO_TARGET_DIR={MUT}/repo-target cargo test --offline --lib --tests 2>&1 | tail -40", cwd=REPO)
        if "error[" in out or "could not compile" in out or "error:" in out and "test result" not in out:
            rec["tests"] = "compile-error"
        elif "FAILED" in out or "failed" in out.split("test result")[-1] and " 0 failed" not in out.split("test result")[-1]:
            rec["tests"] = "killed"
        else:
            rec["tests"] = "pass"
        if rec["tests"] == "pass":
            rc, out = sh("cargo build --offline 2>&1 | tail -3", cwd=HARNESS)
            if "Finished" not in out:
                rec["tests"] = "harness-build-error"
            else:
                with ThreadPoolExecutor(8) as ex:
                    rec["slices"] = dict(ex.map(run_slice, PROPS))
        rec["wall_s"] = round(time.time() - t0, 1)
        if rec["tests"] == "compile-error" or rec["tests"] == "harness-build-error":
            stats["compile-error"] += 1
        elif rec["tests"] == "killed":
            stats["killed-by-tests"] += 1
        else:
            stats["survived-tests"] += 1
            sl = rec["slices"]
            if any(v["spec"] for v in sl.values()):
                stats["caught-concrete"] += 1
            elif any(v["mm"] or v["infra"] for v in sl.values()):
                stats["caught-mismatch-only"] += 1
            else:
                stats["not-caught"] += 1
                print("NOT CAUGHT:", rec["file"], rec["line"], rec["op"], "|", before, "=>", after, flush=True)
        open(res_path, "a").write(json.dumps(rec, ensure_ascii=False) + "\n")
        if k % 10 == 0:
            print(k, stats, flush=True)
    sh("git checkout -- .", cwd=REPO)
    print("FINAL", stats)


if __name__ == "__main__":
    main()
