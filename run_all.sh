#!/bin/sh
# run every registered quick (or thorough) check on the current tree; used before committing evidence
cd "$(dirname "$0")"
tier="${1:-quick}"
rc=0
# the whole library (All.lean imports every module: catches name clashes between proof files that single checks do not see)
(cd lean && lake build EvalexprVerif driver >/dev/null) || { echo "lake build EvalexprVerif failed"; rc=1; }
for id in $(python3 -c "import json;print(' '.join(k for k in json.load(open('props.json')) if not k.startswith('_')))"); do
  ./check "$id" "$tier" || rc=1
done
exit $rc
