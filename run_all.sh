#!/bin/sh
# run every registered quick (or thorough) check on the current tree; used before committing evidence
cd "$(dirname "$0")"
tier="${1:-quick}"
rc=0
for id in $(python3 -c "import json;print(' '.join(k for k in json.load(open('props.json')) if not k.startswith('_')))"); do
  ./check "$id" "$tier" || rc=1
done
exit $rc
