#!/usr/bin/env python3
"""translate.py — /repo/src  ->  lean/EvalexprVerif/Generated/*.lean

A small Rust token scanner (comments, string/char literals, identifiers, punctuation) with brace
matching.  It cuts out function items and `match` bodies and turns the table-shaped parts of the
evalexpr source into Lean definitions.  The Lean side proves `Generated.x = <model/spec table>`;
a source edit that changes a table therefore breaks a named proof obligation.

Only reads /repo/src (override with EVALEXPR_SRC).  Writes a file only when its content changes.
Exit status 0 also when a shape is not recognised: the generated file then contains
`def <table> : <type> := unrecognised% ...` which does not elaborate, so the obligation is reported
broken by the Lean build (and the message names the shape).
"""
import os
import re
import sys

SRC = os.environ.get("EVALEXPR_SRC", "/repo/src")
OUT = os.path.join(os.path.dirname(os.path.abspath(__file__)), "lean", "EvalexprVerif", "Generated")

# ----------------------------------------------------------------------------- scanner


class Tok:
    __slots__ = ("kind", "text", "line")

    def __init__(self, kind, text, line):
        self.kind, self.text, self.line = kind, text, line

    def __repr__(self):
        return f"{self.kind}:{self.text!r}"


PUNCT2 = ["=>", "::", "->", "==", "!=", "<=", ">=", "&&", "||", "..=", "..", "+=", "-=", "*=", "/=", "%=", "^="]


def scan(text):
    toks = []
    i, n, line = 0, len(text), 1
    while i < n:
        c = text[i]
        if c == "\n":
            line += 1
            i += 1
        elif c.isspace():
            i += 1
        elif text.startswith("//", i):
            j = text.find("\n", i)
            i = n if j < 0 else j
        elif text.startswith("/*", i):
            depth, j = 1, i + 2
            while j < n and depth:
                if text.startswith("/*", j):
                    depth, j = depth + 1, j + 2
                elif text.startswith("*/", j):
                    depth, j = depth - 1, j + 2
                else:
                    if text[j] == "\n":
                        line += 1
                    j += 1
            i = j
        elif c == '"' or (c in "br" and re.match(r'b?r?#*"', text[i:])):
            m = re.match(r'(b?)(r?)(#*)"', text[i:])
            raw, hashes = m.group(2) == "r", m.group(3)
            j = i + m.end()
            if raw:
                end = text.find('"' + hashes, j)
                body = text[j:end]
                j = end + 1 + len(hashes)
            else:
                start = j
                while text[j] != '"':
                    j += 2 if text[j] == "\\" else 1
                body = text[start:j]
                j += 1
            line += text[i:j].count("\n")
            toks.append(Tok("str", body, line))
            i = j
        elif c == "'":
            # char literal or lifetime
            m = re.match(r"'(\\.[^']*|[^\\'])'", text[i:])
            if m:
                toks.append(Tok("char", m.group(1), line))
                i += m.end()
            else:
                m = re.match(r"'[A-Za-z_][A-Za-z0-9_]*", text[i:])
                toks.append(Tok("lifetime", m.group(0), line))
                i += m.end()
        elif c.isalpha() or c == "_":
            m = re.match(r"[A-Za-z_][A-Za-z0-9_]*", text[i:])
            toks.append(Tok("id", m.group(0), line))
            i += m.end()
        elif c.isdigit():
            m = re.match(r"[0-9][0-9A-Za-z_]*(\.[0-9]+)?", text[i:])
            toks.append(Tok("num", m.group(0), line))
            i += m.end()
        else:
            for p in PUNCT2:
                if text.startswith(p, i):
                    toks.append(Tok("p", p, line))
                    i += len(p)
                    break
            else:
                toks.append(Tok("p", c, line))
                i += 1
    return toks


OPEN = {"(": ")", "[": "]", "{": "}"}
CLOSE = {")", "]", "}"}


def isopen(t):
    return t.kind == "p" and t.text in OPEN


def isclose(t):
    return t.kind == "p" and t.text in CLOSE


def isp(t, text):
    return t.kind == "p" and t.text == text


def match_close(toks, i):
    """toks[i] is an opening bracket; index of its partner"""
    depth = 0
    for j in range(i, len(toks)):
        t = toks[j]
        if isopen(t):
            depth += 1
        elif isclose(t):
            depth -= 1
            if depth == 0:
                return j
    raise ValueError("unbalanced")


def strip_test_modules(toks):
    """drop `#[cfg(test)] mod … { … }` items"""
    out, i = [], 0
    while i < len(toks):
        if (toks[i].text == "#" and i + 6 < len(toks) and [t.text for t in toks[i + 1:i + 7]] == ["[", "cfg", "(", "test", ")", "]"]):
            j = i + 7
            if toks[j].text == "mod":
                k = j
                while toks[k].text != "{":
                    k += 1
                i = match_close(toks, k) + 1
                continue
        out.append(toks[i])
        i += 1
    return out


def find_fns(toks, name):
    """all (signature_tokens, body_tokens) of `fn name`"""
    res = []
    for i, t in enumerate(toks):
        if t.kind == "id" and t.text == "fn" and i + 1 < len(toks) and toks[i + 1].text == name:
            j = i
            while toks[j].text not in ("{", ";"):
                # skip generic / paren groups wholesale
                if toks[j].text in ("(", "["):
                    j = match_close(toks, j)
                j += 1
            if toks[j].text == ";":
                continue
            k = match_close(toks, j)
            res.append((toks[i:j], toks[j + 1:k]))
    return res


def find_fn(toks, name, nth=0):
    return find_fns(toks, name)[nth]


def first_match(body, start=0):
    """first `match <scrutinee> { arms }` in body from `start`: (scrutinee, arms_tokens, end_index)"""
    for i in range(start, len(body)):
        if body[i].kind == "id" and body[i].text == "match":
            j = i + 1
            while body[j].text != "{":
                if body[j].text in ("(", "["):
                    j = match_close(body, j)
                j += 1
            k = match_close(body, j)
            return body[i + 1:j], body[j + 1:k], k
    raise ValueError("no match expression")


def split_arms(arms):
    """[(pattern_tokens, guard_tokens, expr_tokens)] at nesting depth 0"""
    res, i, n = [], 0, len(arms)
    while i < n:
        # pattern up to =>
        j, depth = i, 0
        while not (depth == 0 and isp(arms[j], "=>")):
            if isopen(arms[j]):
                depth += 1
            elif isclose(arms[j]):
                depth -= 1
            j += 1
        pat = arms[i:j]
        guard = []
        for g, t in enumerate(pat):
            if t.kind == "id" and t.text == "if" and bracket_depth(pat[:g]) == 0:
                pat, guard = pat[:g], pat[g + 1:]
                break
        j += 1
        # expression
        if isp(arms[j], "{"):
            k = match_close(arms, j)
            expr = arms[j:k + 1]
            k += 1
            if k < n and isp(arms[k], ","):
                k += 1
        else:
            k, depth = j, 0
            while k < n and not (depth == 0 and isp(arms[k], ",")):
                if isopen(arms[k]):
                    depth += 1
                elif isclose(arms[k]):
                    depth -= 1
                k += 1
            expr = arms[j:k]
            k += 1
        res.append((pat, guard, expr))
        i = k
    return res


def bracket_depth(toks):
    d = 0
    for t in toks:
        if isopen(t):
            d += 1
        elif isclose(t):
            d -= 1
    return d


def split_alternatives(pat):
    alts, cur, depth = [], [], 0
    for t in pat:
        if isopen(t):
            depth += 1
        elif isclose(t):
            depth -= 1
        if depth == 0 and isp(t, "|"):
            alts.append(cur)
            cur = []
        else:
            cur.append(t)
    alts.append(cur)
    return [a for a in alts if a]


def text_of(toks):
    out = []
    for t in toks:
        if t.kind == "str":
            out.append('"' + t.text + '"')
        elif t.kind == "char":
            out.append("'" + t.text + "'")
        else:
            out.append(t.text)
    return " ".join(out)


def variant_of(alt):
    """`Token :: Plus`, `Const { .. }`, `Add` -> last path identifier before any payload"""
    name = None
    for t in alt:
        if t.text in ("{", "("):
            break
        if t.kind == "id":
            name = t.text
    return name


def load(rel):
    with open(os.path.join(SRC, rel), encoding="utf-8") as f:
        return strip_test_modules(scan(f.read()))


# ----------------------------------------------------------------------------- naming

OPKIND = {
    "RootNode": "rootNode", "Add": "add", "Sub": "sub", "Neg": "neg", "Mul": "mul", "Div": "div", "Mod": "mod",
    "Exp": "exp", "Eq": "eq", "Neq": "neq", "Gt": "gt", "Lt": "lt", "Geq": "geq", "Leq": "leq", "And": "and",
    "Or": "or", "Not": "not", "Assign": "assign", "AddAssign": "addAssign", "SubAssign": "subAssign",
    "MulAssign": "mulAssign", "DivAssign": "divAssign", "ModAssign": "modAssign", "ExpAssign": "expAssign",
    "AndAssign": "andAssign", "OrAssign": "orAssign", "Tuple": "tuple", "Chain": "chain", "Const": "const",
    "VariableIdentifierWrite": "varWrite", "VariableIdentifierRead": "varRead", "FunctionIdentifier": "fn",
}


def lean_str(s):
    return '"' + s.replace("\\", "\\\\").replace('"', '\\"') + '"'


def lean_list(items, per_line=4, indent="  "):
    if not items:
        return "[]"
    lines = []
    for i in range(0, len(items), per_line):
        lines.append(indent + ", ".join(items[i:i + per_line]))
    return "[\n" + ",\n".join(lines) + "]"


class Unrecognised(Exception):
    pass


def guarded(name, lean_type, fn):
    """run an extractor; on failure emit a definition that cannot elaborate, naming the shape"""
    try:
        return fn()
    except Exception as e:  # noqa: BLE001
        msg = f"{type(e).__name__}: {e}".replace('"', "'")
        return f'def {name} : {lean_type} := (by exact unrecognised_source_shape : {lean_type}) -- {msg}\n'


# ----------------------------------------------------------------------------- extractors


def operator_tables():
    toks = load("operator/mod.rs")
    out = []

    def kinds_table(fn_name, conv):
        _, body = find_fn(toks, fn_name)
        _, arms, _ = first_match(body)
        rows = []
        for pat, guard, expr in split_arms(arms):
            if guard:
                raise Unrecognised(f"guard in {fn_name}")
            for alt in split_alternatives(pat):
                v = variant_of(alt)
                if v not in OPKIND:
                    raise Unrecognised(f"variant {v} in {fn_name}")
                rows.append(f"(.{OPKIND[v]}, {conv(expr)})")
        return rows

    def nat(expr):
        if len(expr) == 1 and expr[0].kind == "num":
            return expr[0].text
        raise Unrecognised("expected a numeric literal: " + text_of(expr))

    def optnat(expr):
        t = text_of(expr)
        if t == "None":
            return "none"
        m = re.fullmatch(r"Some \( (\d+) \)", t)
        if m:
            return f"some {m.group(1)}"
        raise Unrecognised("expected Some(n)/None: " + t)

    def matches_set(fn_name, negated):
        _, body = find_fn(toks, fn_name)
        t = text_of(body)
        m = re.fullmatch(r"use crate :: operator :: Operator :: \* ; (! )?matches ! \( self , (.*) \)", t)
        if not m or (m.group(1) is not None) != negated:
            raise Unrecognised(f"{fn_name}: " + t)
        vs = []
        for alt in m.group(2).split(" | "):
            v = alt.split(" ")[0]
            if v not in OPKIND:
                raise Unrecognised(f"variant {v} in {fn_name}")
            vs.append("." + OPKIND[v])
        return vs

    out.append(guarded("precedence", "List (OpKind × Nat)",
                       lambda: "def precedence : List (OpKind × Nat) := " + lean_list(kinds_table("precedence", nat)) + "\n"))
    out.append(guarded("maxArgumentAmount", "List (OpKind × Option Nat)",
                       lambda: "def maxArgumentAmount : List (OpKind × Option Nat) := " + lean_list(kinds_table("max_argument_amount", optnat)) + "\n"))
    out.append(guarded("notLeftToRight", "List OpKind",
                       lambda: "/-- `is_left_to_right` is `!matches!(self, …)` of these -/\ndef notLeftToRight : List OpKind := " + lean_list(matches_set("is_left_to_right", True), 8) + "\n"))
    out.append(guarded("sequence", "List OpKind",
                       lambda: "/-- `is_sequence` is `matches!(self, …)` of these -/\ndef sequence : List OpKind := " + lean_list(matches_set("is_sequence", False), 8) + "\n"))

    def derived():
        _, leaf = find_fn(toks, "is_leaf")
        _, unary = find_fn(toks, "is_unary")
        a, b = text_of(leaf), text_of(unary)
        if a != "self . max_argument_amount ( ) == Some ( 0 )":
            raise Unrecognised("is_leaf: " + a)
        if b != "self . max_argument_amount ( ) == Some ( 1 ) && * self != Operator :: RootNode":
            raise Unrecognised("is_unary: " + b)
        return "/-- `is_leaf` = (max_argument_amount == Some(0)); `is_unary` = (== Some(1) && != RootNode) -/\ndef derivedPredicatesRecognised : Bool := true\n"

    out.append(guarded("derivedPredicatesRecognised", "Bool", derived))
    return [("OperatorTables", "import EvalexprVerif.Model.Basic\n", out)]


TOKEN = {
    "Plus": "plus", "Minus": "minus", "Star": "star", "Slash": "slash", "Percent": "percent", "Hat": "hat",
    "Eq": "eq", "Neq": "neq", "Gt": "gt", "Lt": "lt", "Geq": "geq", "Leq": "leq", "And": "and", "Or": "or", "Not": "not",
    "LBrace": "lBrace", "RBrace": "rBrace", "Assign": "assign", "PlusAssign": "plusAssign", "MinusAssign": "minusAssign",
    "StarAssign": "starAssign", "SlashAssign": "slashAssign", "PercentAssign": "percentAssign", "HatAssign": "hatAssign",
    "AndAssign": "andAssign", "OrAssign": "orAssign", "Comma": "comma", "Semicolon": "semicolon",
    "Identifier": "identifier", "Float": "float", "Int": "int", "Boolean": "boolean", "String": "string",
}
PARTIAL = {
    "Plus": ".plus", "Minus": ".minus", "Star": ".star", "Slash": ".slash", "Percent": ".percent", "Hat": ".hat",
    "Whitespace": ".whitespace", "Eq": ".eq", "ExclamationMark": ".exclamationMark", "Gt": ".gt", "Lt": ".lt",
    "Ampersand": ".ampersand", "VerticalBar": ".verticalBar",
}


def token_tables():
    toks = load("token/mod.rs")
    tree = load("tree/mod.rs")
    out = []

    def char_map():
        _, body = find_fn(toks, "char_to_partial_token")
        _, arms, _ = first_match(body)
        rows, default_ok = [], False
        for pat, guard, expr in split_arms(arms):
            t = text_of(expr)
            if len(pat) == 1 and pat[0].kind == "char":
                ch = pat[0].text
                m = re.fullmatch(r"PartialToken :: Token \( Token :: (\w+) \)", t)
                if m:
                    val = f"(.token .{TOKEN[m.group(1)]})"
                else:
                    m = re.fullmatch(r"PartialToken :: (\w+)", t)
                    if not m:
                        raise Unrecognised("char arm: " + t)
                    val = PARTIAL[m.group(1)]
                rows.append(f"('{ch}', {val})")
            else:
                if t != "{ if c . is_whitespace ( ) { PartialToken :: Whitespace } else { PartialToken :: Literal ( c . to_string ( ) ) } }":
                    raise Unrecognised("default char arm: " + t)
                default_ok = True
        if not default_ok:
            raise Unrecognised("no default arm")
        return "/-- the explicit arms of `char_to_partial_token`; the default arm is `is_whitespace → Whitespace, else Literal` -/\ndef charMap : List (Char × PartialToken) := " + lean_list(rows) + "\n"

    out.append(guarded("charMap", "List (Char × PartialToken)", char_map))

    def sided(fn_name, lean_name):
        def go():
            _, body = find_fn(toks, fn_name)
            _, arms, _ = first_match(body)
            trues = []
            seen = set()
            for pat, guard, expr in split_arms(arms):
                for alt in split_alternatives(pat):
                    v = variant_of(alt)
                    seen.add(v)
                    val = text_of(expr)
                    if val not in ("true", "false"):
                        raise Unrecognised(fn_name + ": " + val)
                    if val == "true":
                        trues.append(lean_str(v))
            if seen != set(TOKEN):
                raise Unrecognised(f"{fn_name}: token variants {sorted(seen ^ set(TOKEN))}")
            return f"/-- the token variants for which `{fn_name}` is true -/\ndef {lean_name} : List String := " + lean_list(trues, 8) + "\n"
        return go

    out.append(guarded("leftsided", "List String", sided("is_leftsided_value", "leftsided")))
    out.append(guarded("rightsided", "List String", sided("is_rightsided_value", "rightsided")))

    def assignment():
        _, body = find_fn(toks, "is_assignment")
        t = text_of(body)
        m = re.fullmatch(r"use Token :: \* ; matches ! \( self , (.*) \)", t)
        if not m:
            raise Unrecognised("is_assignment: " + t)
        return "def assignmentTokens : List String := " + lean_list([lean_str(v) for v in m.group(1).split(" | ")], 8) + "\n"

    out.append(guarded("assignmentTokens", "List String", assignment))

    def token_operator():
        _, body = find_fn(tree, "tokens_to_operator_tree")
        # the `match token.clone() { … }`
        pos = 0
        while True:
            scrut, arms, pos = first_match(body, pos)
            if text_of(scrut).startswith("token . clone"):
                break
            pos += 1
        rows = []
        special = {}
        for pat, guard, expr in split_arms(arms):
            v = variant_of(pat)
            t = text_of(expr)
            m = re.fullmatch(r"Some \( Node :: new \( Operator :: (\w+) \) \)", t)
            if m:
                rows.append(f"({lean_str(v)}, .{OPKIND[m.group(1)]})")
                continue
            m = re.fullmatch(r"Some \( Node :: new \( Operator :: value \( Value :: (\w+) \( \w+ \) \) \) \)", t)
            if m:
                if m.group(1) != v:
                    raise Unrecognised(f"literal token {v} builds Value::{m.group(1)}")
                rows.append(f"({lean_str(v)}, .const)")
                continue
            special[v] = t
        want_minus = ("{ if last_token_is_rightsided_value { Some ( Node :: new ( Operator :: Sub ) ) } "
                      "else { Some ( Node :: new ( Operator :: Neg ) ) } }")
        if special.get("Minus") != want_minus:
            raise Unrecognised("Minus arm: " + str(special.get("Minus")))
        want_ident = ("{ let mut result = Some ( Node :: new ( Operator :: variable_identifier_read ( identifier . clone ( ) , ) ) ) ; "
                      "if let Some ( next ) = next { if next . is_assignment ( ) { result = Some ( Node :: new ( Operator :: variable_identifier_write ( identifier . clone ( ) , ) ) ) ; } "
                      "else if next . is_leftsided_value ( ) { result = Some ( Node :: new ( Operator :: function_identifier ( identifier ) ) ) ; } } result }")
        if special.get("Identifier") != want_ident:
            raise Unrecognised("Identifier arm: " + str(special.get("Identifier")))
        if set(special) != {"Minus", "Identifier", "LBrace", "RBrace"}:
            raise Unrecognised("special arms: " + str(sorted(special)))
        return ("/-- the one-line arms `Token::X => Some(Node::new(Operator::Y))`; `Minus` (Sub after a right-sided value, else Neg),\n"
                "`Identifier` (write before an assignment, function before a left-sided value, else read), `LBrace`, `RBrace` are recognised by shape -/\n"
                "def tokenOperator : List (String × OpKind) := " + lean_list(rows) + "\n")

    out.append(guarded("tokenOperator", "List (String × OpKind)", token_operator))

    def pipeline():
        # the glue: tokenize = partial_tokens_to_tokens(str_to_partial_tokens(s)?), parse_dec_or_hex, the literal arm's order of attempts
        _, body = find_fn(toks, "tokenize")
        t = text_of(body)
        if t != "partial_tokens_to_tokens ( & str_to_partial_tokens ( string ) ? )":
            raise Unrecognised("tokenize: " + t)
        _, body = find_fn(toks, "parse_dec_or_hex")
        t = text_of(body)
        want = ('if let Some ( literal ) = literal . strip_prefix ( "0x" ) { NumericTypes :: Int :: from_hex_str ( literal ) } '
                "else { NumericTypes :: Int :: from_str ( literal ) . map_err ( | _ | ( ) ) }")
        if t != want:
            raise Unrecognised("parse_dec_or_hex: " + t)
        _, body = find_fn(toks, "parse_escape_sequence")
        t = text_of(body)
        want = ("match iter . next ( ) { Some ( '\"' ) => Ok ( '\"' ) , Some ( '\\\\' ) => Ok ( '\\\\' ) , "
                'Some ( c ) => Err ( EvalexprError :: IllegalEscapeSequence ( format ! ( "\\\\{}" , c ) ) ) , '
                'None => Err ( EvalexprError :: IllegalEscapeSequence ( "\\\\" . to_string ( ) ) ) , }')
        if t != want:
            raise Unrecognised("parse_escape_sequence: " + t)
        return "/-- `tokenize`, `parse_dec_or_hex`, `parse_escape_sequence` have the recognised bodies -/\ndef lexerGlueRecognised : Bool := true\n"

    out.append(guarded("lexerGlueRecognised", "Bool", pipeline))
    return [("TokenTables", "import EvalexprVerif.Model.Basic\n", out)]


def builtin_tables():
    toks = load("function/builtin.rs")
    num = load("value/numeric_types/default_numeric_types.rs")
    out = []

    def table():
        _, body = find_fn(toks, "builtin_function")
        _, arms, _ = first_match(body)
        rows = []
        gated_next = False
        i = 0
        # walk arms manually to see `#[cfg(feature = …)]` attributes
        for pat, guard, expr in split_arms(arms):
            ptxt = text_of(pat)
            gated = ptxt.startswith("# [ cfg ( feature")
            name_tok = [t for t in pat if t.kind == "str"]
            if pat[-1].text == "_":
                if text_of(expr) != "None":
                    raise Unrecognised("default arm: " + text_of(expr))
                continue
            if gated:
                continue  # optional features (regex, rand) are outside the 49 builtins
            name = name_tok[-1].text
            t = text_of(expr)
            m = re.fullmatch(r"simple_math ! \( (\w+) \)", t)
            if m:
                rows.append((name, "simple_math1", m.group(1)))
                continue
            m = re.fullmatch(r"simple_math ! \( (\w+) , 2 \)", t)
            if m:
                rows.append((name, "simple_math2", m.group(1)))
                continue
            m = re.fullmatch(r"float_is \( NumericTypes :: Float :: (\w+) \)", t)
            if m:
                rows.append((name, "float_is", m.group(1)))
                continue
            m = re.fullmatch(r"int_function ! \( (\w+) \)", t)
            if m:
                rows.append((name, "int_function1", m.group(1)))
                continue
            m = re.fullmatch(r"int_function ! \( (\w+) , 2 \)", t)
            if m:
                rows.append((name, "int_function2", m.group(1)))
                continue
            if t.startswith("Some ( Function :: new ("):
                rows.append((name, "closure", ""))
                continue
            raise Unrecognised("builtin arm " + name + ": " + t)
        items = [f"({lean_str(a)}, {lean_str(b)}, {lean_str(c)})" for a, b, c in rows]
        return "/-- `builtin_function`: name ↦ (helper, trait method); hand-written closures are `closure` -/\ndef builtinTable : List (String × String × String) := " + lean_list(items, 3) + "\n"

    out.append(guarded("builtinTable", "List (String × String × String)", table))

    def macros():
        # the two macro bodies and float_is: argument conversion and argument order
        src = open(os.path.join(SRC, "function/builtin.rs"), encoding="utf-8").read()
        flat = " ".join(src.split())
        want = [
            "let num = argument.as_number()?; Ok(Value::Float(num.$func()))",
            "let tuple = argument.as_fixed_len_tuple(2)?; let (a, b) = (tuple[0].as_number()?, tuple[1].as_number()?); Ok(Value::Float(a.$func(&b)))",
            "Ok(func(&argument.as_number()?).into())",
            "let int: NumericTypes::Int = argument.as_int()?; Ok(Value::Int(int.$func()))",
            "let tuple = argument.as_fixed_len_tuple(2)?; let (a, b): (NumericTypes::Int, NumericTypes::Int) = (tuple[0].as_int()?, tuple[1].as_int()?); Ok(Value::Int(a.$func(&b)))",
        ]
        for w in want:
            if w not in flat:
                raise Unrecognised("helper body: " + w)
        return "/-- `simple_math!`, `float_is`, `int_function!` have the recognised bodies (argument conversion, order a then b) -/\ndef builtinHelpersRecognised : Bool := true\n"

    out.append(guarded("builtinHelpersRecognised", "Bool", macros))

    def trait_map(impl_marker, lean_name, doc):
        def go():
            # find `impl … EvalexprFloat<NumericTypes> for f64 { … }`
            idx = None
            for i, t in enumerate(num):
                if t.text == "impl":
                    j = i
                    while num[j].text != "{":
                        if num[j].text in ("(", "["):
                            j = match_close(num, j)
                        j += 1
                    head = text_of(num[i:j])
                    if impl_marker in head:
                        idx = j
                        break
            if idx is None:
                raise Unrecognised("impl " + impl_marker)
            body = num[idx + 1:match_close(num, idx)]
            rows = []
            i = 0
            while i < len(body):
                if body[i].text == "fn":
                    name = body[i + 1].text
                    j = i
                    while body[j].text != "{":
                        if body[j].text in ("(", "["):
                            j = match_close(body, j)
                        j += 1
                    k = match_close(body, j)
                    rows.append((name, text_of(body[j + 1:k])))
                    i = k
                i += 1
            items = [f"({lean_str(a)}, {lean_str(b)})" for a, b in rows]
            return f"/-- {doc} -/\ndef {lean_name} : List (String × String) := " + lean_list(items, 1) + "\n"
        return go

    out.append(guarded("floatTrait", "List (String × String)", trait_map("EvalexprFloat < NumericTypes > for f64", "floatTrait", "`impl EvalexprFloat for f64`: method ↦ body")))
    out.append(guarded("intTrait", "List (String × String)", trait_map("EvalexprInt < NumericTypes > for i64", "intTrait", "`impl EvalexprInt for i64`: method ↦ body")))

    def conversions():
        t = None
        for i, tok in enumerate(num):
            if tok.text == "fn" and num[i + 1].text == "int_as_float":
                _, body = find_fn(num, "int_as_float")
                t = text_of(body)
        if t != "* int as Self :: Float":
            raise Unrecognised("int_as_float: " + str(t))
        return "/-- `int_as_float` is `*int as f64` -/\ndef intAsFloatRecognised : Bool := true\n"

    out.append(guarded("intAsFloatRecognised", "Bool", conversions))
    return [("BuiltinTable", "", out[:2]), ("NumericTraits", "", out[2:])]


def entry_points():
    itf = load("interface/mod.rs")
    tree = load("tree/mod.rs")
    out = []

    KINDS = ["string", "int", "float", "number", "boolean", "tuple", "empty"]

    def wrapper_row(level, toks, name):
        """(level, name, inner call, arms)"""
        fns = find_fns(toks, name)
        if len(fns) != 1:
            raise Unrecognised(f"{level} fn {name}: {len(fns)} definitions")
        sig, body = fns[0]
        t = text_of(body)
        # form A: delegate to another entry point with a fresh HashMapContext
        m = re.fullmatch(r"(?:self \. )?(\w+) \( (?:string , )?& mut HashMapContext (?::: < DefaultNumericTypes > )?:: new \( \) \)", t)
        if m:
            return (level, name, "fresh:" + m.group(1), "")
        # form B: match <inner>(…) { arms }
        m = re.fullmatch(r"match (?:self \. )?(\w+) \( (?:string , )?context \) \{ (.*) \}", t)
        if m:
            inner = m.group(1)
            specific, catchall, errarm = [], None, None
            armtoks = first_match(body)[1]
            for pat, guard, expr in split_arms(armtoks):
                p, e = text_of(pat), text_of(expr)
                if guard:
                    raise Unrecognised(f"{name}: guard")
                mm = re.fullmatch(r"Ok \( Value :: (\w+) \( (\w+) \) \)", p)
                if mm:
                    if catchall is not None:
                        raise Unrecognised(f"{name}: variant arm after the catch-all")
                    var = mm.group(2)
                    if e == f"Ok ( {var} )":
                        specific.append(mm.group(1) + ":payload")
                    elif re.fullmatch(r"Ok \( (?:< [\w: ]+ as EvalexprNumericTypes > ::|NumericTypes ::) int_as_float \( & " + var + r" ,? ?\) \)", e) and mm.group(1) == "Int":
                        specific.append("Int:int_as_float")
                    else:
                        raise Unrecognised(f"{name}: arm {p} => {e}")
                    continue
                if p == "Ok ( Value :: Empty )":
                    if e != "Ok ( EMPTY_VALUE )" or catchall is not None:
                        raise Unrecognised(f"{name}: arm {p} => {e}")
                    specific.append("Empty:unit")
                    continue
                mm = re.fullmatch(r"Ok \( (\w+) \)", p)
                if mm:
                    me = re.fullmatch(r"Err \( EvalexprError :: (expected_\w+) \( " + mm.group(1) + r" \) \)", e)
                    if not me:
                        raise Unrecognised(f"{name}: arm {p} => {e}")
                    catchall = "*:" + me.group(1)
                    continue
                mm = re.fullmatch(r"Err \( (\w+) \)", p)
                if mm and e == f"Err ( {mm.group(1)} )":
                    errarm = "Err:pass"
                    continue
                raise Unrecognised(f"{name}: arm {p} => {e}")
            if catchall is None or errarm is None:
                raise Unrecognised(f"{name}: missing catch-all or error arm")
            return (level, name, "match:" + inner, "|".join(sorted(specific) + [catchall, errarm]))
        # form C: the untyped evaluators themselves
        return (level, name, "body", t)

    def table():
        rows = []
        for level, toks, prefix in (("string", itf, ""), ("tree", tree, "")):
            names = ["eval", "eval_with_context", "eval_with_context_mut"]
            for k in KINDS:
                names += [f"eval_{k}", f"eval_{k}_with_context", f"eval_{k}_with_context_mut"]
            for n in names:
                rows.append(wrapper_row(level, toks, n))
        items = [f"({lean_str(a)}, {lean_str(b)}, {lean_str(c)}, {lean_str(d)})" for a, b, c, d in rows]
        return ("/-- the 24 string-level and 24 tree-level entry points: (level, name, inner call, match arms / body) -/\n"
                "def entryPoints : List (String × String × String × String) := " + lean_list(items, 1) + "\n")

    out.append(guarded("entryPoints", "List (String × String × String × String)", table))

    def build_tree():
        _, body = find_fn(itf, "build_operator_tree")
        t = text_of(body)
        if t != "tree :: tokens_to_operator_tree ( token :: tokenize ( string ) ? )":
            raise Unrecognised("build_operator_tree: " + t)
        return "def buildOperatorTreeRecognised : Bool := true\n"

    out.append(guarded("buildOperatorTreeRecognised", "Bool", build_tree))

    def eval_arms():
        op = load("operator/mod.rs")
        _, body = find_fn(op, "eval")
        _, arms, _ = first_match(body)
        assign_arm = None
        for pat, guard, expr in split_arms(arms):
            vs = [variant_of(a) for a in split_alternatives(pat)]
            if "Assign" in vs:
                assign_arm = (sorted(vs), text_of(expr))
        if assign_arm is None:
            raise Unrecognised("no assignment arm in Operator::eval")
        _, mbody = find_fn(op, "eval_mut")
        _, marms, _ = first_match(mbody)
        fall = None
        for pat, guard, expr in split_arms(marms):
            if text_of(pat) == "_":
                fall = text_of(expr)
        items = [lean_str(v) for v in assign_arm[0]]
        return ("/-- the arm of the read-only `Operator::eval` that covers the assignment operators, and the fall-through of `eval_mut` -/\n"
                "def evalAssignArm : List String × String := (" + lean_list(items, 9) + ", " + lean_str(assign_arm[1]) + ")\n"
                "def evalMutFallthrough : String := " + lean_str(str(fall)) + "\n")

    out.append(guarded("evalAssignArm", "List String × String", eval_arms))
    return [("EntryPoints", "", out[:2]), ("EvalArms", "", out[2:])]


IMPURE_IDS = {"Cell", "RefCell", "UnsafeCell", "Mutex", "RwLock", "OnceCell", "OnceLock", "LazyLock", "LazyCell", "lazy_static",
              "thread_local", "AtomicBool", "AtomicUsize", "AtomicU64", "AtomicI64", "AtomicU32", "AtomicI32", "AtomicPtr",
              "AtomicIsize", "AtomicU8", "unsafe", "Rc"}


def all_source_files():
    res = []
    for root, _, files in os.walk(SRC):
        for f in sorted(files):
            if f.endswith(".rs"):
                res.append(os.path.relpath(os.path.join(root, f), SRC))
    return sorted(res)


def enclosing_fn_map(toks):
    """index -> name of the innermost enclosing fn"""
    res = [""] * len(toks)
    stack = []  # (close_index, name)
    i = 0
    pending = None
    while i < len(toks):
        while stack and i > stack[-1][0]:
            stack.pop()
        t = toks[i]
        if t.kind == "id" and t.text == "fn" and i + 1 < len(toks) and toks[i + 1].kind == "id":
            pending = toks[i + 1].text
        if t.text == "{" and pending is not None:
            stack.append((match_close(toks, i), pending))
            pending = None
        elif t.text == ";" and pending is not None and bracket_depth(toks[max(0, i - 40):i]) <= 0:
            pending = None
        res[i] = stack[-1][1] if stack else ""
        i += 1
    return res


def inventory():
    out = []

    def impure():
        sites = []
        for rel in all_source_files():
            if rel.startswith("bin/"):
                continue
            toks = load(rel)
            for i, t in enumerate(toks):
                if t.kind == "id" and t.text in IMPURE_IDS:
                    sites.append(f"{rel}:{t.text}")
                if t.kind == "id" and t.text == "static" and i + 1 < len(toks) and toks[i + 1].kind == "id":
                    # `static NAME:` or `static mut NAME:`; not the `'static` lifetime (a lifetime token)
                    sites.append(f"{rel}:static {toks[i + 1].text}")
        return ("/-- statics, interior mutability, locks, atomics, `unsafe`, `Rc`, thread-locals in non-test library code -/\n"
                "def impureSites : List String := " + lean_list([lean_str(s) for s in sites], 4) + "\n")

    out.append(guarded("impureSites", "List String", impure))

    def attrs():
        toks = load("lib.rs")
        attrs = []
        for i, t in enumerate(toks):
            if t.text == "#" and toks[i + 1].text == "!" and toks[i + 2].text == "[":
                k = match_close(toks, i + 2)
                attrs.append(text_of(toks[i + 3:k]))
        return "def crateAttrs : List String := " + lean_list([lean_str(a) for a in attrs], 2) + "\n"

    out.append(guarded("crateAttrs", "List String", attrs))

    def panics():
        """potentially panicking constructs in non-test library code"""
        sites = []
        for rel in all_source_files():
            if rel.startswith("bin/"):
                continue
            toks = load(rel)
            encl = enclosing_fn_map(toks)
            for i, t in enumerate(toks):
                kind = None
                if t.kind == "id" and t.text in ("unwrap", "expect") and toks[i - 1].text == "." and toks[i + 1].text == "(":
                    kind = t.text
                elif t.kind == "id" and t.text in ("unreachable", "panic", "todo", "unimplemented", "assert", "assert_eq",
                                                      "assert_ne", "debug_assert", "debug_assert_eq") and toks[i + 1].text == "!":
                    kind = t.text + "!"
                elif t.kind == "id" and t.text in ("swap_remove", "remove", "split_at", "copy_from_slice") and toks[i - 1].text == "." and toks[i + 1].text == "(":
                    kind = t.text
                elif t.text == "[" and i > 0 and (toks[i - 1].kind == "id" and toks[i - 1].text not in ("vec", "matches") and toks[i - 1].text[0].islower()
                                                   or toks[i - 1].text in (")", "]")) and toks[i - 1].text not in ("mut", "in", "return", "let", "as"):
                    # indexing / slicing expression `x[...]`
                    if toks[i - 2].text == "#" or toks[i - 1].text == "!":
                        continue
                    k = match_close(toks, i)
                    kind = "index[" + text_of(toks[i + 1:k]) + "]"
                elif t.text in ("+", "-", "*", "/", "%", "<<", ">>") and False:
                    pass
                if kind:
                    sites.append(f"{rel}:{encl[i]}:{kind}")
            # raw arithmetic / shifts on integers: the std ops traits used in the numeric impl
            if rel.endswith("default_numeric_types.rs"):
                for i, t in enumerate(toks):
                    if t.kind == "id" and t.text in ("Shl", "Shr", "Add", "Sub", "Mul", "Div", "Rem", "Neg") and toks[i + 1].text == "::":
                        sites.append(f"{rel}:{encl[i]}:ops::{t.text}")
                    if t.kind == "id" and t.text == "abs" and toks[i - 1].text == "." and encl[i] == "abs" and toks[i - 3].text == "self":
                        sites.append(f"{rel}:{encl[i]}:raw abs")
        counts = {}
        for site in sites:
            counts[site] = counts.get(site, 0) + 1
        items = [f"({lean_str(k)}, {v})" for k, v in sorted(counts.items())]
        return ("/-- every construct that can panic, in non-test library code (Display impls included): (file : enclosing fn : construct, occurrences) -/\n"
                "def panicSites : List (String × Nat) := " + lean_list(items, 2) + "\n")

    out.append(guarded("panicSites", "List (String × Nat)", panics))

    def iter_bodies():
        toks = load("tree/iter.rs")
        fns = find_fns(toks, "next")
        if len(fns) != 2:
            raise Unrecognised(f"{len(fns)} `next` functions in tree/iter.rs")
        a = text_of(fns[0][1])
        b = text_of(fns[1][1])
        return ("/-- the bodies of `NodeIter::next` and `OperatorIterMut::next` -/\n"
                "def nodeIterNext : String := " + lean_str(a) + "\n"
                "def operatorIterMutNext : String := " + lean_str(b) + "\n"
                "/-- `NodeIter::next` with `iter()` ↦ `iter_mut()` and the yielded node ↦ its operator -/\n"
                "def nodeIterNextAsMut : String := " + lean_str(a.replace("children . iter ( )", "children . iter_mut ( )").replace("return Some ( result )", "return Some ( & mut result . operator )")) + "\n")

    out.append(guarded("nodeIterNext", "String", iter_bodies))

    def iter_filters():
        toks = load("tree/mod.rs")
        rows = []
        for name in ["iter_identifiers", "iter_variable_identifiers", "iter_read_variable_identifiers",
                     "iter_write_variable_identifiers", "iter_function_identifiers"]:
            for suffix, src in (("", "self . iter ( )"), ("_mut", "self . iter_operators_mut ( )")):
                _, body = find_fn(toks, name + suffix)
                t = text_of(body)
                if not t.startswith(src + " . filter_map"):
                    raise Unrecognised(name + suffix + ": " + t)
                _, arms, _ = first_match(body)
                kept = []
                for pat, guard, expr in split_arms(arms):
                    if text_of(expr).startswith("Some"):
                        kept = sorted(variant_of(a) for a in split_alternatives(pat))
                rows.append(f"({lean_str(name + suffix)}, {lean_list([lean_str(k) for k in kept], 3)})")
        return ("/-- each identifier iterator: source iterator recognised, and the operator variants it keeps -/\n"
                "def iterFilters : List (String × List String) := " + lean_list(rows, 1) + "\n")

    out.append(guarded("iterFilters", "List (String × List String)", iter_filters))

    def serde_shape():
        ctx = open(os.path.join(SRC, "context/mod.rs"), encoding="utf-8").read()
        val = open(os.path.join(SRC, "value/mod.rs"), encoding="utf-8").read()
        fs = open(os.path.join(SRC, "feature_serde/mod.rs"), encoding="utf-8").read()
        rows = []
        m = re.search(r"((?:#\[[^\n]*\]\s*)+)pub struct HashMapContext[^{]*\{(.*?)\n\}", ctx, re.S)
        if not m:
            raise Unrecognised("HashMapContext item")
        rows.append(("HashMapContext.attrs", " ".join(a.strip() for a in re.findall(r"#\[[^\n]*\]", m.group(1)))))
        rows.append(("HashMapContext.fields", " ".join(m.group(2).split())))
        m = re.search(r"((?:#\[[^\n]*\]\s*)+)pub enum Value[^{]*\{", val)
        if not m:
            raise Unrecognised("Value item")
        rows.append(("Value.attrs", " ".join(a.strip() for a in re.findall(r"#\[[^\n]*\]", m.group(1)))))
        flat = " ".join(fs.split())
        m = re.search(r"fn visit_str<E>\(self, v: &str\) -> Result<Self::Value, E> where E: de::Error, \{ (.*?) \} \}", flat)
        rows.append(("Node.visit_str", m.group(1) if m else "?"))
        m = re.search(r"fn deserialize<D>\(deserializer: D\) -> Result<Self, D::Error> where D: Deserializer<'de>, \{ (.*?) \}", flat)
        rows.append(("Node.deserialize", m.group(1) if m else "?"))
        items = [f"({lean_str(a)}, {lean_str(b)})" for a, b in rows]
        return "def serdeShape : List (String × String) := " + lean_list(items, 1) + "\n"

    out.append(guarded("serdeShape", "List (String × String)", serde_shape))

    def context_policies():
        toks = load("context/mod.rs")
        rows = []
        # impl Context for X { … are_builtin_functions_disabled … set_builtin_functions_disabled … }
        i = 0
        while i < len(toks):
            if toks[i].text == "impl":
                j = i
                while toks[j].text != "{":
                    if toks[j].text in ("(", "["):
                        j = match_close(toks, j)
                    j += 1
                head = text_of(toks[i:j])
                k = match_close(toks, j)
                m = re.search(r"> (\w+) for (\w+)", head)
                if m and m.group(1) == "Context":
                    body = toks[j + 1:k]
                    for fn in ("get_value", "call_function", "are_builtin_functions_disabled", "set_builtin_functions_disabled"):
                        _, b = find_fn(body, fn)
                        rows.append((m.group(2) + "." + fn, text_of(b)))
                i = k
            i += 1
        items = [f"({lean_str(a)}, {lean_str(b)})" for a, b in rows]
        return "/-- the `Context` implementations of the three provided contexts -/\ndef contextPolicies : List (String × String) := " + lean_list(items, 1) + "\n"

    out.append(guarded("contextPolicies", "List (String × String)", context_policies))
    return [("Purity", "", out[0:2]), ("PanicSites", "", out[2:3]), ("IterBodies", "", out[3:5]), ("SerdeShape", "", out[5:6]), ("ContextPolicies", "", out[6:7])]


FP_GROUPS = {
    # group -> [(file, [function names]; an empty list = every fn item of the file)]
    "Lexer": [("token/mod.rs", ["char_to_partial_token", "is_leftsided_value", "is_rightsided_value", "is_assignment", "parse_escape_sequence",
                                "parse_string_literal", "try_skip_comment", "str_to_partial_tokens", "partial_tokens_to_tokens", "tokenize",
                                "parse_dec_or_hex"])],
    "Tree": [("tree/mod.rs", ["new", "root_node", "has_enough_children", "has_too_many_children", "insert_back_prioritized",
                              "collapse_root_stack_to", "collapse_all_sequences", "tokens_to_operator_tree"]),
             ("operator/mod.rs", ["precedence", "is_left_to_right", "is_sequence", "is_leaf", "max_argument_amount", "is_unary"])],
    "Eval": [("tree/mod.rs", ["eval_with_context", "eval_with_context_mut"]),
             ("operator/mod.rs", ["eval", "eval_mut", "value", "variable_identifier_write", "variable_identifier_read", "function_identifier"]),
             ("error/mod.rs", ["expect_operator_argument_amount", "expect_number_or_string", "expected_type", "wrong_operator_argument_amount"]),
             ("value/mod.rs", []), ("value/value_type.rs", []), ("function/mod.rs", ["call", "new"])],
    "Context": [("context/mod.rs", [])],
    "Builtin": [("function/builtin.rs", []), ("value/display.rs", [])],
    "Numeric": [("value/numeric_types/default_numeric_types.rs", [])],
    "Iter": [("tree/iter.rs", []),
             ("tree/mod.rs", ["iter_identifiers", "iter_identifiers_mut", "iter_variable_identifiers", "iter_variable_identifiers_mut",
                              "iter_read_variable_identifiers", "iter_read_variable_identifiers_mut", "iter_write_variable_identifiers",
                              "iter_write_variable_identifiers_mut", "iter_function_identifiers", "iter_function_identifiers_mut",
                              "children", "operator", "children_mut", "operator_mut"])],
    "Interface": [("interface/mod.rs", []),
                  ("tree/mod.rs", ["eval"] + [f"eval_{k}{m}" for k in ("string", "int", "float", "number", "boolean", "tuple", "empty")
                                                for m in ("", "_with_context", "_with_context_mut")])],
    "Serde": [("feature_serde/mod.rs", ["deserialize", "visit_str"])],
}


# functions whose BODIES are translated to Lean by translate_fn.py and proved equal to the model (Proofs/AgreeFn*.lean)
# are tied semantically, so their source text is not fingerprinted: a semantics-preserving rewrite of one of them keeps
# checking, a behavioural edit breaks a named agreement theorem.
def translated_fn_sites():
    """{(file, line of the `fn` token)} of every fn item translate_fn.py translates on this run (empty if it fails:
    then every function is fingerprinted again and the run is broken anyway)"""
    import translate_fn
    try:
        w, _ = translate_fn.run()
    except Exception:  # noqa: BLE001
        return set()
    return {(g.item.file, g.item.line) for g in w.order}


def all_fn_names(toks):
    names = []
    for i, t in enumerate(toks):
        if t.kind == "id" and t.text == "fn" and i + 1 < len(toks) and toks[i + 1].kind == "id":
            if toks[i + 1].text not in names:
                names.append(toks[i + 1].text)
    return names


def fingerprints():
    """sha256 of the normalised token text (signature + body) of every modelled function, per group:
    the hand-written model was validated against exactly this text"""
    import hashlib
    res = []
    translated = translated_fn_sites()
    for group, parts in FP_GROUPS.items():
        def go(parts=parts):
            rows = []
            for rel, names in parts:
                toks = load(rel)
                raw = open(os.path.join(SRC, rel), encoding="utf-8").read()
                if rel == "function/builtin.rs":
                    # the macros are not fn items: fingerprint the whole file's token text — unless `builtin_function` (the
                    # dispatch, its closures and the macro expansions) is translated and proved on this run
                    bf = find_fns(toks, "builtin_function")
                    if not (bf and (rel, bf[0][0][0].line) in translated):
                        rows.append((rel + "::<file>", hashlib.sha256(text_of(toks).encode()).hexdigest()[:32]))
                    continue
                _ = raw
                for name in (names or all_fn_names(toks)):
                    fns = find_fns(toks, name)
                    if not fns:
                        raise Unrecognised(f"{rel}: fn {name} not found")
                    for k, (sig, body) in enumerate(fns):
                        if (rel, sig[0].line) in translated:
                            continue
                        h = hashlib.sha256((text_of(sig) + " { " + text_of(body) + " }").encode()).hexdigest()[:32]
                        rows.append((f"{rel}::{name}" + (f"#{k}" if len(fns) > 1 else ""), h))
            body = ",\n".join(f"  0x{b}  /- {a} -/" for a, b in rows)
            return (f"/-- normalised-source fingerprints of the functions the `{group}` part of the model transcribes -/\n"
                    f"def fp{group} : List Nat := [\n{body}]\n")
        res.append(("Fp" + group, "", [guarded("fp" + group, "List Nat", go)]))
    return res


def emit(name, imports, defs):
    header = ("/- GENERATED by /verif/translate.py from /repo/src on every run — do not edit. -/\n" + imports +
              "\nnamespace Evalexpr.Generated\nopen Evalexpr\n\n")
    text = header + "\n".join(defs) + "\nend Evalexpr.Generated\n"
    path = os.path.join(OUT, name + ".lean")
    old = None
    if os.path.exists(path):
        with open(path, encoding="utf-8") as f:
            old = f.read()
    if old != text:
        os.makedirs(OUT, exist_ok=True)
        with open(path, "w", encoding="utf-8") as f:
            f.write(text)
        return True
    return False


def main():
    changed = []
    unrecognised = []
    failed = False
    for extractor in (operator_tables, token_tables, builtin_tables, entry_points, inventory, fingerprints):
        try:
            produced = extractor()
        except Exception as e:  # noqa: BLE001  (a source file vanished or cannot be scanned at all)
            print(f"translate: FAILED {extractor.__name__}: {type(e).__name__}: {e}")
            failed = True
            continue
        for name, imports, defs in produced:
            for d in defs:
                if "unrecognised_source_shape" in d:
                    unrecognised.append(name + ": " + d.strip().split("--", 1)[-1].strip())
            if emit(name, imports, defs):
                changed.append(name)
    print("translate: regenerated " + (", ".join(changed) if changed else "nothing (tables unchanged)"))
    for u in unrecognised:
        print("translate: UNRECOGNISED " + u)
    # function bodies: Rust -> Lean definitions (Generated/Fn*.lean), proved equal to the model by Proofs/AgreeFn*.lean
    import translate_fn
    if translate_fn.main() != 0:
        failed = True
    return 1 if failed else 0


if __name__ == "__main__":
    sys.exit(main())
