#!/usr/bin/env python3
"""Regenerates MANIFEST.json from props.json (single source for which properties are claimed)."""
import json, os
ROOT = os.path.dirname(os.path.abspath(__file__))
props = json.load(open(os.path.join(ROOT, "props.json")))
all_ids = [json.loads(l)["id"] for l in open(os.path.join(ROOT, "properties.jsonl"))]
checks = []
for pid in all_ids:
    if pid not in props:
        continue
    c = props[pid]
    checks.append({
        "property_id": pid,
        "quick_cmd": f"./check {pid} quick",
        "thorough_cmd": f"./check {pid} thorough",
        "evidence_file": f"/verif/evidence/{pid}.json",
        "replay_cmd_template": f"./check {pid} --replay {{path}}",
        "engine": "lean4-proof+correspondence",
        "level_claimed": {"category": "proof", "text": c["level_text"], "design_ref": c.get("design_ref", "DESIGN.md §6")},
        "level_note": c["level_note"],
        "technique": c["technique"],
    })
manifest = {
    "version": 1,
    "setup_cmd": "./setup.sh",
    "hooks": {
        "guard": "cargo feature verif-hooks",
        "enable": "--features verif-hooks (set by the path dependency in /verif/harness/Cargo.toml)",
        "baseline_off_cmd": "cd /repo && cargo test --workspace --no-fail-fast --offline",
        "source_commits": ["d44e22e"],
        "add_only": True,
    },
    "engines": [
        {"name": "lean4-proof+correspondence", "path": "/verif/check",
         "serves_properties": [c["property_id"] for c in checks],
         "kind_free_text": "Lean 4 theorems about a hand-written model of evalexpr (lean/EvalexprVerif), tables re-extracted from /repo/src by translate.py and the bodies of 238 functions (lexer, tree builder, evaluator, contexts, builtins, entry points) translated Rust->Lean by translate_fn.py on every run and proved equal to the model's (Proofs/Agree*.lean, Proofs/AgreeFn*.lean), model additionally tied to the real crate by a differential harness (harness/) speaking a line protocol to the compiled model (lean/Driver.lean)"}
    ],
    "checks": checks,
    "not_applicable": [{"property_id": pid, "reason": props.get("_pending", {}).get(pid, "not claimed yet: model exists, theorems and correspondence slice for this property are still being built (see DESIGN.md §11)")} for pid in all_ids if pid not in props],
    "notes": "Every check: translate (tables + function bodies) -> lake build (property theorems + generated-table equalities + generated-function agreement theorems) -> axiom audit -> differential harness -> verdict. See DESIGN.md (section 0 and 2.5).",
}
json.dump(manifest, open(os.path.join(ROOT, "MANIFEST.json"), "w"), indent=1, ensure_ascii=False)
print("MANIFEST.json:", len(checks), "checks,", len(manifest["not_applicable"]), "not claimed")
