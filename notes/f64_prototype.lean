/-! Exact decimal -> binary64 (round to nearest even) and shortest round-trip digits, over Nat. -/
namespace F64

/-- round the positive rational n/d to binary64 bits (sign bit clear) -/
def roundRat (n d : Nat) : UInt64 :=
  if n == 0 then 0 else
  -- estimate e2 with 2^52 <= n / (d * 2^e2) < 2^53
  let est : Int := (n.log2 : Int) - (d.log2 : Int) - 52
  let scaled (e2 : Int) : Nat × Nat :=   -- numerator, denominator of n / (d * 2^e2)
    if e2 ≥ 0 then (n, d * 2 ^ e2.toNat) else (n * 2 ^ (-e2).toNat, d)
  let fix (e2 : Int) : Int :=
    let (a, b) := scaled e2
    if a / b < 2 ^ 52 then e2 - 1 else if a / b ≥ 2 ^ 53 then e2 + 1 else e2
  let e2 := fix (fix est)
  let e2 := if e2 < -1074 then -1074 else e2
  let (a, b) := scaled e2
  let q := a / b
  let r := a % b
  let q := if 2 * r > b then q + 1 else if 2 * r == b then (if q % 2 == 1 then q + 1 else q) else q
  let (q, e2) := if q ≥ 2 ^ 53 then (q / 2, e2 + 1) else (q, e2)
  if q < 2 ^ 52 then q.toUInt64                       -- subnormal (e2 = -1074) or zero
  else if e2 + 1075 ≥ 2047 then 0x7ff0000000000000    -- overflow to +inf
  else ((e2 + 1075).toNat * 2 ^ 52 + (q - 2 ^ 52)).toUInt64

def isDigit (c : Char) : Bool := '0' ≤ c && c ≤ '9'
def digitsVal (cs : List Char) : Nat := cs.foldl (fun a c => a * 10 + (c.toNat - 48)) 0

/-- Rust `f64::from_str` on an unsigned ASCII word (sign handled by caller); none = parse error -/
def parseUnsigned (cs : List Char) : Option UInt64 :=
  let lower := cs.map Char.toLower
  if lower == "inf".toList || lower == "infinity".toList then some 0x7ff0000000000000
  else if lower == "nan".toList then some 0x7ff8000000000000
  else
    let ip := cs.takeWhile isDigit
    let rest := cs.dropWhile isDigit
    let (fp, rest, hasDot) := match rest with
      | '.' :: r => (r.takeWhile isDigit, r.dropWhile isDigit, true)
      | r => ([], r, false)
    let _ := hasDot
    if ip.isEmpty && fp.isEmpty then none else
    let expo : Option Int := match rest with
      | [] => some 0
      | e :: r =>
        if e == 'e' || e == 'E' then
          let (neg, r) := match r with
            | '-' :: r' => (true, r') | '+' :: r' => (false, r') | r' => (false, r')
          if r.isEmpty || !r.all isDigit then none
          else
            let v := digitsVal (r.take 12) * (if r.length > 12 then 10 ^ 6 else 1)   -- saturate absurd exponents
            some (if neg then -(v : Int) else v)
        else none
    match expo with
    | none => none
    | some e10 =>
      let m := digitsVal (ip ++ fp)
      let e10 := e10 - fp.length
      let nd := (ip ++ fp).length
      if m == 0 then some 0
      else if e10 + nd > 400 then some 0x7ff0000000000000
      else if e10 + nd < -400 then some 0
      else if e10 ≥ 0 then some (roundRat (m * 10 ^ e10.toNat) 1)
      else some (roundRat m (10 ^ (-e10).toNat))

/-- shortest digits (Burger–Dybvig free-format), returns (digits, k) meaning 0.d1d2… × 10^k -/
partial def shortest (bits : UInt64) : List Nat × Int :=
  let be := ((bits >>> 52) &&& 0x7ff).toNat
  let frac := (bits &&& 0xfffffffffffff).toNat
  let (m, e) : Nat × Int := if be == 0 then (frac, -1074) else (frac + 2 ^ 52, (be : Int) - 1075)
  let even := m % 2 == 0
  let boundary := frac == 0 && be > 1
  let (r, s, mp, mm) : Nat × Nat × Nat × Nat :=
    if e ≥ 0 then
      let be := 2 ^ e.toNat
      if !boundary then (m * be * 2, 2, be, be) else (m * be * 4, 4, be * 2, be)
    else
      if !boundary then (m * 2, 2 ^ ((-e).toNat + 1), 1, 1) else (m * 4, 2 ^ ((-e).toNat + 2), 2, 1)
  -- find k: smallest with (r + mp) / s < 10^k  (≤ when bounds inclusive)
  let hiOK (r s mp : Nat) : Bool := if even then r + mp ≥ s else r + mp > s
  let rec scale (r s mp mm : Nat) (k : Int) (fuel : Nat) : Nat × Nat × Nat × Nat × Int :=
    match fuel with
    | 0 => (r, s, mp, mm, k)
    | fuel + 1 =>
      if hiOK r s mp then scale r (s * 10) mp mm (k + 1) fuel
      else if hiOK (r * 10) s (mp * 10) then (r, s, mp, mm, k)
      else scale (r * 10) s (mp * 10) (mm * 10) (k - 1) fuel
  let (r, s, mp, mm, k) := scale r s mp mm 0 800
  let rec gen (r mp mm : Nat) (acc : List Nat) (fuel : Nat) : List Nat :=
    match fuel with
    | 0 => acc.reverse
    | fuel + 1 =>
      let d := r * 10 / s
      let r := r * 10 % s
      let mp := mp * 10
      let mm := mm * 10
      let tc1 := if even then r ≤ mm else r < mm
      let tc2 := if even then r + mp ≥ s else r + mp > s
      if !tc1 && !tc2 then gen r mp mm (d :: acc) fuel
      else if tc1 && !tc2 then (d :: acc).reverse
      else if !tc1 && tc2 then ((d + 1) :: acc).reverse
      else if 2 * r < s then (d :: acc).reverse else ((d + 1) :: acc).reverse
  (gen r mp mm [] 30, k)

/-- Rust `Display` for f64 -/
def display (bits : UInt64) : String :=
  let neg := bits >>> 63 == 1
  let mag := bits &&& 0x7fffffffffffffff
  if mag > 0x7ff0000000000000 then "NaN"
  else
    let sign := if neg then "-" else ""
    if mag == 0x7ff0000000000000 then sign ++ "inf"
    else if mag == 0 then sign ++ "0"
    else
      let (ds, k) := shortest mag
      let dstr := String.ofList (ds.map fun d => Char.ofNat (48 + d))
      let n : Int := ds.length
      if k ≤ 0 then sign ++ "0." ++ String.ofList (List.replicate (-k).toNat '0') ++ dstr
      else if k ≥ n then sign ++ dstr ++ String.ofList (List.replicate (k - n).toNat '0')
      else sign ++ String.ofList (dstr.toList.take k.toNat) ++ "." ++ String.ofList (dstr.toList.drop k.toNat)
end F64

def hex (n : UInt64) : String := String.ofList (Nat.toDigits 16 n.toNat)
def unhex (s : String) : UInt64 := (s.foldl (fun acc c => acc * 16 + (if c.isDigit then c.toNat - 48 else c.toNat - 87)) 0).toUInt64

partial def loop (h out : IO.FS.Stream) : IO Unit := do
  let line ← h.getLine
  if line.isEmpty then return ()
  match line.trimAscii.toString.splitOn " " with
  | ["p", w] => out.putStrLn (match F64.parseUnsigned w.toList with | some b => hex b | none => "err")
  | ["d", b] => out.putStrLn (F64.display (unhex b))
  | _ => out.putStrLn "?"
  loop h out
def main : IO Unit := do loop (← IO.getStdin) (← IO.getStdout)
