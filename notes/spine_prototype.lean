inductive Op
  | root | add | mul | exp | neg | assign | fn (s : String) | const (n : Int) | var (s : String)
deriving Repr, DecidableEq, Inhabited

def Op.prec : Op → Nat
  | .root => 200 | .add => 95 | .mul => 100 | .exp => 120 | .neg => 110 | .assign => 50
  | .fn _ => 190 | .const _ => 200 | .var _ => 200

def Op.ltr : Op → Bool
  | .assign => false | .fn _ => false | _ => true

def Op.maxArgs : Op → Nat
  | .add | .mul | .exp | .assign => 2
  | .neg | .root | .fn _ => 1
  | .const _ | .var _ => 0

def Op.isLeaf (o : Op) : Bool := o.maxArgs == 0
def Op.isUnary (o : Op) : Bool := o.maxArgs == 1 && o != .root

structure Node where
  op : Op
  children : List Node
deriving Repr, Inhabited

inductive Err | appendedToLeaf | precedenceViolation | missingOperator | panic
deriving Repr, DecidableEq

/-- the test at the top of `insert_back_prioritized` (and again on the last child) -/
def descends (selfOp nodeOp : Op) (isRoot : Bool) : Bool :=
  selfOp.prec < nodeOp.prec || nodeOp.isUnary || isRoot ||
    (selfOp.prec == nodeOp.prec && !selfOp.ltr && !nodeOp.ltr)

mutual
def ins : Node → Node → Bool → Except Err Node
  | ⟨op, cs⟩, node, isRoot =>
    if descends op node.op isRoot then
      if op.isLeaf then .error .appendedToLeaf
      else if cs.length == op.maxArgs then
        insLast op cs node
      else .ok ⟨op, cs ++ [node]⟩
    else .error .precedenceViolation
/-- operate on the last child of `cs` (the `has_enough_children` branch) -/
def insLast (op : Op) : List Node → Node → Except Err Node
  | [], _ => .error .panic
  | [c], node =>
    if descends c.op node.op false then
      match ins c node false with
      | .ok c' => .ok ⟨op, [c']⟩
      | .error e => .error e
    else
      if node.op.isLeaf then .error .appendedToLeaf
      else .ok ⟨op, [⟨node.op, node.children ++ [c]⟩]⟩   -- rotate (root/root checks elided in this prototype)
  | c :: c2 :: cs, node =>
    match insLast op (c2 :: cs) node with
    | .ok ⟨op', cs'⟩ => .ok ⟨op', c :: cs'⟩
    | .error e => .error e
end

#eval ins ⟨.root, []⟩ ⟨.const 1, []⟩ true

/-- a frame of the right spine: an operator and its already-complete left children -/
structure Frame where
  op : Op
  left : List Node

def plug : List Frame → Node → Node
  | [], t => t
  | f :: fs, t => ⟨f.op, f.left ++ [plug fs t]⟩

/-- spine with an open slot at the tip -/
def plugOpen : List Frame → Frame → Node
  | fs, tip => plug fs ⟨tip.op, tip.left⟩


/-- lifting a result computed on the last child through the untouched prefix -/
def liftRes (pre : List Node) : Except Err Node → Except Err Node
  | .ok ⟨op', cs'⟩ => .ok ⟨op', pre ++ cs'⟩
  | .error e => .error e

theorem insLast_cons (op : Op) (c : Node) (cs : List Node) (node : Node) (h : cs ≠ []) :
    insLast op (c :: cs) node = liftRes [c] (insLast op cs node) := by
  cases cs with
  | nil => exact absurd rfl h
  | cons c2 rest =>
    simp only [insLast]
    cases insLast op (c2 :: rest) node with
    | error e => rfl
    | ok n => cases n; rfl

/-- `insLast` on `left ++ [x]` only looks at `x`. -/
theorem insLast_append (op : Op) (left : List Node) (x node : Node) :
    insLast op (left ++ [x]) node = liftRes left (insLast op [x] node) := by
  induction left with
  | nil =>
    simp only [List.nil_append]
    cases h : insLast op [x] node with
    | error e => rfl
    | ok n => cases n; simp [liftRes]
  | cons c left ih =>
    rw [List.cons_append, insLast_cons _ _ _ _ (by simp), ih]
    cases h : insLast op [x] node with
    | error e => rfl
    | ok n => cases n; simp [liftRes]

def firstOp (fs : List Frame) (tip : Frame) : Op :=
  match fs with
  | [] => tip.op
  | f :: _ => f.op

def Frame.full (f : Frame) : Prop := f.left.length + 1 = f.op.maxArgs

/-- every frame below the first admits `node` (the repeated precedence test) -/
def admits (node : Node) (f : Frame) : Prop := descends f.op node.op false = true

theorem ins_plug_append (fs : List Frame) (tip : Frame) (node : Node) (isRoot : Bool)
    (hfull : ∀ f ∈ fs, f.full)
    (hopen : tip.left.length < tip.op.maxArgs)
    (hadm : ∀ f ∈ fs.tail ++ [tip], admits node f)
    (hfirst : descends (firstOp fs tip) node.op isRoot = true) :
    ins (plug fs ⟨tip.op, tip.left⟩) node isRoot = .ok (plug fs ⟨tip.op, tip.left ++ [node]⟩) := by
  induction fs generalizing isRoot with
  | nil =>
    simp [plug, ins, firstOp] at *
    have hleaf : tip.op.isLeaf = false := by
      simp [Op.isLeaf]; omega
    simp [hfirst, hleaf]
    omega
  | cons f fs ih =>
    have hf : f.full := hfull f (by simp)
    simp only [plug, ins]
    simp [firstOp] at hfirst
    have hleaf : f.op.isLeaf = false := by
      simp [Op.isLeaf]; unfold Frame.full at hf; omega
    have hlen : ((f.left ++ [plug fs ⟨tip.op, tip.left⟩]).length == f.op.maxArgs) = true := by
      simp; exact hf
    simp only [hfirst, hleaf, hlen, if_true]
    rw [insLast_append]
    -- the child below `f`
    have hchild : descends (plug fs ⟨tip.op, tip.left⟩).op node.op false = true := by
      cases fs with
      | nil => simpa [plug, admits] using hadm tip (by simp)
      | cons g gs => simpa [plug, admits] using hadm g (by simp)
    have hrec := ih false (fun g hg => hfull g (by simp [hg]))
      (by
        intro g hg
        apply hadm
        cases fs with
        | nil => simpa using hg
        | cons g' gs => simp at hg ⊢; rcases hg with hg | hg <;> simp [hg])
      (by
        cases fs with
        | nil => simpa [admits, firstOp] using hadm tip (by simp)
        | cons g gs => simpa [admits, firstOp] using hadm g (by simp))
    simp [insLast, hchild, hrec, liftRes]

/-- A binary operator arriving on a complete spine `A ++ B` descends through `A` and rotates
at the first child (`plug B t`) that does not admit it; `B` and `t` are never examined further. -/
theorem ins_plug_rotate (a : Frame) (A B : List Frame) (t node : Node) (isRoot : Bool)
    (hfull : ∀ f ∈ a :: A, f.full)
    (hadm : ∀ f ∈ A, admits node f)
    (hfirst : descends a.op node.op isRoot = true)
    (hstop : descends (plug B t).op node.op false = false)
    (hnl : node.op.isLeaf = false) :
    ins (plug ((a :: A) ++ B) t) node isRoot
      = .ok (plug (a :: A) ⟨node.op, node.children ++ [plug B t]⟩) := by
  induction A generalizing a isRoot with
  | nil =>
    have hf : a.full := hfull a (by simp)
    simp only [List.cons_append, List.nil_append, plug, ins]
    have hleaf : a.op.isLeaf = false := by
      simp [Op.isLeaf]; unfold Frame.full at hf; omega
    have hlen : ((a.left ++ [plug B t]).length == a.op.maxArgs) = true := by
      simp; exact hf
    simp only [hfirst, hleaf, hlen, if_true]
    rw [insLast_append]
    simp [insLast, hstop, hnl, liftRes]
  | cons g A ih =>
    have hf : a.full := hfull a (by simp)
    simp only [List.cons_append, plug, ins]
    have hleaf : a.op.isLeaf = false := by
      simp [Op.isLeaf]; unfold Frame.full at hf; omega
    have hlen : ∀ x : Node, ((a.left ++ [x]).length == a.op.maxArgs) = true := by
      intro x; simp; exact hf
    simp only [hfirst, hleaf, hlen, if_true]
    rw [insLast_append]
    have hg : descends g.op node.op false = true := hadm g (by simp)
    have hrec := ih g false (fun f hf' => hfull f (by simp at hf' ⊢; rcases hf' with h | h <;> simp [h]))
      (fun f hf' => hadm f (by simp [hf'])) hg
    simp only [List.cons_append, plug] at hrec
    simp [insLast, hg, hrec, liftRes, plug]
