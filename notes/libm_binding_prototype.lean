@[extern "fmod"] opaque fmodF : Float → Float → Float
@[extern "hypot"] opaque hypotF : Float → Float → Float
@[extern "log1p"] opaque log1pF : Float → Float
@[extern "copysign"] opaque copysignF : Float → Float → Float

def rAsinh (x : Float) : Float :=
  let ax := x.abs
  let ix := 1.0 / ax
  copysignF (log1pF (ax + (ax / (hypotF 1.0 ix + ix)))) x
def rAcosh (x : Float) : Float :=
  if x < 1.0 then Float.ofBits 0x7ff8000000000000 else Float.log (x + (Float.sqrt (x - 1.0) * Float.sqrt (x + 1.0)))
def rAtanh (x : Float) : Float := 0.5 * log1pF ((2.0 * x) / (1.0 - x))

def hex (n : UInt64) : String := String.ofList (Nat.toDigits 16 n.toNat)
def unhex (s : String) : UInt64 := (s.foldl (fun acc c => acc * 16 + (if c.isDigit then c.toNat - 48 else c.toNat - 87)) 0).toUInt64

def apply1 (f : String) (a : Float) : Option Float :=
  match f with
  | "sin" => some a.sin | "cos" => some a.cos | "tan" => some a.tan
  | "asin" => some a.asin | "acos" => some a.acos | "atan" => some a.atan
  | "sinh" => some a.sinh | "cosh" => some a.cosh | "tanh" => some a.tanh
  | "asinh" => some (rAsinh a) | "acosh" => some (rAcosh a) | "atanh" => some (rAtanh a)
  | "exp" => some a.exp | "exp2" => some a.exp2 | "ln" => some a.log | "log2" => some a.log2 | "log10" => some a.log10
  | "sqrt" => some a.sqrt | "cbrt" => some a.cbrt | "floor" => some a.floor | "ceil" => some a.ceil | "round" => some a.round
  | "abs" => some a.abs | "neg" => some (-a)
  | _ => none
def apply2 (f : String) (a b : Float) : Option Float :=
  match f with
  | "pow" => some (a.pow b) | "atan2" => some (a.atan2 b) | "hypot" => some (hypotF a b) | "fmod" => some (fmodF a b)
  | "log" => some (a.log / b.log)
  | "add" => some (a + b) | "sub" => some (a - b) | "mul" => some (a * b) | "div" => some (a / b)
  | _ => none

partial def loop (h : IO.FS.Stream) (out : IO.FS.Stream) : IO Unit := do
  let line ← h.getLine
  if line.isEmpty then return ()
  match line.trimAscii.toString.splitOn " " with
  | [f, a] =>
    match apply1 f (Float.ofBits (unhex a)) with
    | some r => out.putStrLn (hex r.toBits)
    | none => if f == "i2f" then out.putStrLn (hex (Int64.toFloat (unhex a).toInt64).toBits) else out.putStrLn "?"
  | [f, a, b] =>
    match apply2 f (Float.ofBits (unhex a)) (Float.ofBits (unhex b)) with
    | some r => out.putStrLn (hex r.toBits)
    | none => out.putStrLn "?"
  | _ => out.putStrLn "?"
  loop h out

def main : IO Unit := do loop (← IO.getStdin) (← IO.getStdout)
