#!/usr/bin/env python3
"""experiments on /tmp/tr2/src: each edit is applied to a fresh copy of src_ref, translated, and the agreement modules are built"""
import os, re, shutil, subprocess, sys, time, json

REF, SRC, VERIF = "/tmp/tr2/src_ref", "/tmp/tr2/src", "/tmp/tr2/verif"
MODS = ["EvalexprVerif.Proofs.AgreeFnOperatorTables", "EvalexprVerif.Proofs.AgreeFnTreeBuild",
        "EvalexprVerif.Proofs.AgreeFnTokensToTree", "EvalexprVerif.Proofs.AgreeFnInterface"]

T, O, K = "tree/mod.rs", "operator/mod.rs", "token/mod.rs"

MUTANTS = [
  ("M01 `<` -> `<=` in the first precedence test of insert_back_prioritized", T,
   "if self.operator().precedence() < node.operator().precedence() || node.operator().is_unary() || is_root_node",
   "if self.operator().precedence() <= node.operator().precedence() || node.operator().is_unary() || is_root_node"),
  ("M02 drop `|| node.operator().is_unary()` (first test)", T,
   "if self.operator().precedence() < node.operator().precedence() || node.operator().is_unary() || is_root_node",
   "if self.operator().precedence() < node.operator().precedence() || is_root_node"),
  ("M03 flip is_left_to_right of Assign", O,
   "!matches!(self, Assign | FunctionIdentifier { .. })", "!matches!(self, FunctionIdentifier { .. })"),
  ("M04 swap the precedences of Add|Sub and Mul|Div|Mod", O,
   "Add | Sub => 95,\n            Neg => 110,\n            Mul | Div | Mod => 100,",
   "Add | Sub => 100,\n            Neg => 110,\n            Mul | Div | Mod => 95,"),
  ("M05 has_enough_children with `>=`", T,
   "Some(self.children().len()) == self.operator().max_argument_amount()",
   "match self.operator().max_argument_amount() { Some(m) => self.children().len() >= m, None => false }"),
  ("M06 collapse_root_stack_to `>` -> `>=`", T,
   "                    > collapse_goal.operator().precedence()", "                    >= collapse_goal.operator().precedence()"),
  ("M07 Minus is always Sub", T, "Some(Node::new(Operator::Neg))", "Some(Node::new(Operator::Sub))"),
  ("M08 the identifier arm tests is_rightsided_value", T, "} else if next.is_leftsided_value() {", "} else if next.is_rightsided_value() {"),
  ("M09 juxtaposition test: drop `token == Token::Not ||`", T,
   "&& (token == Token::Not || (token.is_leftsided_value() && !last_token_is_identifier))",
   "&& (token.is_leftsided_value() && !last_token_is_identifier)"),
  ("M10 push order of the two children of a new sequence swapped", T,
   "                        node.children.push(root);\n                        node.children.push(Node::root_node());\n                        root_stack.push(Node::root_node());",
   "                        node.children.push(Node::root_node());\n                        node.children.push(root);\n                        root_stack.push(Node::root_node());"),
  ("M11 UnmatchedLBrace / UnmatchedRBrace swapped at the end", T,
   "        Err(EvalexprError::UnmatchedLBrace)\n    } else if let Some(root) = root_stack.pop() {\n        Ok(root)\n    } else {\n        Err(EvalexprError::UnmatchedRBrace)",
   "        Err(EvalexprError::UnmatchedRBrace)\n    } else if let Some(root) = root_stack.pop() {\n        Ok(root)\n    } else {\n        Err(EvalexprError::UnmatchedLBrace)"),
  ("M12 is_sequence: Chain dropped", O, "matches!(self, Tuple | Chain)", "matches!(self, Tuple)"),
  ("M13 is_assignment: OrAssign dropped", K, "                | AndAssign\n                | OrAssign\n", "                | AndAssign\n"),
  ("M14 RBrace: `root_stack.len() <= 1` -> `< 1`", T, "if root_stack.len() <= 1 {", "if root_stack.len() < 1 {"),
  ("M15 max_argument_amount of Not is 2", O, "Not | Neg | RootNode => Some(1),", "Neg | RootNode => Some(1),\n            Not => Some(2),"),
  ("M16 collapse_all_sequences: the has_too_many_children test of the root case dropped", T,
   "            if root.has_too_many_children() {\n                return Err(EvalexprError::MissingOperatorOutsideOfBrace);\n            }\n\n            root_stack.push(root);\n            break;",
   "            root_stack.push(root);\n            break;"),
  ("M17 insert_back_prioritized recurses with is_root_node = true", T, ".insert_back_prioritized(node, false)", ".insert_back_prioritized(node, true)"),
  ("M18 the flags are updated from the wrong predicates (is_leftsided_value)", T,
   "last_token_is_rightsided_value = token.is_rightsided_value();", "last_token_is_rightsided_value = token.is_leftsided_value();"),
  ("M19 collapse_root_stack_to loops forever instead of failing on an empty stack", T,
   "            // This is the only way the topmost root node could have been removed\n            return Err(EvalexprError::UnmatchedRBrace);\n        }\n    }\n\n    Ok(root)",
   "            continue;\n        }\n    }\n\n    Ok(root)"),
  ("M20 is_leftsided_value(LBrace) = false", K, "            Token::LBrace => true,\n            Token::RBrace => false,\n\n            Token::Comma => false,\n            Token::Semicolon => false,\n\n            Token::Assign => false,\n            Token::PlusAssign => false,\n            Token::MinusAssign => false,\n            Token::StarAssign => false,\n            Token::SlashAssign => false,\n            Token::PercentAssign => false,\n            Token::HatAssign => false,\n            Token::AndAssign => false,\n            Token::OrAssign => false,\n\n            Token::Identifier(_) => true,\n            Token::Float(_) => true,\n            Token::Int(_) => true,\n            Token::Boolean(_) => true,\n            Token::String(_) => true,\n        }\n    }\n\n    #[cfg(not(tarpaulin_include))]\n    pub(crate) const fn is_rightsided_value",
   "            Token::LBrace => false,\n            Token::RBrace => false,\n\n            Token::Comma => false,\n            Token::Semicolon => false,\n\n            Token::Assign => false,\n            Token::PlusAssign => false,\n            Token::MinusAssign => false,\n            Token::StarAssign => false,\n            Token::SlashAssign => false,\n            Token::PercentAssign => false,\n            Token::HatAssign => false,\n            Token::AndAssign => false,\n            Token::OrAssign => false,\n\n            Token::Identifier(_) => true,\n            Token::Float(_) => true,\n            Token::Int(_) => true,\n            Token::Boolean(_) => true,\n            Token::String(_) => true,\n        }\n    }\n\n    #[cfg(not(tarpaulin_include))]\n    pub(crate) const fn is_rightsided_value"),
]

REWRITES = [
  ("R01 rename locals (root_stack -> stack, token_iter -> it, potential_higher_root -> phr, last_child -> lc)", T,
   [(re.compile(r"\broot_stack\b"), "stack"), (re.compile(r"\btoken_iter\b"), "it"), (re.compile(r"\bpotential_higher_root\b"), "phr"),
    (re.compile(r"\blast_child_operator\b"), "lco"), (re.compile(r"\blast_child\b"), "lc"), (re.compile(r"\blast_token_is_identifier\b"), "a_flag")]),
  ("R02 `if let` <-> `match` (collapse_root_stack_to pop; final pop of tokens_to_operator_tree)", T,
   [("        if let Some(mut potential_higher_root) = root_stack.pop() {\n            // TODO I'm not sure about this >",
     "        match root_stack.pop() { Some(mut potential_higher_root) => {\n            // TODO I'm not sure about this >"),
    ("                root_stack.push(potential_higher_root);\n                break;\n            }\n        } else {\n            // This is the only way the topmost root node could have been removed\n            return Err(EvalexprError::UnmatchedRBrace);\n        }\n    }\n\n    Ok(root)",
     "                root_stack.push(potential_higher_root);\n                break;\n            }\n        }, None => {\n            // This is the only way the topmost root node could have been removed\n            return Err(EvalexprError::UnmatchedRBrace);\n        } }\n    }\n\n    Ok(root)"),
    ("    } else if let Some(root) = root_stack.pop() {\n        Ok(root)\n    } else {\n        Err(EvalexprError::UnmatchedRBrace)\n    }",
     "    } else {\n        match root_stack.pop() {\n            Some(root) => Ok(root),\n            None => Err(EvalexprError::UnmatchedRBrace),\n        }\n    }")]),
  ("R03 pushes through named locals / a pop bound to a local first", T,
   [("                        root.children.push(Node::root_node());\n                        root_stack.push(root);",
     "                        let fresh = Node::root_node();\n                        root.children.push(fresh);\n                        root_stack.push(root);"),
    ("                    if let Some(mut last_root_child) = root.children.pop() {\n                        last_root_child.insert_back_prioritized(node, true)?;",
     "                    let popped = root.children.pop();\n                    if let Some(mut last_root_child) = popped {\n                        last_root_child.insert_back_prioritized(node, true)?;")]),
  ("R04 reorder independent `let`s / statements (the two flags, declaration and update)", T,
   [("    let mut last_token_is_rightsided_value = false;\n    let mut last_token_is_identifier = false;",
     "    let mut last_token_is_identifier = false;\n    let mut last_token_is_rightsided_value = false;"),
    ("        last_token_is_rightsided_value = token.is_rightsided_value();\n        last_token_is_identifier = matches!(token, Token::Identifier(_));",
     "        last_token_is_identifier = matches!(token, Token::Identifier(_));\n        last_token_is_rightsided_value = token.is_rightsided_value();")]),
  ("R05 extract helpers (same_variant; new_sequence_children)", T,
   [("fn collapse_root_stack_to<NumericTypes: EvalexprNumericTypes>(",
     "fn same_variant<NumericTypes: EvalexprNumericTypes>(\n    a: &Operator<NumericTypes>,\n    b: &Operator<NumericTypes>,\n) -> bool {\n    mem::discriminant(a) == mem::discriminant(b)\n}\n\nfn collapse_root_stack_to<NumericTypes: EvalexprNumericTypes>("),
    ("if mem::discriminant(root.operator()) == mem::discriminant(node.operator()) {", "if same_variant(root.operator(), node.operator()) {"),
    ("                                    if mem::discriminant(open_sequence.operator())\n                                        == mem::discriminant(node.operator()) =>",
     "                                    if same_variant(open_sequence.operator(), node.operator()) =>")]),
  ("R06 `matches!` written as a `match`; `token.clone()` dropped in a `let`; `while let` with the `.cloned()` moved", T,
   [("last_token_is_identifier = matches!(token, Token::Identifier(_));",
     "last_token_is_identifier = match token { Token::Identifier(_) => true, _ => false };")]),
  ("R07 `loop` of collapse_all_sequences as `while true`-free restructuring: early `continue`", T,
   [("            if root.operator().is_sequence() {\n                potential_higher_root.children.push(root);\n                root = potential_higher_root;\n            } else {",
     "            if root.operator().is_sequence() {\n                potential_higher_root.children.push(root);\n                root = potential_higher_root;\n                continue;\n            } else {")]),
  ("R08 is_leaf / is_unary / precedence tests written differently (operator tables)", O,
   [("self.max_argument_amount() == Some(0)", "matches!(self.max_argument_amount(), Some(0))"),
    ("!matches!(self, Assign | FunctionIdentifier { .. })", "match self { Assign => false, FunctionIdentifier { .. } => false, _ => true }")]),
]


def sh(cmd, cwd=None, env=None):
    e = dict(os.environ)
    if env:
        e.update(env)
    p = subprocess.run(cmd, cwd=cwd, shell=True, stdout=subprocess.PIPE, stderr=subprocess.STDOUT, text=True, env=e)
    return p.returncode, p.stdout


def restore():
    shutil.rmtree(SRC)
    shutil.copytree(REF, SRC)


def run_one(name, file, edits):
    restore()
    path = os.path.join(SRC, file)
    text = open(path).read()
    for old, new in edits:
        if hasattr(old, "sub"):
            text, n = old.subn(new, text)
            if n == 0:
                return name, "EDIT-NOT-APPLICABLE", old.pattern
            continue
        if text.count(old) < 1:
            return name, "EDIT-NOT-APPLICABLE", old[:60]
        text = text.replace(old, new)
    open(path, "w").write(text)
    t0 = time.time()
    rc, out = sh("python3 translate_fn.py", cwd=VERIF, env={"EVALEXPR_SRC": SRC})
    if rc != 0:
        return name, "UNTRANSLATABLE", out.strip().splitlines()[-1][:200]
    rc, out = sh("lake build " + " ".join(MODS), cwd=os.path.join(VERIF, "lean"))
    dt = time.time() - t0
    if rc == 0:
        return name, "BUILDS", f"{dt:.0f}s"
    failed = re.findall(r"✖ \[\d+/\d+\] Building (\S+)", out)
    errs = re.findall(r"error: (EvalexprVerif/\S+?):(\d+):\d+", out)
    where = ""
    if errs:
        f, line = errs[0]
        src = open(os.path.join(VERIF, "lean", f)).read().splitlines()
        # nearest theorem above the error line
        for i in range(int(line) - 1, -1, -1):
            m = re.match(r"\s*(?:theorem|def|macro)\s+(\S+)", src[i])
            if m:
                where = m.group(1)
                break
    return name, "BREAKS", f"{','.join(x.split('.')[-1] for x in failed)} @ {where} ({dt:.0f}s)"


def main():
    which = sys.argv[1:] or ["M", "R"]
    results = []
    for name, file, *rest in MUTANTS:
        if not any(name.startswith(w) for w in which):
            continue
        r = run_one(name, file, [(rest[0], rest[1])])
        print(r, flush=True)
        results.append(r)
    for name, file, edits in REWRITES:
        if not any(name.startswith(w) for w in which):
            continue
        r = run_one(name, file, edits)
        print(r, flush=True)
        results.append(r)
    restore()
    sh("python3 translate_fn.py", cwd=VERIF, env={"EVALEXPR_SRC": SRC})
    json.dump(results, open("/tmp/tr2/experiments_result.json", "a"), indent=1)


if __name__ == "__main__":
    main()
