#!/usr/bin/env python3
"""validation experiments: apply one edit to /tmp/tr1/src, translate, build the agreement proofs, restore"""
import os, re, shutil, subprocess, sys, time, json

SRC, REF = "/tmp/tr1/src", "/tmp/tr1/src_ref"
VERIF = "/tmp/tr1/verif"
import glob
MODS = sorted("EvalexprVerif.Proofs." + os.path.basename(f)[:-5] for f in glob.glob(os.path.join(VERIF, "lean/EvalexprVerif/Proofs/AgreeFn*.lean")))


def restore():
    shutil.rmtree(SRC)
    shutil.copytree(REF, SRC)


def edit(file, old, new, count=1, nth=0):
    p = os.path.join(SRC, file)
    s = open(p).read()
    idx = -1
    start = 0
    for _ in range(nth + 1):
        idx = s.find(old, start)
        if idx < 0:
            raise SystemExit(f"edit: pattern not found in {file}: {old!r}")
        start = idx + 1
    s = s[:idx] + new + s[idx + len(old):]
    open(p, "w").write(s)


def check(src):
    env = dict(os.environ, EVALEXPR_SRC=src)
    t0 = time.time()
    p = subprocess.run(["python3", os.path.join(VERIF, "translate_fn.py")], env=env, stdout=subprocess.PIPE, stderr=subprocess.STDOUT, text=True)
    tt = time.time() - t0
    if p.returncode != 0:
        return "TRANSLATOR: " + p.stdout.strip().splitlines()[-1], tt, 0
    t0 = time.time()
    b = subprocess.run(["lake", "build"] + MODS, cwd=os.path.join(VERIF, "lean"), stdout=subprocess.PIPE, stderr=subprocess.STDOUT, text=True)
    tb = time.time() - t0
    if b.returncode == 0:
        return "BUILD OK", tt, tb
    bad = re.findall(r"✖ \[\d+/\d+\] Building (\S+)", b.stdout)
    errs = re.findall(r"error: (EvalexprVerif/\S+?):(\d+):\d+: (.*)", b.stdout)
    where = ""
    if errs:
        f, line, msg = errs[0]
        # name of the enclosing theorem
        lines = open(os.path.join(VERIF, "lean", f)).read().splitlines()
        th = ""
        start = int(line) - 1
        if lines[start].lstrip().startswith("/--"):
            while not re.match(r"\s*(theorem|def|instance)\s", lines[start]):
                start += 1
        for i in range(start, -1, -1):
            m = re.match(r"\s*(theorem|def|instance)\s+(\S+)", lines[i])
            if m:
                th = m.group(2)
                break
        where = f"{f.split('/')[-1]}:{line} in `{th}`: {msg[:60]}"
    return "BUILD FAILS: " + ",".join(x.split(".")[-1] for x in bad) + " — " + where, tt, tb


EXPERIMENTS = json.load(open(os.path.join(os.path.dirname(__file__), "experiments.json")))

if __name__ == "__main__":
    only = sys.argv[1:]
    rows = []
    for ex in EXPERIMENTS:
        if only and ex["id"] not in only:
            continue
        restore()
        for e in ex["edits"]:
            edit(e["file"], e["old"], e["new"], nth=e.get("nth", 0))
        res, tt, tb = check(SRC)
        ok = res.startswith("BUILD OK")
        verdict = "as expected" if ok == (ex["expect"] == "ok") else "UNEXPECTED"
        print(f"{ex['id']:5} {ex['kind']:9} expect={ex['expect']:5} {verdict:12} [{tt:.1f}s+{tb:.0f}s] {ex['what']}\n        -> {res}", flush=True)
        rows.append((ex, res, verdict))
    restore()
    res, tt, tb = check(REF)
    print("pristine:", res, f"[{tt:.1f}s+{tb:.0f}s]")
