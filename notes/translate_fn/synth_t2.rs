fn t_two_aliases(v: &mut Vec<Node>) -> EvalexprResult<(), DefaultNumericTypes> {
    let a = v.last_mut().unwrap();
    let b = v.last_mut().unwrap();
    a.children.push(Node::root_node());
    b.children.push(Node::root_node());
    Ok(())
}
fn t_alias_then_root(v: &mut Vec<Node>) -> EvalexprResult<(), DefaultNumericTypes> {
    let a = v.last_mut().unwrap();
    v.push(Node::root_node());
    a.children.push(Node::root_node());
    Ok(())
}
fn t_alias_ok(v: &mut Vec<Node>) -> EvalexprResult<usize, DefaultNumericTypes> {
    let a = v.last_mut().unwrap();
    a.children.push(Node::root_node());
    let b = a.children.last_mut().unwrap();
    b.children.push(Node::root_node());
    Ok(v.len())
}
fn t_index_place(v: &mut Vec<Node>, i: usize) -> EvalexprResult<(), DefaultNumericTypes> {
    let r = &mut v[i];
    r.children.push(Node::root_node());
    v[0].children.push(Node::root_node());
    Ok(())
}
fn t_mut_in_and(v: &mut Vec<Node>, c: bool) -> bool {
    c && v.pop().is_some()
}
fn t_mut_in_closure(v: &mut Vec<Node>) -> usize {
    let f = |x: usize| { v.push(Node::root_node()); x };
    f(1)
}
fn t_while(v: &mut Vec<Node>) -> usize {
    let mut n = 0;
    while !v.is_empty() {
        v.pop();
        n = n + 1;
    }
    n
}
fn t_while_let(v: &mut Vec<Node>) -> usize {
    let mut n = 0;
    while let Some(x) = v.pop() {
        if x.children.is_empty() { continue; }
        n = n + 1;
    }
    n
}
fn t_nested_loop(v: &mut Vec<Node>) -> usize {
    let mut n = 0;
    loop {
        loop {
            if v.is_empty() { break; }
            v.pop();
        }
        n = n + 1;
        if n > 3 { break; }
    }
    n
}
fn t_assign_deref(v: &mut Vec<Node>, x: Node) -> EvalexprResult<(), DefaultNumericTypes> {
    let r = v.last_mut().unwrap();
    *r = x;
    Ok(())
}
fn t_field_assign(n: &mut Node, c: Vec<Node>) {
    n.children = c;
}
fn t_break_in_for(v: &[Node]) -> usize {
    let mut n = 0;
    for x in v { if x.children.is_empty() { break; } n = n + 1; }
    n
}
fn t_iter_misuse(v: Vec<Node>) -> usize {
    let mut it = v.iter().peekable();
    let a = it.next();
    0
}
fn t_order(v: &mut Vec<Node>) -> bool {
    Some(v.len()) == v.pop().map(|x| x.children.len())
}
fn t_order_ok(v: &mut Vec<Node>) -> bool {
    v.pop().map(|x| x.children.len()) == Some(v.len())
}
fn t_mut_in_and(v: &mut Vec<Node>, c: bool) -> bool {
    c && v.pop() == None
}
fn t_mut_in_guard(v: &mut Vec<Node>, c: Option<usize>) -> usize {
    match c {
        Some(n) if v.pop() == None => n,
        _ => 0,
    }
}
fn t_alias_escape(v: &mut Vec<Node>) -> EvalexprResult<(), DefaultNumericTypes> {
    let r = {
        let a = v.last_mut().unwrap();
        a
    };
    r.children.push(Node::root_node());
    Ok(())
}
fn t_if_value(v: &mut Vec<Node>, c: bool) -> usize {
    let k = if c { v.push(Node::root_node()); 1 } else { 2 };
    k + v.len()
}
fn t_shadow(v: &mut Vec<Node>) -> usize {
    let n = 1;
    if v.is_empty() {
        let n = 2;
        v.push(Node::root_node());
    }
    n
}
fn t_alias_move(v: &mut Vec<Node>) -> EvalexprResult<(), DefaultNumericTypes> {
    let a = v.last_mut().unwrap();
    let r = a;
    r.children.push(Node::root_node());
    Ok(())
}
fn t_alias_in_some(v: &mut Vec<Node>) -> EvalexprResult<usize, DefaultNumericTypes> {
    let a = v.last_mut().unwrap();
    let o = Some(a);
    Ok(1)
}
fn t_mutator_push_alias(v: &mut Vec<Node>, w: &mut Vec<Node>) -> EvalexprResult<(), DefaultNumericTypes> {
    let a = v.last_mut().unwrap();
    w.push(a.clone());
    Ok(())
}
