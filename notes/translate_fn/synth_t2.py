import os, sys, shutil, tempfile
sys.path.insert(0, "/tmp/tr2/verif")
tmp = tempfile.mkdtemp()
shutil.copytree("/tmp/tr2/src_ref", tmp + "/src")
os.environ["EVALEXPR_SRC"] = tmp + "/src"
TESTS = open(sys.argv[1]).read()
with open(tmp + "/src/tree/mod.rs", "a") as f:
    f.write("\n" + TESTS)
import translate as T
T.SRC = tmp + "/src"
import translate_fn as F
F.SRC = tmp + "/src"
w = F.World()
names = [it for it in w.items if it.file == "tree/mod.rs" and it.name.startswith("t_")]
for it in names:
    F.TREE_BUILD_FNS[(it.file, it.impl_type, it.name)] = "FnTreeBuild"   # the place discipline is the mode of the tree-builder modules
    try:
        g = w.require(it)
        print(g.text)
    except F.Untranslatable as e:
        print(f"-- {it.name}: UNTRANSLATABLE: {e.what}\n")
