#!/usr/bin/env python3
# phase 6 experiment harness: edit /tmp/tr6/src, retranslate, rebuild AgreeFnSweep
import os, shutil, subprocess, json, sys
SRC, REF, VERIF = "/tmp/tr6/src", "/tmp/tr6/src_ref", "/tmp/tr6/verif"
EXPS = [
  ("B1", "break", "value/mod.rs", "is_number forgets Float",
   "matches!(self, Value::Int(_) | Value::Float(_))", "matches!(self, Value::Int(_))"),
  ("B2", "break", "tree/mod.rs", "iter_read_variable_identifiers also yields write identifiers",
   """    pub fn iter_read_variable_identifiers(&self) -> impl Iterator<Item = &str> {
        self.iter().filter_map(|node| match node.operator() {
            Operator::VariableIdentifierRead { identifier } => Some(identifier.as_str()),""",
   """    pub fn iter_read_variable_identifiers(&self) -> impl Iterator<Item = &str> {
        self.iter().filter_map(|node| match node.operator() {
            Operator::VariableIdentifierWrite { identifier }
            | Operator::VariableIdentifierRead { identifier } => Some(identifier.as_str()),"""),
  ("B3", "break", "value/mod.rs", "TryFrom<Value> for bool reports ExpectedString",
   "Err(EvalexprError::ExpectedBoolean { actual: value })\n        }\n    }\n}\n\nimpl<NumericTypes: EvalexprNumericTypes> TryFrom<Value<NumericTypes>> for TupleType",
   "Err(EvalexprError::ExpectedString { actual: value })\n        }\n    }\n}\n\nimpl<NumericTypes: EvalexprNumericTypes> TryFrom<Value<NumericTypes>> for TupleType"),
  ("B4", "break", "value/mod.rs", "is_tuple tests Empty",
   "matches!(self, Value::Tuple(_))", "matches!(self, Value::Empty)"),
  ("B5", "break", "tree/mod.rs", "iter_function_identifiers_mut yields read-variable identifiers",
   """            .filter_map(|operator| match operator {
                Operator::FunctionIdentifier { identifier } => Some(identifier),""",
   """            .filter_map(|operator| match operator {
                Operator::VariableIdentifierRead { identifier } => Some(identifier),"""),
  ("B6", "break", "tree/mod.rs", "iter_identifiers drops function identifiers",
   """            Operator::VariableIdentifierWrite { identifier }
            | Operator::VariableIdentifierRead { identifier }
            | Operator::FunctionIdentifier { identifier } => Some(identifier.as_str()),
            _ => None,
        })
    }""",
   """            Operator::VariableIdentifierWrite { identifier }
            | Operator::VariableIdentifierRead { identifier } => Some(identifier.as_str()),
            _ => None,
        })
    }"""),
  ("H1", "harmless", "value/mod.rs", "is_number: matches! -> explicit match",
   "matches!(self, Value::Int(_) | Value::Float(_))",
   "match self { Value::Float(_) | Value::Int(_) => true, _ => false }"),
  ("H2", "harmless", "tree/mod.rs", "iter_identifiers: reorder | alternatives",
   """            Operator::VariableIdentifierWrite { identifier }
            | Operator::VariableIdentifierRead { identifier }
            | Operator::FunctionIdentifier { identifier } => Some(identifier.as_str()),
            _ => None,
        })
    }""",
   """            Operator::FunctionIdentifier { identifier }
            | Operator::VariableIdentifierRead { identifier }
            | Operator::VariableIdentifierWrite { identifier } => Some(identifier.as_str()),
            _ => None,
        })
    }"""),
  ("H3", "harmless", "value/mod.rs", "TryFrom<Value> for String: if let -> match",
   """        if let Value::String(value) = value {
            Ok(value)
        } else {
            Err(EvalexprError::ExpectedString { actual: value })
        }""",
   """        match value {
            Value::String(value) => Ok(value),
            value => Err(EvalexprError::ExpectedString { actual: value }),
        }"""),
]
EXPS += [
  ("D1", "break", "value/display.rs", "tuple separator \", \" -> \",\"",
   'write!(f, ", ")?;', 'write!(f, ",")?;'),
  ("D2", "break", "value/display.rs", "strings printed without quotes",
   'write!(f, "\\"{}\\"", string)', 'write!(f, "{}", string)'),
  ("D3", "break", "value/display.rs", "once flag never set (separator never printed)",
   "once = true;", "once = false;"),
  ("D4", "harmless", "value/display.rs", "String arm as three write! calls in a block",
   """            Value::String(string) => write!(f, "\\"{}\\"", string),""",
   """            Value::String(string) => {
                write!(f, "\\"")?;
                write!(f, "{}", string)?;
                write!(f, "\\"")
            },"""),
  ("D5", "harmless?", "value/display.rs", "once flag rewritten as split_first() first/rest",
   """                let mut once = false;
                for value in tuple {
                    if once {
                        write!(f, ", ")?;
                    } else {
                        once = true;
                    }
                    value.fmt(f)?;
                }""",
   """                if let Some((first, rest)) = tuple.split_first() {
                    first.fmt(f)?;
                    for value in rest {
                        write!(f, ", ")?;
                        value.fmt(f)?;
                    }
                }"""),
]
EXPS += [
  ("S1", "break", "feature_serde/mod.rs", "visit_str parses the empty string instead of v",
   "match build_operator_tree(v) {", 'match build_operator_tree("") {'),
  ("S2", "break", "feature_serde/mod.rs", "visit_str turns an error into the tree of the input's error-free fallback (Ok on Err)",
   "Err(error) => Err(E::custom(error)),", "Err(error) => build_operator_tree(\"\").map_err(|_| E::custom(error)),"),
  ("S3", "harmless", "feature_serde/mod.rs", "visit_str: arms swapped",
   """            Ok(node) => Ok(node),
            Err(error) => Err(E::custom(error)),""",
   """            Err(error) => Err(E::custom(error)),
            Ok(node) => Ok(node),"""),
  ("I1", "break", "tree/iter.rs", "NodeIter::next does not descend (children of the yielded node not pushed)",
   """            if let Some(result) = result {
                self.stack.push(result.children.iter());
                return Some(result);
            }
        }
    }
}

/// An iterator that mutably""",
   """            if let Some(result) = result {
                return Some(result);
            }
        }
    }
}

/// An iterator that mutably"""),
  ("I2", "break", "tree/iter.rs", "NodeIter::new starts with an empty stack",
   """        NodeIter {
            stack: vec![node.children.iter()],""",
   """        NodeIter {
            stack: vec![],"""),
  ("I3", "harmless", "tree/iter.rs", "NodeIter::new uses the accessor children()",
   """        NodeIter {
            stack: vec![node.children.iter()],""",
   """        NodeIter {
            stack: vec![node.children().iter()],"""),
]
def reset():
    shutil.rmtree(SRC, ignore_errors=True); shutil.copytree(REF, SRC)
def tr(src):
    return subprocess.run(["python3", "translate_fn.py"], cwd=VERIF, env=dict(os.environ, EVALEXPR_SRC=src), capture_output=True, text=True)
def build():
    return subprocess.run(["lake", "build", "EvalexprVerif.Proofs.AgreeFnSweep"], cwd=VERIF + "/lean", capture_output=True, text=True)
rows = []
only = sys.argv[1:]
for (eid, kind, f, desc, old, new) in EXPS:
    if only and eid not in only: continue
    reset()
    p = os.path.join(SRC, f); s = open(p).read()
    assert s.count(old) == 1, (eid, s.count(old))
    open(p, "w").write(s.replace(old, new))
    t = tr(SRC)
    if t.returncode != 0:
        res = "translator: " + (t.stdout + t.stderr).strip().splitlines()[-1][:200]
    else:
        b = build(); out = b.stdout + b.stderr
        if b.returncode == 0: res = "BUILDS"
        else:
            import re
            errs = [l for l in out.splitlines() if "error:" in l and ".lean:" in l]
            names = []
            for l in errs:
                m = re.search(r"(EvalexprVerif/\S+\.lean):(\d+):", l)
                src = open(VERIF + "/lean/" + m.group(1)).read().splitlines()
                i = min(int(m.group(2)), len(src)) - 1
                while i >= 0 and not src[i].startswith("theorem"): i -= 1
                nm = (src[i].split()[1] if i >= 0 else "?") + " [" + os.path.basename(m.group(1)) + "]"
                if nm not in names: names.append(nm)
            res = "BROKEN: " + ", ".join(names)
    ok = (kind == "break") != (res == "BUILDS")
    rows.append((eid, kind, desc, res, "as expected" if ok else "UNEXPECTED"))
    print(rows[-1], flush=True)
reset()
t = tr(REF); print(t.stdout.strip().splitlines()[-1][:200])
b = build(); print("restored build rc", b.returncode)
json.dump(rows, open("/tmp/tr6/exp/results6.json", "w"), indent=1)
