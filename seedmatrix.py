#!/usr/bin/env python3
"""seedmatrix.py [ids…] — re-run every kept seeded change (seeded/<id>-<letter>/patch.diff) against the
quick check of its own property: apply to /repo, ./check <id> quick, undo.  Writes seeded/MATRIX.json
(per seed: exit code, whether a concrete failing input was found, the first line of the replay) which
DESIGN.md §13 quotes.  Nothing is committed to /repo; the working tree is restored after every seed.
The confirmation that a change compiles, passes the 58 tests and fails its demonstration was done by
seedtest.py when the seed was kept (meta.json)."""
import json, os, re, subprocess, sys, time

def sh(cmd, cwd="/verif", timeout=3600):
    p = subprocess.run(cmd, cwd=cwd, shell=True, stdout=subprocess.PIPE, stderr=subprocess.STDOUT, text=True, timeout=timeout,
                       env=dict(os.environ, CARGO_NET_OFFLINE="true"))
    return p.returncode, p.stdout

def main():
    want = sys.argv[1:]
    rc, out = sh("git -C /repo status --porcelain")
    if out.strip():
        print("refusing: /repo working tree is not clean"); return 2
    path = "/verif/seeded/MATRIX.json" if not os.environ.get("VERIF_SEED") else "/tmp/MATRIX.seed%s.json" % os.environ["VERIF_SEED"]
    matrix = json.load(open(path)) if os.path.exists(path) else {}
    for d in sorted(os.listdir("/verif/seeded")):
        if not os.path.isdir(f"/verif/seeded/{d}") or (want and d not in want and d.split("-")[0] not in want):
            continue
        pid = d.split("-")[0]
        t0 = time.time()
        rc, out = sh(f"git -C /repo apply /verif/seeded/{d}/patch.diff")
        if rc != 0:
            matrix[d] = {"applies": False}; print(d, "patch does not apply"); continue
        try:
            rc, out = sh(f"./check {pid} quick")
            viol = [l for l in out.splitlines() if l.startswith("VIOLATION")]
            entry = {"applies": True, "exit": rc, "violation_line": viol[0] if viol else None,
                     "concrete": bool(viol) and not viol[0].rstrip().endswith("no-failing-input-found"), "wall_s": round(time.time() - t0, 1)}
            m = re.search(r"replay=(\S+)", out)
            if m and os.path.exists(m.group(1)):
                r = json.load(open(m.group(1)))
                entry["kind"] = r.get("kind")
                entry["detail"] = (r.get("detail") or "")[:400]
                if r.get("no_longer_checks"):
                    entry["no_longer_checks"] = [x[:200] for x in r["no_longer_checks"][:4]]
            matrix[d] = entry
            print(d, "exit", rc, "concrete" if entry["concrete"] else "NOT-CONCRETE", entry.get("detail", "")[:150].replace("\n", " "), flush=True)
        finally:
            sh("git -C /repo checkout -- .")
            sh("rm -rf /verif/replays")
        json.dump(matrix, open(path, "w"), indent=1, ensure_ascii=False, sort_keys=True)
    return 0

if __name__ == "__main__":
    sys.exit(main())
